"""Specification functions shared by contracts (registered into pyvc.specfuns)."""
import z3
from pyvc import specfuns, ropes, smt
from pyvc.values import VSeq, VInt, VBool, Seg, zint, simp, is_conc, Unsupported


@specfuns.register("asbytes_spec")
def asbytes_spec(I, args, fr):
    """util.asbytes on str|bytes: identity on bytes, utf-8 on str"""
    v = args[0]
    if isinstance(v, VSeq) and v.pytype == "str":
        c = ropes.conc_value(v)
        if c is not None:
            return ropes.const_seq(c.encode("utf-8"))
        r = smt.utf8enc(ropes.seq_term(I.st, v))
        I.st.assume(smt.slen(r) >= 0)
        return VSeq([Seg("A", r, smt.slen(r))], "bytes")
    if isinstance(v, VSeq):
        return VSeq(v.segs, "bytes")
    from pyvc.values import VOpaque
    if isinstance(v, VOpaque) and v.t is not None:
        # an opaque library value used as bytes: some byte string determined by the value
        f = z3.Function("uf_bytes_of", smt.Int, smt.Seq)
        t = f(v.t)
        I.st.assume(z3.And(smt.slen(t) >= 0, smt.slen(t) < 2 ** 20))
        return VSeq([Seg("A", t, smt.slen(t))], "bytes")
    raise Unsupported("asbytes_spec of %s" % I.type_name(v))


mpint_fn = z3.Function("mpint_enc", smt.Int, smt.Seq)


@specfuns.register("mpint_spec")
def mpint_spec(I, args, fr):
    """RFC 4251 mpint body of an integer: minimal two's complement, zero = empty (specification function)"""
    z = args[0].t
    if is_conc(z):
        if z == 0:
            return ropes.const_seq(b"")
        n = 1
        while not (-(1 << (8 * n - 1)) <= z < (1 << (8 * n - 1))):
            n += 1
        return ropes.const_seq(z.to_bytes(n, "big", signed=True))
    t = mpint_fn(zint(z))
    I.st.assume(smt.slen(t) >= 0)
    return VSeq([Seg("A", t, smt.slen(t))], "bytes")


tcval_fn = z3.Function("tcval", smt.Seq, smt.Int)


@specfuns.register("tcval")
def tcval(I, args, fr):
    """two's-complement big-endian value of a byte string (empty = 0): specification function"""
    v = args[0]
    c = ropes.conc_value(v)
    if c is not None:
        return VInt(int.from_bytes(c, "big", signed=True) if len(c) else 0)
    return VInt(tcval_fn(ropes.seq_term(I.st, v)))


_n = z3.Int("n_")
# definitional facts relating the two specification functions (mathematics of two's complement, validated
# natively against int.to_bytes/from_bytes(signed=True) by harness c39.validate_spec)
MPINT_AXIOMS = [
    z3.ForAll([_n], tcval_fn(mpint_fn(_n)) == _n, patterns=[mpint_fn(_n)]),
    smt.slen(mpint_fn(z3.IntVal(0))) == 0,
    tcval_fn(smt.sempty) == 0,
    z3.ForAll([_n], smt.slen(mpint_fn(_n)) >= 0, patterns=[mpint_fn(_n)]),
]


@specfuns.register("unhandled_type")
def unhandled_type(I, args, fr):
    """message type not dispatched by any of the transport's tables (tables read from the real objects)"""
    from contracts import transport
    from pyvc.symexec import Frame
    sub = Frame(fr.finfo, {"self": args[0], "ptype": args[1]}, "paramiko.transport", "paramiko.transport.Transport")
    sub.spec = True
    sub.closure = None
    return I.E.eval_spec_in(I, transport.UNHANDLED, sub)


# block_hashes_from(alg, F, o, bs, end): concatenation of digest(alg, F[b : min(b+bs, end)]) for the consecutive blocks
# b = o, o+bs, ... below `end` (specification function; its native meaning is validated by harness c32)
_bh = z3.Function("uf_block_hashes_from", smt.Int, smt.Seq, smt.Int, smt.Int, smt.Int, smt.Seq)
_dg = z3.Function("uf_digest", smt.Int, smt.Seq, smt.Seq)
_a, _o, _bs, _e, _x2 = z3.Ints("a_ o_ bs_ e_ x2_")
_F = z3.Const("F_", smt.Seq)
_p, _q, _r = z3.Consts("p_ q_ r_", smt.Seq)
BLOCK_HASH_AXIOMS = [
    z3.ForAll([_a, _F, _o, _bs, _e], z3.Implies(_o >= _e, _bh(_a, _F, _o, _bs, _e) == smt.sempty),
              patterns=[_bh(_a, _F, _o, _bs, _e)]),
    # unfold one block at o (instantiated only where the slice F[o:x] of that block occurs)
    z3.ForAll([_a, _F, _o, _bs, _e, _x2],
              z3.Implies(z3.And(_o < _e, _bs >= 1, _x2 == _o + z3.If(_bs <= _e - _o, _bs, _e - _o)),
                         _bh(_a, _F, _o, _bs, _e) == smt.scat(_dg(_a, smt.sslice(_F, _o, _x2)), _bh(_a, _F, _x2, _bs, _e))),
              patterns=[z3.MultiPattern(_bh(_a, _F, _o, _bs, _e), smt.sslice(_F, _o, _x2))]),
    z3.ForAll([_p, _q, _r], smt.scat(smt.scat(_p, _q), _r) == smt.scat(_p, smt.scat(_q, _r)), patterns=[smt.scat(smt.scat(_p, _q), _r)]),
    z3.ForAll([_p], smt.scat(_p, smt.sempty) == _p, patterns=[smt.scat(_p, smt.sempty)]),
    z3.ForAll([_p], smt.scat(smt.sempty, _p) == _p, patterns=[smt.scat(smt.sempty, _p)]),
]


@specfuns.register("hash_id")
def hash_id(I, args, fr):
    """numeric id of a hash constructor value (sha1 = 1, md5 = 2), matching the ghost set by the constructor contracts"""
    from pyvc.values import VFunc
    v = args[0]
    if isinstance(v, VFunc):
        return VInt({"_hashlib.openssl_sha1": 1, "_hashlib.openssl_md5": 2}.get(v.qualname, 0))
    return VInt(0)


@specfuns.register("same_handler")
def same_handler(I, args, fr):
    """identity of two optional callables"""
    from pyvc.values import VNone
    a, b = args
    if isinstance(a, VNone) or isinstance(b, VNone):
        return VBool(isinstance(a, VNone) and isinstance(b, VNone))
    r = I.identical(a, b)
    return VBool(r)
