"""Lemma programs for C39: clients of the Message contracts (callees are used by contract, never by body).
Each assert is a proof obligation: a value written by add_X is read back unchanged by get_X, after any prefix
and before any suffix; already-read bytes plus the remainder equal the whole message."""


def roundtrip_int(prefix, v, suffix):
    from paramiko.message import Message
    m = Message()
    m.add_bytes(prefix)
    m.add_int(v)
    m.add_bytes(suffix)
    r = Message(m.asbytes())
    p = r.get_bytes(len(prefix))
    assert p == prefix
    assert r.get_int() == v
    assert r.get_remainder() == suffix
    assert r.get_so_far() + r.get_remainder() == m.asbytes()


def roundtrip_int64(prefix, v, suffix):
    from paramiko.message import Message
    m = Message()
    m.add_bytes(prefix)
    m.add_int64(v)
    m.add_bytes(suffix)
    r = Message(m.asbytes())
    r.get_bytes(len(prefix))
    assert r.get_int64() == v
    assert r.get_remainder() == suffix


def roundtrip_boolean(prefix, v, suffix):
    from paramiko.message import Message
    m = Message()
    m.add_bytes(prefix)
    m.add_boolean(v)
    m.add_bytes(suffix)
    r = Message(m.asbytes())
    r.get_bytes(len(prefix))
    assert r.get_boolean() == v
    assert r.get_remainder() == suffix


def roundtrip_string(prefix, v, suffix):
    from paramiko.message import Message
    m = Message()
    m.add_bytes(prefix)
    m.add_string(v)
    m.add_bytes(suffix)
    r = Message(m.asbytes())
    r.get_bytes(len(prefix))
    assert r.get_string() == v
    assert r.get_remainder() == suffix


def roundtrip_binary(prefix, v, suffix):
    from paramiko.message import Message
    m = Message()
    m.add_bytes(prefix)
    m.add_string(v)
    m.add_bytes(suffix)
    r = Message(m.asbytes())
    r.get_bytes(len(prefix))
    assert r.get_binary() == v
    assert r.get_remainder() == suffix


def roundtrip_text(prefix, v, suffix):
    from paramiko.message import Message
    m = Message()
    m.add_bytes(prefix)
    m.add_string(v)
    m.add_bytes(suffix)
    r = Message(m.asbytes())
    r.get_bytes(len(prefix))
    assert r.get_text() == v
    assert r.get_remainder() == suffix


def roundtrip_byte(prefix, v, suffix):
    from paramiko.message import Message
    m = Message()
    m.add_bytes(prefix)
    m.add_byte(v)
    m.add_bytes(suffix)
    r = Message(m.asbytes())
    r.get_bytes(len(prefix))
    assert r.get_byte() == v
    assert r.get_remainder() == suffix


def sequence_in_order(a, b, c, d):
    from paramiko.message import Message
    m = Message()
    m.add_int(a)
    m.add_string(b)
    m.add_boolean(c)
    m.add_int64(d)
    r = Message(m.asbytes())
    assert r.get_int() == a
    assert r.get_string() == b
    assert r.get_boolean() == c
    assert r.get_int64() == d
    assert r.get_remainder() == bytes()
    assert r.get_so_far() == m.asbytes()


def roundtrip_mpint(prefix, v, suffix):
    from paramiko.message import Message
    m = Message()
    m.add_bytes(prefix)
    m.add_mpint(v)
    m.add_bytes(suffix)
    r = Message(m.asbytes())
    r.get_bytes(len(prefix))
    assert r.get_mpint() == v
    assert r.get_remainder() == suffix


def roundtrip_adaptive_int(prefix, v, suffix):
    from paramiko.message import Message
    m = Message()
    m.add_bytes(prefix)
    m.add_adaptive_int(v)
    m.add_bytes(suffix)
    r = Message(m.asbytes())
    r.get_bytes(len(prefix))
    assert r.get_adaptive_int() == v
    assert r.get_remainder() == suffix
