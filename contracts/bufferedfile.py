"""Contracts for paramiko/file.py BufferedFile (C42).

ghost src  : bytes the underlying stream will still deliver (in order); _read hands out a prefix, however it cuts it
ghost sink : bytes the underlying stream has accepted so far; _write takes a non-empty prefix of what it is given"""
import z3
from pyvc import ropes, smt
from pyvc.values import VSeq, VInt, VNone, NONE, zint

F = "paramiko.file.BufferedFile."
TOTAL = "(old(self._rbuffer) + old(ghost('src')))"
UNL = "(True if isnone(size) else size < 0)"          # 'no limit' argument


def _read_result(I, env, sf):
    """_read(size): a prefix of the pending stream of at most `size` bytes; empty (or None) only at end of stream"""
    st = I.st
    src = st.ghost.get("src")
    if src is None:
        src = I.fresh_of_type("bytes", "ghost.src")
        st.ghost["src"] = src
        st.ghost_init["src"] = src
    k = st.fresh_int("read_len")
    n = zint(env["size"].t)
    st.assume(z3.And(k >= 0, k <= n, k <= zint(ropes.seq_len(src)), z3.Implies(k == 0, z3.Or(zint(ropes.seq_len(src)) == 0, n <= 0))))
    if st.choose(2) == 1:
        st.assume(zint(ropes.seq_len(src)) == 0)
        return NONE                                   # some streams answer None at end of file
    return ropes.slice_norm(st, src, 0, k)


def declare(E):
    from contracts import message, specs
    message.declare(E)
    E.declare_ghost(src="bytes", sink="bytes")
    E.declare_class("paramiko.file.BufferedFile", {
        "_flags": "int[0,256]", "_rbuffer": "bytes", "_wbuffer": "bytesio", "_bufsize": "int[1,]", "_pos": "nat", "_realpos": "nat",
        "_size": "nat", "_closed": "bool", "_at_trailing_cr": "bool", "newlines": "opt[bytes]"})
    E.contract(F + "_read", params={"size": "int"}, returns=_read_result,
               requires=["size >= 0"],
               ghost={"src": "ghost('src')[(len(result) if notnone(result) else 0):]"},
               raises={"EOFError": "len(ghost('src')) == 0"}, modifies=[])
    E.contract(F + "_write", params={"data": "bytes"}, returns="int",
               ensures=["1 <= result and result <= len(data)"], requires=["len(data) >= 1"],
               ghost={"sink": "ghost('sink') + data[:result]"}, raises={"OSError": "True"}, modifies=[])
    E.contract(F + "_record_newline", returns="none", modifies=["self.newlines"])
    E.inline("paramiko.util.u", "paramiko.util.b")
    READABLE = {"open_for_reading": "not self._closed and self._flags % 2 == 1"}
    # ---- read(size)
    E.contract(F + "read", params={"size": "opt[int]"},
               requires=dict(READABLE),
               ensures={
                   "returns_the_next_bytes_of_the_stream": "result == %s[:len(result)]" % TOTAL,
                   "at_most_size": "True if %s else len(result) <= size" % UNL,
                   "short_only_at_end_of_stream":
                       "(len(self._rbuffer) == 0 and len(ghost('src')) == 0) if %s else"
                       " ((len(self._rbuffer) == 0 and len(ghost('src')) == 0) if len(result) < size else True)" % UNL,
                   "rest_still_pending_in_order": "self._rbuffer + ghost('src') == %s[len(result):]" % TOTAL,
                   "position_advanced": "self._pos == old(self._pos) + len(result)",
               },
               loops={
                   0: dict(inv=["len(result) <= len(%s)" % TOTAL, "len(self._rbuffer) == 0",
                                "self._pos == old(self._pos) + len(result)"],
                           defs={"result": "bytearray(%s[:len(result)])" % TOTAL, "ghost:src": "%s[len(result):]" % TOTAL},
                           havoc_ghosts=["src"], vars={"new_data": "opt[bytes]"}),
                   1: dict(inv=["len(self._rbuffer) <= len(%s)" % TOTAL, "self._pos == old(self._pos)"],
                           defs={"self._rbuffer": "%s[:len(self._rbuffer)]" % TOTAL, "ghost:src": "%s[len(self._rbuffer):]" % TOTAL},
                           havoc_ghosts=["src"], vars={"new_data": "opt[bytes]", "read_size": "int"}),
               },
               returns="bytes", raises={}, modifies=["self._rbuffer", "self._pos", "self._realpos"])
    # ---- readline(size), byte-exact newline mode
    E.contract("bytes.find", argnames=["self", "needle"], returns="int",
               requires=["len(needle) == 1"],
               ensures=["result == -1 or (0 <= result and result < len(self) and self[result] == needle[0])",
                        "forall(lambda j: implies(0 <= j and j < (len(self) if result == -1 else result), at(self, j) != at(needle, 0)))"])
    E.contract("bytes.rfind", argnames=["self", "needle"], returns="int",
               requires=["len(needle) == 1"],
               ensures=["result == -1 or (0 <= result and result < len(self) and self[result] == needle[0])",
                        "forall(lambda j: implies((0 if result == -1 else result + 1) <= j and j < len(self), at(self, j) != at(needle, 0)))"])
    E.contract(F + "readline", params={"size": "opt[int]"},
               requires=dict(READABLE, binary="(self._flags // 16) % 2 == 1", no_universal_newlines="(self._flags // 128) % 2 == 0",
                             no_pending_cr="not self._at_trailing_cr"),
               ensures={
                   "returns_the_next_bytes_of_the_stream": "result == %s[:len(result)]" % TOTAL,
                   "rest_still_pending_in_order": "self._rbuffer + ghost('src') == %s[len(result):]" % TOTAL,
                   "respects_the_size_limit": "True if %s else len(result) <= size" % UNL,
                   "no_newline_before_the_last_byte":
                       "forall(lambda j: implies(0 <= j and j < len(result) - 1, at(result, j) != 10))",
                   "ends_at_a_newline_unless_cut_by_size_or_end_of_stream":
                       "len(result) == 0 or result[len(result) - 1] == 10 or (False if %s else len(result) == size)" % UNL +
                       " or (len(self._rbuffer) == 0 and len(ghost('src')) == 0)",
                   "position_advanced": "self._pos == old(self._pos) + len(result)",
               },
               loops={0: dict(inv=["len(line) <= len(%s)" % TOTAL, "self._pos == old(self._pos)", "not local('truncated', False)",
                                   "not self._at_trailing_cr"],
                              defs={"line": "%s[:len(line)]" % TOTAL, "ghost:src": "%s[len(line):]" % TOTAL},
                              havoc_ghosts=["src"], vars={"new_data": "opt[bytes]", "n": "int"})},
               returns="bytes", raises={}, modifies=["self._rbuffer", "self._pos", "self._realpos", "self._at_trailing_cr", "self.newlines"])
    # ---- writing
    E.contract(F + "_write_all", params={"raw_data": "bytes"},
               ensures={"everything_reached_the_stream_in_order": "ghost('sink') == old(ghost('sink')) + raw_data"},
               ghost={"sink": "ghost('sink') + raw_data"},
               loops={0: dict(inv=["ghost('sink') + data == old(ghost('sink')) + raw_data"],
                              havoc_ghosts=["sink"], vars={"count": "int", "data": "bytes"})},
               returns="none", raises={"OSError": "True"}, modifies=["self._pos", "self._realpos", "self._size"])
    PENDING = "self._wbuffer.getvalue()"
    E.contract(F + "flush",
               ensures={"buffered_data_written_out_in_order": "ghost('sink') == old(ghost('sink')) + old(%s)" % PENDING,
                        "buffer_empty": "len(%s) == 0" % PENDING},
               returns="none", raises={"OSError": "True"},
               modifies=["self._wbuffer", "old(self._wbuffer).buf", "old(self._wbuffer).pos", "self._pos", "self._realpos", "self._size"])
    E.contract(F + "write", params={"data": "bytes"},
               requires={"open_for_writing": "not self._closed and (self._flags // 2) % 2 == 1",
                         "write_pos_at_end": "self._wbuffer.tell() == len(%s)" % PENDING,
                         "unbuffered_files_hold_nothing_back": "implies((self._flags // 32) %% 2 == 0, len(%s) == 0)" % PENDING},
               ensures={
                   "nothing_lost_or_reordered": "ghost('sink') + %s == old(ghost('sink')) + old(%s) + data" % (PENDING, PENDING),
                   "unbuffered_data_goes_out_at_once":
                       "implies((self._flags // 32) %% 2 == 0, len(%s) == len(old(%s)))" % (PENDING, PENDING),
               },
               returns="none", raises={"OSError": "True"},
               modifies=["self._wbuffer", "old(self._wbuffer).buf", "old(self._wbuffer).pos", "self._pos", "self._realpos", "self._size"])
