"""Lemma program for C01: one message through a sender and a receiver that are in step (client of the contracts of
send_message and read_message only; their bodies are verified against those contracts separately)."""


def deliver(m):
    """ghost step: the bytes the sender put on its socket become the receiver's pending stream"""
    pass


def one_message(S, R, m):
    S.send_message(m)
    deliver(m)
    cmd, msg = R.read_message()
    sent = m.asbytes()
    assert cmd == sent[0]
    assert msg.asbytes() == sent[1:]
    assert msg.seqno == R._Packetizer__sequence_number_in - 1 or R._Packetizer__sequence_number_in == 0
    # the two ends are in step again
    assert S._Packetizer__sequence_number_out == R._Packetizer__sequence_number_in
    assert S._Packetizer__iv_out == R._Packetizer__iv_in
