"""Contracts for paramiko/auth_handler.py (server side: C14, C16)"""
AH = "paramiko.auth_handler.AuthHandler."
GH = "paramiko.auth_handler.GssapiWithMicAuthHandler."
RA = {"EOFError": "True", "OSError": "True", "SSHException": "True"}

APPROVED = "(ghost('app_consulted') and ghost('app_verdict') == 0 and ghost('app_user') == username)"


def declare(E, keep_readers=()):
    from contracts import message
    message.declare(E)
    message.light_readers(E, keep=keep_readers)
    E.declare_ghost(app_consulted="bool", app_verdict="int", app_user="str", sig_ok="bool", sig_blob="bytes",
                    session_blob="bytes", results_sent="int", last_result="int", last_result_user="str",
                    disconnected="bool", consult_count="int", sent_count="int", last_sent="bytes")
    E.declare_class("paramiko.auth_handler.AuthHandler", {
        "transport": "obj:Transport", "authenticated": "bool", "auth_username": "opt[str]", "auth_fail_count": "int",
        "auth_event": "opt[opaque:Event]", "auth_method": "str", "username": "opt[str]", "gss_host": "opt[str]",
        "gss_deleg_creds": "bool", "banner": "opt[str]", "password": "opt[str]", "private_key": "opt[opaque:PKey]"})
    E.declare_class("paramiko.transport.Transport", {
        "server_mode": "bool", "server_object": "opaque:Server", "kexgss_ctxt": "opt[opaque:GSS]",
        "session_id": "bytes", "auth_handler": "opt[obj:AuthHandler]", "_expected_packet": "tuple[int]",
        "active": "bool", "preferred_pubkeys": "opaque:NameList", "_key_info": "opaque:KeyInfo",
        "saved_exception": "opt[opaque:Exc]"})
    # ---- the application (ServerInterface): arbitrary verdicts, recorded in ghost state
    def callback(name, argnames, returns="int"):
        E.contract("Server." + name, argnames=["self"] + argnames, returns=returns,
                   ghost={"app_consulted": "True", "app_verdict": "result if isint(result) else 1", "app_user": "username",
                          "consult_count": "ghost('consult_count') + 1"},
                   raises={})
    callback("check_auth_none", ["username"])
    callback("check_auth_password", ["username", "password"])
    callback("check_auth_publickey", ["username", "key"])
    callback("check_auth_interactive", ["username", "submethods"], returns="union[int,obj:InteractiveQuery]")
    callback("check_auth_interactive_response", ["responses"])
    callback("check_auth_gssapi_keyex", ["username", "gss_authenticated"])
    callback("check_auth_gssapi_with_mic", ["username", "gss_authenticated"])
    E.contract("Server.enable_auth_gssapi", argnames=["self"], returns="bool")
    E.contract("Server.get_allowed_auths", argnames=["self", "username"], returns="str", ensures=["len(utf8enc(result)) < 2**32"])
    E.declare_class("paramiko.server.InteractiveQuery", {})
    # ---- transport collaborators
    T = "paramiko.transport.Transport."
    E.contract(T + "_send_message", params={"data": "obj:Message"}, returns="none",
               ghost={"sent_count": "ghost('sent_count') + 1", "last_sent": "data.packet.getvalue()"}, raises=dict(RA), modifies=[])
    E.contract(T + "_auth_trigger", returns="none", modifies=[])
    E.contract(T + "close", returns="none", modifies=["self.active"], ensures=["not self.active"],
               ghost={"disconnected": "True"})
    E.contract(AH + "_interactive_query", returns="none", raises=dict(RA), modifies=[])
    E.contract(AH + "_generate_key_from_request", params={"algorithm": "str", "keyblob": "bytes"},
               returns="opt[opaque:PKey]", raises={"SSHException": "True", "Exception": "True"}, modifies=[])
    E.declare_ghost(sig_alg="bytes", declared_alg="bytes", sig_wellformed="bool")
    E.contract("PKey.verify_ssh_sig", argnames=["self", "data", "msg"], returns="bool",
               ghost={"sig_ok": "result", "sig_blob": "data",
                      # what the verified blob says about itself (first string), for C07
                      "sig_wellformed": "len(msg.packet.getvalue()) >= 4 and unpack32(msg.packet.getvalue()[0:4]) <= len(msg.packet.getvalue()) - 4",
                      "sig_alg": "msg.packet.getvalue()[4:4 + unpack32(msg.packet.getvalue()[0:4])]"},
               # key classes can raise on malformed signature blobs (C35); the handler must not treat that as valid
               # (SSHException listed on its own: a handler for that class is not entered by the generic outcome)
               raises={"Exception": {"when": "True", "ghost": {"verify_raised": "True"}},
                       "SSHException": {"when": "True", "ghost": {"verify_raised": "True"}},
                       "ValueError": {"when": "True", "ghost": {"verify_raised": "True"}}})
    E.declare_ghost(verify_raised="bool")
    E.contract(AH + "_get_key_type_and_bits", returns="tuple[str,bytes]",
               ensures=["result[1] == fn('key_bits', 'bytes', key)", "len(result[1]) < 2**32"], modifies=[])
    E.contract("paramiko.ssh_gss.GSSAuth", returns="opaque:GSS", raises={"ImportError": "True"})
    for n in ("ssh_check_mech", "ssh_gss_oids", "ssh_check_mic", "ssh_accept_sec_context"):
        E.contract("GSS." + n, argnames=["self", "a", "b", "c"], returns={"ssh_check_mech": "bool", "ssh_gss_oids": "bytes"}.get(n, "opt[bytes]"),
                   raises={"Exception": {"when": "True", "ghost": {"gss_failed": "True"}}} if n in ("ssh_check_mic", "ssh_accept_sec_context") else {})
    E.contract(GH + "__init__", returns="none")

    # ---- verified functions
    E.contract(AH + "_get_session_blob",
               params={"key": "opaque:PKey", "service": "str", "username": "str", "algorithm": "str"},
               ensures={"blob_binds_session_user_service_algorithm_key":
                        "result == pack32(len(self.transport.session_id)) + self.transport.session_id + b'\\x32'"
                        " + pack32(len(utf8enc(username))) + utf8enc(username) + pack32(len(utf8enc(service))) + utf8enc(service)"
                        " + pack32(9) + b'publickey' + b'\\x01' + pack32(len(utf8enc(algorithm))) + utf8enc(algorithm)"
                        " + pack32(len(fn('key_bits', 'bytes', key))) + fn('key_bits', 'bytes', key)"},
               ghost={"session_blob": "result",
                      "declared_alg": "utf8enc(fn('str_replace', 'str', algorithm, '-cert-v01@openssh.com', ''))"},
               returns="bytes", raises={"struct.error": "True"}, modifies=[])
    E.contract(AH + "_disconnect_no_more_auth", returns="none", raises=dict(RA), modifies=["self.transport.active"],
               ghost={"disconnected": "True"}, ensures=["not self.transport.active"])
    E.contract(AH + "_disconnect_service_not_available", returns="none", raises=dict(RA), modifies=["self.transport.active"],
               ghost={"disconnected": "True"}, ensures=["not self.transport.active"])
    E.contract(AH + "_send_auth_result", params={"username": "str", "method": "str", "result": "int"},
               requires={
                   "success_only_with_application_approval": "implies(result == 0, %s)" % APPROVED,
                   "publickey_success_only_with_verified_signature_over_this_session":
                       "implies(result == 0 and method == 'publickey', ghost('sig_ok') and ghost('sig_blob') == ghost('session_blob'))",
                   "fail_count_sane": "0 <= self.auth_fail_count",
               },
               ensures={
                   "authenticated_only_on_success": "self.authenticated == (old(self.authenticated) or result == 0)",
                   "failures_counted": "self.auth_fail_count == old(self.auth_fail_count) + (1 if (result != 0 and result != 1) else 0)",
                   "tenth_failure_disconnects": "implies(self.auth_fail_count >= 10, ghost('disconnected'))",
                   "SUCCESS_message_iff_success": "(ghost('last_sent')[0:1] == b'\\x34') == (result == 0)",
               },
               ghost={"results_sent": "ghost('results_sent') + 1", "last_result": "result", "last_result_user": "username"},
               returns="none", raises=dict(RA), modifies=["self.authenticated", "self.auth_fail_count", "self.transport.active"])
    E.contract(AH + "_parse_userauth_request", params={"m": "obj:Message"},
               requires={"msg_pos": "0 <= m.packet.tell() and m.packet.tell() <= len(m.packet.getvalue())",
                         "fail_count_sane": "0 <= self.auth_fail_count",
                         "fresh_request": "not ghost('app_consulted') and not ghost('sig_ok') and not ghost('disconnected') and not ghost('gss_failed') and not ghost('verify_raised')"},
               ensures={
                   "application_only_consulted_for_the_pinned_username":
                       "implies(ghost('consult_count') != old(ghost('consult_count')),"
                       " ghost('app_user') == self.auth_username and"
                       " (self.auth_username == old(self.auth_username) if notnone(old(self.auth_username)) else True))",
                   "application_only_consulted_for_ssh_connection_service":
                       "implies(ghost('consult_count') != old(ghost('consult_count')), local('service', '') == 'ssh-connection')",
                   "username_change_or_wrong_service_disconnects_without_any_verdict":
                       "implies(ghost('disconnected') and ghost('consult_count') == old(ghost('consult_count')),"
                       " ghost('results_sent') == old(ghost('results_sent')) and self.authenticated == old(self.authenticated))",
                   "authenticated_only_through_send_auth_result":
                       "implies(self.authenticated and not old(self.authenticated), ghost('results_sent') != old(ghost('results_sent')) and ghost('last_result') == 0)",
               },
               returns="none",
               raises={"EOFError": "True", "OSError": "True", "SSHException": "True", "UnicodeDecodeError": "True",
                       "ImportError": "True", "struct.error": "True", "Exception": "ghost('gss_failed') or ghost('verify_raised')"},
               modifies=None)
    E.declare_ghost(gss_failed="bool")
    # ---- gssapi-with-mic delegate handler
    E.declare_class("paramiko.auth_handler.GssapiWithMicAuthHandler", {"_delegate": "obj:AuthHandler", "sshgss": "opaque:GSS"})
    E.inline(GH + "transport", GH + "_send_auth_result", GH + "auth_username", GH + "gss_host",
             GH + "_restore_delegate_auth_handler")
    E.contract(GH + "_parse_userauth_gssapi_mic", params={"m": "obj:Message"},
               requires={"msg_pos": "0 <= m.packet.tell() and m.packet.tell() <= len(m.packet.getvalue())",
                         "fail_count_sane": "0 <= self._delegate.auth_fail_count",
                         "username_pinned": "notnone(self._delegate.auth_username)",
                         "fresh_request": "not ghost('app_consulted') and not ghost('sig_ok') and not ghost('disconnected') and not ghost('gss_failed')"},
               ensures={"authenticated_only_through_send_auth_result":
                        "implies(self._delegate.authenticated and not old(self._delegate.authenticated),"
                        " ghost('results_sent') != old(ghost('results_sent')) and ghost('last_result') == 0)"},
               returns="none", raises={"EOFError": "True", "OSError": "True", "SSHException": "True",
                                       "Exception": "ghost('gss_failed')"}, modifies=None)
