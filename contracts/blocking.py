"""Contracts for C13: blocking calls return once the connection ends (sequential progress obligations:
no wait without a timeout, no polling loop, that an ended connection does not get out of)"""
T = "paramiko.transport.Transport."
RA = {"SSHException": "True", "EOFError": "True", "OSError": "True"}


def declare(E):
    from contracts import message, specs
    message.declare(E)
    E.auto_opaque = True
    E.declare_ghost(unbounded_waits="int", notifications="int", seen_eof="bool")
    E.declare_class("paramiko.transport.Transport", {
        "active": "bool", "initial_kex_done": "bool", "lock": "opaque:Lock", "server_accept_cv": "opaque:Condition",
        "server_accepts": "list[int]", "_service_userauth_accepted": "bool", "auth_handler": "opt[opaque:AH]",
        "_channels": "opaque:ChanMap", "sock": "opaque:Sock"})
    # ---- Transport.accept: never an unbounded wait on a transport that has already ended
    E.contract(T + "accept", params={"timeout": "opt[float]"},
               ensures={"no_wait_without_timeout_once_the_transport_has_ended":
                        "implies(not old(self.active) and isnone(timeout), ghost('unbounded_waits') == old(ghost('unbounded_waits')))"},
               returns="opt[int]", raises={})
    # ---- Transport.close: a thread blocked in accept() is woken
    E.contract(T + "stop_thread", returns="none", modifies=["self.active"], ensures=["not self.active"])
    E.contract("ChanMap.values", argnames=["self"], returns="tuple[]")
    E.contract("Sock.close", argnames=["self"], returns="none")
    E.contract(T + "close",
               ensures={"waiting_accept_is_woken": "implies(old(self.active), ghost('notifications') >= old(ghost('notifications')) + 1)"},
               returns="none", raises={})
    # ---- ServiceRequestingTransport.ensure_session: the polling loop is left when the transport ends
    S = "paramiko.transport.ServiceRequestingTransport."
    E.contract(T + "_send_message", params={"data": "obj:Message"}, returns="none", raises=dict(RA), modifies=[])
    E.contract("time.sleep", argnames=["s"], returns="none")
    E.contract(S + "get_auth_handler", returns="opaque:AH", modifies=[])
    def saved_exc(I, env, sf):
        from pyvc.values import VExc, NONE
        k = I.st.choose(4)
        return [NONE, VExc("paramiko.ssh_exception.SSHException", []), VExc("EOFError", []), VExc("OSError", [])][k]
    E.contract(T + "get_exception", returns=saved_exc, modifies=[])
    E.contract(S + "ensure_session",
               loops={0: dict(inv=["True"], havoc_fields=["self.active", "self._service_userauth_accepted"],
                              exit_when="not self.active")},
               returns="none", raises=dict(RA))
    # ---- ProxyCommand.recv: end of the command's output ends the read
    E.declare_class("paramiko.proxy.ProxyCommand", {"process": "opaque:Popen", "timeout": "opt[float]", "cmd": "opaque:Cmd"})
    E.opaque_attrs = dict(getattr(E, "opaque_attrs", {}), Popen={"stdout": "opaque:Pipe", "stdin": "opaque:Pipe"})
    E.contract("Pipe.fileno", argnames=["self"], returns="int")
    E.contract("select.select", argnames=["r", "w", "x", "timeout"], returns="tuple[tuple[opaque:Pipe],tuple[],tuple[]]")
    E.contract("paramiko.proxy.select", argnames=["r", "w", "x", "timeout"], returns="tuple[tuple[opaque:Pipe],tuple[],tuple[]]",
               ensures=["opaque_id(result[0][0]) == opaque_id(r[0])"] if False else [])
    E.contract("os.read", argnames=["fd", "n"], returns="bytes", ensures=["len(result) <= n"],
               ghost={"seen_eof": "len(result) == 0"}, raises={"OSError": "True"})
    E.contract("paramiko.proxy.ProxyCommand.recv", params={"size": "int"},
               requires={"positive": "size >= 1", "fresh": "not ghost('seen_eof')"},
               # once end of file has been read the loop is left: no iteration starts after it
               loops={0: dict(inv=["len(buffer) <= size", "not ghost('seen_eof')"], havoc_ghosts=["seen_eof"],
                              vars={"r": "tuple[opaque:Pipe]", "w": "tuple[]", "x": "tuple[]", "select_timeout": "opt[float]",
                                    "elapsed": "float"})},
               returns="bytes", raises={"TimeoutError": "True", "ProxyCommandFailure": "True"})


def declare_shutdown(E):
    """the shutdown block at the end of Transport.run: everybody who may be waiting is woken"""
    E.declare_ghost(events_set="int", unlinked="int", aborted="int", pk_closed="int")
    E.declare_class("paramiko.transport.Transport", {
        "completion_event": "opt[opaque:Ev]", "channel_events": "opaque:EvMap", "packetizer": "opaque:Pk", "sys": "opaque:Sys",
        "auth_handler": "opt[opaque:AH]"})
    E.contract("Ev.set", argnames=["self"], returns="none", ghost={"events_set": "ghost('events_set') + 1"})
    E.contract("EvMap.values", argnames=["self"], returns="tuple[opaque:Ev,opaque:Ev]")
    E.contract("ChanMap.values", argnames=["self"], returns="tuple[opaque:Chan]")
    E.contract("Chan._unlink", argnames=["self"], returns="none", ghost={"unlinked": "ghost('unlinked') + 1"})
    E.contract("AH.abort", argnames=["self"], returns="none", ghost={"aborted": "ghost('aborted') + 1"})
    E.contract("Pk.close", argnames=["self"], returns="none", ghost={"pk_closed": "ghost('pk_closed') + 1"})
    E.contract(T + "run::part[shutdown]",
               fragment=dict(first="for chan in list(self._channels.values())", last="self.sock.close()"),
               params={"self": "obj:Transport"},
               ensures={
                   "every_channel_unlinked": "ghost('unlinked') == old(ghost('unlinked')) + 1",
                   "transport_inactive_afterwards": "not self.active",
                   "waiters_woken_when_the_loop_itself_ended_the_session":
                       "implies(old(self.active), ghost('pk_closed') == old(ghost('pk_closed')) + 1"
                       " and ghost('events_set') == old(ghost('events_set')) + 2 + (1 if notnone(self.completion_event) else 0)"
                       " and ghost('aborted') == old(ghost('aborted')) + (1 if notnone(self.auth_handler) else 0)"
                       " and ghost('notifications') >= old(ghost('notifications')) + 1)",
               },
               returns="none", raises={})


def declare_open_channel(E):
    """the wait at the end of Transport.open_channel: short waits, each followed by a look at the transport's state"""
    E.declare_ghost(long_waits="int")
    E.declare_class("paramiko.transport.Transport", {"_channels": "opaque:ChanMap2"})
    E.contract("ChanMap2.get", argnames=["self", "k"], returns="opt[opaque:Chan]")
    E.contract(T + "_send_user_message", params={"data": "obj:Message"}, returns="none", raises=dict(RA), modifies=[])
    E.contract(T + "open_channel::part[wait-for-the-peer]",
               # from handing the CHANNEL_OPEN to the transport to the end of the function, whatever shape the waiting takes
               fragment=dict(first="self._send_user_message(m)", last="raise e"),
               params={"self": "obj:Transport", "event": "opaque:Event", "timeout": "float", "chanid": "int", "m": "obj:Message"},
               requires={"sane_timeout": "timeout >= 0"},
               ensures={"never_waits_long_without_looking_at_the_transport": "ghost('long_waits') == old(ghost('long_waits'))"},
               loops={0: dict(inv=["ghost('long_waits') == old(ghost('long_waits'))"], havoc_fields=["self.active"],
                              exit_when="not self.active")},
               returns="opt[opaque:Chan]",
               raises={"SSHException": {"when": "True", "ensures": ["ghost('long_waits') == old(ghost('long_waits'))"]},
                       "EOFError": {"when": "True", "ensures": ["ghost('long_waits') == old(ghost('long_waits'))"]},
                       "OSError": {"when": "True", "ensures": ["ghost('long_waits') == old(ghost('long_waits'))"]}})
