"""Contracts for the position bookkeeping of SFTP files (C27): the position the caller sees (tell()), the position the
server is addressed with, the read-ahead buffer and the write buffer stay coherent, so that every operation acts at the
position a local file would act at.

    _pos      position the caller sees, not counting data still in the write buffer
    _realpos  position of the underlying stream = _pos + len(_rbuffer)  (read-ahead)      [invariant POS]
"""
F = "paramiko.sftp_file.SFTPFile."
B = "paramiko.file.BufferedFile."
POS = "self._realpos == self._pos + len(self._rbuffer)"
RA = {"OSError": "True", "SSHException": "True", "SFTPError": "True", "EOFError": "True", "Exception": "True"}


def declare(E):
    from contracts import message
    message.declare(E)
    E.auto_opaque = True
    E.declare_ghost(write_addr="int", writes="int")
    E.declare_class("paramiko.file.BufferedFile", {
        "_realpos": "int", "_pos": "int", "_rbuffer": "bytes", "_wbuffer": "bytesio", "_flags": "nat", "_bufsize": "nat",
        "_size": "nat", "_closed": "bool"})
    E.declare_class("paramiko.sftp_file.SFTPFile", {
        "sftp": "opaque:Client", "handle": "bytes", "pipelined": "bool", "_reqs": "list[int]",
        "_prefetching": "bool", "MAX_REQUEST_SIZE": "const:32768", "_saved_exception": "opt[opaque:Exc]"})
    E.opaque_attrs = dict(getattr(E, "opaque_attrs", {}), Client={"sock": "opaque:ChanSock", "_expecting": "opaque:Expecting"},
                          Attr={"st_size": "nat"})
    E.opaque_exc = dict(getattr(E, "opaque_exc", {}), Exc="Exception")
    E.contract("ChanSock.recv_ready", argnames=["self"], returns="bool")
    E.contract("Expecting.__contains__", argnames=["self", "req"], returns="bool")
    E.contract("paramiko.sftp.int64", argnames=["x"], returns="int", ensures=["result == x"], constructor=True)
    # the WRITE request carries the offset the server writes at
    E.contract("Client._async_request", argnames=["self", "fileobj", "t", "a", "b", "c"], returns="int",
               ghost={"write_addr": "b", "writes": "ghost('writes') + 1"}, raises=dict(RA))
    E.contract("Client._read_response", argnames=["self", "waitfor"], returns="tuple[int,opaque:Msg]", raises=dict(RA))
    E.contract(F + "_write", params={"data": "bytes"},
               requires={"positions_coherent": POS, "some_data": "len(data) >= 1"},
               ensures={"the_server_is_told_to_write_at_the_position_the_caller_sees":
                        "ghost('writes') == old(ghost('writes')) + 1 and ghost('write_addr') == old(self._pos)",
                        "read_ahead_is_dropped_and_the_underlying_position_is_the_callers":
                        "len(self._rbuffer) == 0 and self._realpos == old(self._pos) and self._pos == old(self._pos)",
                        "writes_at_most_one_request": "1 <= result and result <= len(data) and result <= 32768"},
               loops={0: dict(inv=["ghost('writes') == old(ghost('writes')) + 1", "ghost('write_addr') == old(self._pos)",
                                   "len(self._rbuffer) == 0 and self._realpos == old(self._pos) and self._pos == old(self._pos)"],
                              vars={"req": "int", "t": "int", "msg": "opaque:Msg"})},
               returns="int", raises=dict(RA))
    E.contract(B + "tell",
               requires={"the_write_buffer_is_only_appended_to": "self._wbuffer.tell() == len(self._wbuffer.getvalue())"},
               ensures={"data_still_in_the_write_buffer_counts": "result == self._pos + len(self._wbuffer.getvalue())"},
               returns="int", raises={}, modifies=[])
    E.declare_ghost(requests="int", requests_at_flush="int")
    E.contract("Client._request", argnames=["self", "t", "h", "a"], returns="tuple[int,opaque:Msg]",
               ghost={"requests": "ghost('requests') + 1"}, raises=dict(RA))
    E.contract("Client._log", argnames=["self", "a", "b"], returns="none")
    E.contract("paramiko.sftp_file.hexlify", argnames=["data"], returns="bytes")
    E.contract("paramiko.sftp_attr.SFTPAttributes", argnames=[], returns="opaque:Attrs", constructor=True)
    E.contract("Attrs.st_size.setter", argnames=["self", "v"], returns="none")
    E.contract(F + "truncate", params={"size": "nat"},
               requires={"positions_coherent": POS},
               ensures={"buffered_writes_went_out_before_the_size_was_changed":
                        "len(self._wbuffer.getvalue()) == 0 and ghost('requests_at_flush') == old(ghost('requests'))"
                        " and ghost('requests') == old(ghost('requests')) + 1",
                        "no_read_ahead_from_before_the_change_is_kept": "len(self._rbuffer) == 0 and self._realpos == self._pos",
                        # a file opened for appending tracks where its end is (writes land there and move the position
                        # there): after the size was changed the end is the new size
                        "in_append_mode_the_tracked_end_of_file_is_the_new_size":
                            "implies((self._flags // 4) % 2 == 1, self._size == size)"},
               returns="none", raises=dict(RA))
    E.contract(B + "flush", returns="none", ghost={"requests_at_flush": "ghost('requests')"},
               ensures=["len(self._wbuffer.getvalue()) == 0", "self._wbuffer.tell() == 0",
                        "self._realpos == self._pos + len(self._rbuffer) and (True if len(self._rbuffer) == 0 else"
                        " (self._realpos <= len(ghost('FILE')) and self._rbuffer == ghost('FILE')[self._pos:self._realpos]))"],
               modifies=["self._wbuffer", "self._pos", "self._realpos", "self._rbuffer", "self._size"], raises=dict(RA))
    E.contract(F + "_get_size", returns="nat", modifies=[], raises={})
    TARGET = ("(offset if whence == 0 else (old_pos_after_flush + offset if whence == 1 else ghost('size_seen') + offset))")
    E.declare_ghost(size_seen="int")
    E.contract(F + "_get_size", returns="nat", modifies=[], raises={}, ghost={"size_seen": "result"})
    # what a seek owes its callers: the caller-visible position is the target, buffered writes went out first, and
    # whatever read-ahead is kept is still the file's content from that position on (dropping it all, as the code does,
    # is one way; keeping the part from the target on would be another)
    E.declare_ghost(FILE="bytes")
    COH = ("self._realpos == self._pos + len(self._rbuffer) and (True if len(self._rbuffer) == 0 else"
           " (self._realpos <= len(ghost('FILE')) and self._rbuffer == ghost('FILE')[self._pos:self._realpos]))")
    E.contract(F + "seek", params={"offset": "int", "whence": "int"}, defaults={"whence": "0"},
               requires={"whence_is_one_of_the_three": "whence == 0 or whence == 1 or whence == 2"},
               ensures={"an_absolute_seek_goes_to_the_offset": "implies(whence == 0, self._pos == offset)",
                        "a_seek_from_the_end_is_relative_to_the_size_the_server_reports":
                            "implies(whence == 2, self._pos == ghost('size_seen') + offset)",
                        "read_ahead_that_is_kept_is_the_files_content_from_the_new_position": COH,
                        "buffered_writes_went_out_first": "len(self._wbuffer.getvalue()) == 0",
                        "never_before_the_start_of_the_file": "self._pos >= 0"},
               returns="none", raises=dict(RA))
    # BufferedFile._write_all drives the subclass's _write; SFTPFile._write is verified against the same clauses above
    E.contract(B + "_write", params={"data": "bytes"},
               requires={"positions_coherent": POS, "some_data": "len(data) >= 1"},
               ensures=["len(self._rbuffer) == 0 and self._realpos == old(self._pos) and self._pos == old(self._pos)",
                        "1 <= result and result <= len(data)"],
               modifies=["self._rbuffer", "self._realpos"], returns="int", raises=dict(RA))
    APP = "(self._flags // 4) % 2 == 1"
    E.contract(B + "_write_all", params={"raw_data": "bytes"},
               requires={"positions_coherent": POS},
               ensures={"the_position_moves_by_what_was_written": "implies(not %s, self._pos == old(self._pos) + len(raw_data))" % APP,
                        "in_append_mode_the_position_is_the_end_of_the_file":
                            "implies(%s and len(raw_data) > 0, self._pos == self._size and self._size == old(self._size) + len(raw_data))" % APP,
                        "positions_coherent": POS,
                        "after_a_write_no_read_ahead_is_left": "implies(len(raw_data) > 0, len(self._rbuffer) == 0)"},
               loops={0: dict(inv=[POS, "0 <= len(data) and len(data) <= len(raw_data)",
                                   "implies(not %s, self._pos + len(data) == old(self._pos) + len(raw_data))" % APP,
                                   "implies(%s, self._size + len(data) == old(self._size) + len(raw_data))" % APP,
                                   "implies(%s and len(data) < len(raw_data), self._pos == self._size)" % APP,
                                   "implies(len(data) < len(raw_data), len(self._rbuffer) == 0)"],
                              havoc_fields=["self._rbuffer", "self._realpos"], vars={"count": "int", "data": "bytes"})},
               returns="none", raises=dict(RA))
