"""Contracts for algorithm negotiation (C05; the strict-kex test of C09; the name invariants C38 relies on).

Algorithm name lists are abstract sequences of strings: a list is known through its length, its elements (by index) and
membership.  filter(pred, xs) is given the observable part of its definition (engine intrinsic): the result is empty iff
no element of xs satisfies pred, and its first element is the first element of xs that does."""
T = "paramiko.transport.Transport."
CATS = ["kex", "keys", "ciphers", "macs", "compression"]


def LEN(l):
    return "fn('len_NameList', 'int', %s)" % l


def EL(l, i):
    return "fn('selem_NameList', 'str', %s, %s)" % (l, i)


def IN(l, x):
    return "fn('in_list', 'bool', %s, %s)" % (l, x)


def FIRST(C, S, x):
    """x is the first element of list C that list S contains"""
    return ("exists(lambda i: 0 <= i and i < %s and %s == %s and %s and forall(lambda j: implies(0 <= j and j < i, not %s)))"
            % (LEN(C), EL(C, "i"), x, IN(S, x), IN(S, EL(C, "j"))))


def NONE_COMMON(C, S):
    return "forall(lambda j: implies(0 <= j and j < %s, not %s))" % (LEN(C), IN(S, EL(C, "j")))


def declare(E):
    from contracts import message, specs
    message.declare(E)
    message.light_readers(E)
    E.auto_opaque = True
    E.opaque_iter = {"NameList": "str"}
    E.declare_ghost(chosen_kex="str", kex_lookups="int", pref_version="int", adv_calls="int", adv_kex="int", markers_added="int")
    E.contract("NameList.__contains__", argnames=["self", "x"], returns="bool",
               cases=[dict(name="membership", when="True", result="fn('in_list', 'bool', opaque_id(self), x)")])
    E.contract("NameList.__len__", argnames=["self"], returns="nat", ensures=["result == fn('len_NameList', 'int', opaque_id(self))"])
    # removing the marker entries: abstractly the list keeps its identity (see DESIGN: markers are never members of a
    # preferred list, so membership tests against preferred lists and first-match results are unaffected)
    E.contract("NameList.pop", argnames=["self", "i"], returns="str")
    E.contract("NameList.append", argnames=["self", "x"], returns="none", ghost={"markers_added": "ghost('markers_added') + 1"})
    E.contract("NameList.__eq__", argnames=["self", "o"], returns="bool")
    E.declare_class("paramiko.transport.Transport", {
        "server_mode": "bool", "advertise_strict_kex": "bool", "agreed_on_strict_kex": "bool", "initial_kex_done": "bool",
        "_remote_ext_info": "opt[str]", "_remote_strict_kex": "opt[str]", "kex_engine": "opt[opaque:KexEngine]",
        "host_key_type": "opt[str]", "local_cipher": "opt[str]", "remote_cipher": "opt[str]", "local_mac": "opt[str]",
        "remote_mac": "opt[str]", "local_compression": "opt[str]", "remote_compression": "opt[str]",
        "remote_kex_init": "opt[bytes]", "_kex_info": "opaque:KexTable", "server_key_dict": "opaque:KeyDictS",
        "_modulus_pack": "opt[opaque:ModPack]", "gss_kex_used": "bool", "in_kex": "bool", "local_kex_init": "opt[bytes]",
        "_latest_kex_init": "opt[bytes]", "clear_to_send_lock": "opaque:Lock", "clear_to_send": "opaque:Event",
        "disabled_algorithms": "opaque:DisabledMap",
    })
    # the raw configuration behind the preferred_* lists (the code under contract reads the filtered lists; a change that
    # goes back to the raw table is then still within the subset and is judged by the same postconditions)
    E.contract("DisabledMap.get", argnames=["self", "k", "default"], returns="opaque:NameList")
    E.contract("KeyDictS.__contains__", argnames=["self", "x"], returns="bool",
               cases=[dict(name="membership", when="True", result="fn('in_list', 'bool', fn('own_key_types', 'int'), x)")])
    for c in CATS:
        # the local preference list of a category, as filtered by disabled_algorithms: a function of the configuration
        E.contract(T + "preferred_" + c, returns="opaque:NameList",
                   ensures=["opaque_id(result) == fn('pref', 'int', %r, ghost('pref_version'))" % c], modifies=[])
    E.contract("KeyDictS.keys", argnames=["self"], returns="opaque:NameList", ensures=["opaque_id(result) == fn('own_key_types', 'int')"])
    E.contract("KexTable.__getitem__", argnames=["self", "k"], returns="opaque:KexCtor",
               ghost={"chosen_kex": "k", "kex_lookups": "ghost('kex_lookups') + 1"})
    E.opaque_contracts["KexCtor"] = dict(argnames=["self", "t"], returns="opaque:KexEngine")
    E.contract(T + "get_server_key", returns="opt[opaque:PKey]", modifies=[], ghost={"server_key_found": "result"})
    E.declare_ghost(server_key_found="opt[opaque:PKey]")
    E.contract(T + "_log_agreement", returns="none", modifies=[])

    def parsed(I, env, sf):
        st = I.st
        r = st.alloc("dict", "dict")
        d = {}
        for k in ("kex_algo_list", "server_key_algo_list", "client_encrypt_algo_list", "server_encrypt_algo_list",
                  "client_mac_algo_list", "server_mac_algo_list", "client_compress_algo_list", "server_compress_algo_list",
                  "client_lang_list", "server_lang_list"):
            d[k] = I.fresh_of_type("opaque:NameList", "peer." + k)
        d["kex_follows"] = I.fresh_of_type("bool", "peer.kex_follows")
        st.heap[r.ref].data = d
        st.ghost["peer_lists"] = r
        return r
    E.contract(T + "_really_parse_kex_init", params={"m": "obj:Message", "ignore_first_byte": "bool"}, returns=parsed,
               raises={"UnicodeDecodeError": "True"}, modifies=["m.packet.pos"])
    E.contract("paramiko.message.Message.get_so_far", returns="bytes", modifies=[])
    PEER = {"kex": "kex_algo_list", "keys": "server_key_algo_list"}

    def peer(name):
        return "opaque_id(local('parsed')[%r])" % name

    def own(cat):
        return "fn('pref', 'int', %r, ghost('pref_version'))" % cat
    srv = "old(self.server_mode)"
    ens = {
        # kex: the client's first algorithm that the server offers
        "kex_is_the_clients_first_mutually_supported":
            "(%s) if %s else (%s)" % (FIRST(peer("kex_algo_list"), own("kex"), "ghost('chosen_kex')"), srv,
                                      FIRST(own("kex"), peer("kex_algo_list"), "ghost('chosen_kex')")),
        "kex_is_one_this_side_has_not_disabled": IN(own("kex"), "ghost('chosen_kex')") if False else
            "(%s) if %s else exists(lambda i: 0 <= i and i < %s and %s == ghost('chosen_kex'))"
            % (IN(own("kex"), "ghost('chosen_kex')"), srv, LEN(own("kex")), EL(own("kex"), "i")),
        "strict_kex_requires_KEXINIT_to_be_the_first_packet":
            "not (self.agreed_on_strict_kex and not self.initial_kex_done and m.seqno != 0)",
        "strict_kex_agreed_only_if_we_advertised_it": "implies(self.agreed_on_strict_kex and not old(self.agreed_on_strict_kex), self.advertise_strict_kex)",
        "all_negotiated_names_are_set": "notnone(self.local_cipher) and notnone(self.remote_cipher) and notnone(self.local_mac)"
                                        " and notnone(self.remote_mac) and notnone(self.local_compression)"
                                        " and notnone(self.remote_compression) and notnone(self.host_key_type)",
    }
    # per-direction categories: (category, client->server list of the peer message, server->client list, local field, remote field)
    for cat, c2s, s2c in (("ciphers", "client_encrypt_algo_list", "server_encrypt_algo_list"),
                          ("macs", "client_mac_algo_list", "server_mac_algo_list"),
                          ("compression", "client_compress_algo_list", "server_compress_algo_list")):
        fld = {"ciphers": "cipher", "macs": "mac", "compression": "compression"}[cat]
        # server: local = what we send = s2c direction, remote = c2s; client: local = c2s, remote = s2c.
        # In every case the CLIENT's list is the one whose order decides.
        ens["%s_each_direction_is_the_clients_first_mutually_supported" % cat] = (
            "((%s) and (%s)) if %s else ((%s) and (%s))" % (
                FIRST(peer(s2c), own(cat), "self.local_" + fld), FIRST(peer(c2s), own(cat), "self.remote_" + fld), srv,
                FIRST(own(cat), peer(c2s), "self.local_" + fld), FIRST(own(cat), peer(s2c), "self.remote_" + fld)))
    # host key type: the client's first type the server can serve (server: offered by us = preferred and we hold such a key)
    OWNK = "fn('own_key_types', 'int')"
    pk, ok = peer("server_key_algo_list"), own("keys")
    srv_first = ("exists(lambda i: 0 <= i and i < %s and %s == self.host_key_type and %s and %s"
                 " and forall(lambda j: implies(0 <= j and j < i, not (%s and %s))))"
                 % (LEN(pk), EL(pk, "i"), IN(ok, "self.host_key_type"), IN(OWNK, "self.host_key_type"),
                    IN(ok, EL(pk, "j")), IN(OWNK, EL(pk, "j"))))
    ens["host_key_type_is_the_clients_first_the_server_can_serve"] = "(%s) if %s else (%s)" % (
        srv_first, srv, FIRST(ok, pk, "self.host_key_type"))
    none_common = [NONE_COMMON(peer("kex_algo_list"), own("kex")) + " if %s else " % srv + NONE_COMMON(own("kex"), peer("kex_algo_list")),
                   "(forall(lambda j: implies(0 <= j and j < %s, not (%s and %s)))) if %s else (%s)"
                   % (LEN(pk), IN(ok, EL(pk, "j")), IN(OWNK, EL(pk, "j")), srv, NONE_COMMON(ok, pk)),
                   "%s and isnone(ghost('server_key_found'))" % srv]
    for cat, c2s, s2c in (("ciphers", "client_encrypt_algo_list", "server_encrypt_algo_list"),
                          ("macs", "client_mac_algo_list", "server_mac_algo_list"),
                          ("compression", "client_compress_algo_list", "server_compress_algo_list")):
        for lst in (c2s, s2c):
            none_common.append("(%s) if %s else (%s)" % (NONE_COMMON(peer(lst), own(cat)), srv, NONE_COMMON(own(cat), peer(lst))))
    INCOMPATIBLE = " or ".join("(%s)" % x for x in none_common)
    E.contract(T + "_parse_kex_init", params={"m": "obj:Message"},
               requires={"msg": "0 <= m.packet.tell() and m.packet.tell() <= len(m.packet.getvalue())"},
               ensures=ens,
               loops={1: dict(inv=["implies(self.agreed_on_strict_kex and not old(self.agreed_on_strict_kex), self.advertise_strict_kex)"],
                              vars={"to_pop": "list[int]", "which": "str", "expected": "str", "algo": "str"}),
                      2: dict(inv=[], vars={})},
               returns="none",
               raises={"IncompatiblePeer": INCOMPATIBLE, "MessageOrderError": "self.agreed_on_strict_kex and not self.initial_kex_done and m.seqno != 0",
                       # name-lists that are not UTF-8 are a protocol error like any other
                       "SSHException": "True"})


def declare_send(E):
    """_send_kex_init: the lists put on the wire are the lists selection will use"""
    E.contract(T + "get_security_options", returns="opaque:SecOpts", modifies=[])
    E.opaque_attrs = dict(getattr(E, "opaque_attrs", {}), SecOpts={"kex": "opaque:NameList"})
    # assigning the kex preference changes what preferred_kex returns from now on
    E.contract("SecOpts.kex.setter", argnames=["self", "value"], returns="none", ghost={"pref_version": "ghost('pref_version') + 1"})
    E.contract("paramiko.message.Message.add_list", params={"l": "opaque:NameList"}, returns="self",
               ghost={"adv_calls": "ghost('adv_calls') + 1",
                      "adv_kex": "opaque_id(l) if ghost('adv_calls') == 0 else ghost('adv_kex')"},
               modifies=["self.packet.buf", "self.packet.pos"], ensures=["self.packet.tell() == len(self.packet.getvalue())"])
    E.contract(T + "_send_message", params={"data": "obj:Message"}, returns="none",
               raises={"EOFError": "True", "OSError": "True", "SSHException": "True"}, modifies=[])
    E.contract("Event.clear", argnames=["self"], returns="none")
    E.contract(T + "_send_kex_init",
               requires={"fresh_count": "ghost('adv_calls') == 0"},
               ensures={
                   "advertised_kex_list_is_the_one_selection_will_use":
                       "ghost('adv_kex') == fn('pref', 'int', 'kex', ghost('pref_version'))",
                   "eight_name_lists_sent": "ghost('adv_calls') == 8",
               },
               returns="none", raises={"EOFError": "True", "OSError": "True", "SSHException": "True"})


def filter_variant(E, kind):
    """Transport._filter_algorithm(kind), the helper behind every preferred_* property: the class's preference list for
    the category minus what disabled_algorithms says NOW (read at every call - a transport's configuration may change
    between two key exchanges)"""
    T_ = "paramiko.transport.Transport."
    E2 = type(E)()
    E2.auto_opaque = True
    E2.opaque_iter = {"NameList": "str"}
    E2.declare_ghost(probe="str", disabled_now="int")
    E2.declare_class("paramiko.transport.Transport", {"disabled_algorithms": "opaque:DisabledMap",
                                                      "_preferred_" + kind: "opaque:NameList"})
    E2.contract("NameList.__contains__", argnames=["self", "x"], returns="bool",
                cases=[dict(name="membership", when="True", result="fn('in_list', 'bool', opaque_id(self), x)")])
    # what the table says at this moment for the category: a function of the table object and the key
    E2.contract("DisabledMap.get", argnames=["self", "k", "default"], returns="opaque:NameList",
                ensures=["opaque_id(result) == fn('disabled_list', 'int', opaque_id(self), k)"])
    c = dict(params={"type_": "const:%r" % kind}, returns="opaque:Filtered", raises={}, modifies=[],
             ensures={"the_class_preference_list_minus_what_is_disabled_now":
                      "(ghost('probe') in result) == (fn('in_list', 'bool', opaque_id(self._preferred_%s), ghost('probe'))"
                      " and not fn('in_list', 'bool', fn('disabled_list', 'int', opaque_id(self.disabled_algorithms), type_), ghost('probe')))" % kind})
    return (T_ + "_filter_algorithm", "filter-" + kind, dict(c, **{
        "+replace": True, "+contracts": dict(E2.contracts), "+fields": {k: dict(d["fields"]) for k, d in E2.classdecl.items()},
        "+engine": {"auto_opaque": True, "opaque_iter": dict(E2.opaque_iter), "ghost_types": dict(E2.ghost_types)}}))
