"""Contracts for the key-exchange engines (C08; the transcript part of C06 builds on them)"""
RA = {"EOFError": "True", "OSError": "True", "SSHException": "True"}
T = "paramiko.transport.Transport."


def declare(E):
    from contracts import message
    message.declare(E)
    message.light_readers(E)
    E.auto_opaque = True
    E.inline("paramiko.message.Message.add", "paramiko.message.Message._add", "paramiko.util.bit_length")
    E.declare_ghost(activated="bool", derived="bool", point_validated="bool", verified="bool", sent_count="int",
                    x_generated="bool")
    E.declare_class("paramiko.transport.Transport", {
        "server_mode": "bool", "local_version": "str", "remote_version": "str", "local_kex_init": "bytes",
        "remote_kex_init": "bytes", "host_key_type": "str"})
    KX = {"transport": "obj:Transport", "x": "int", "e": "int", "f": "int", "p": "int", "g": "int", "q": "int",
          "min_bits": "u32", "max_bits": "u32", "preferred_bits": "u32", "old_style": "bool",
          "key": "opaque:X25519Priv", "P": "opaque:ECPriv", "Q_C": "opaque:ECPub", "Q_S": "opaque:ECPub", "curve": "opaque:Curve"}
    for cls in ("paramiko.kex_gex.KexGex", "paramiko.kex_ecdh_nist.KexNistp256", "paramiko.kex_curve25519.KexCurve25519"):
        E.declare_class(cls, dict(KX))
    g1 = dict(KX)
    g1.pop("P")          # KexGroup1.P is the class's prime (a constant read from the real class)
    E.declare_class("paramiko.kex_group1.KexGroup1", g1)
    # ---- modular exponentiation: every base must be a validated group element
    E.contract("builtins.pow", argnames=["a", "b", "c"], returns="int", ensures=["implies(c >= 1, 0 <= result and result < c)"])
    E.contract(T + "_set_K_H", returns="none", ghost={"derived": "True"})
    # (C06) the signature is checked over self.H, so the exchange hash of THIS exchange must have been stored first
    E.contract(T + "_verify_key", returns="none", raises={"SSHException": "True"}, ghost={"verified": "True"},
               requires={"exchange_hash_of_this_exchange_stored_before_the_signature_check": "ghost('derived')"})
    # (C09) _activate_outbound ends by expecting NEWKEYS; _expect_packet registers the next key-exchange packet
    E.contract(T + "_activate_outbound", returns="none", raises=dict(RA), ghost={"activated": "True", "expecting": "True"})
    E.declare_ghost(expecting="bool")
    E.contract(T + "_send_message", returns="none", ghost={"sent_count": "ghost('sent_count') + 1"},
               raises={k: {"when": "True", "ghost": {"send_failed": "True"}} for k in RA})
    E.declare_ghost(send_failed="bool")
    E.contract(T + "_expect_packet", returns="none", ghost={"expecting": "True"})
    E.contract(T + "get_server_key", returns="opaque:PKey")
    E.contract("PKey.asbytes", argnames=["self"], returns="bytes", ensures=["len(result) < 2**20"])
    E.contract("PKey.sign_ssh_data", argnames=["self", "data", "alg"], returns="bytes", ensures=["len(result) < 2**20"])
    for cls in ("paramiko.kex_group1.KexGroup1", "paramiko.kex_gex.KexGex"):
        E.contract(cls + "._generate_x", returns="none", modifies=["self.x"], ghost={"x_generated": "True"},
                   requires={"group_size_checked": "True"} if "group1" in cls else
                   {"prime_between_1024_and_8192_bits": "1024 <= fn('bitlen', 'int', self.p) and fn('bitlen', 'int', self.p) <= 8192"})
    # elliptic curve / x25519 library objects
    E.contract("lib:EllipticCurvePublicKey.from_encoded_point", argnames=["self", "curve", "data"], returns="opaque:ECPub",
               raises={"ValueError": "True"}, ghost={"point_validated": "True"})
    E.contract("ECPriv.exchange", argnames=["self", "alg", "peer"], returns="bytes",
               requires={"peer_point_was_validated_on_curve": "ghost('point_validated')"}, ensures=["len(result) >= 1"])
    E.contract("lib:X25519PublicKey.from_public_bytes", argnames=["self", "data"], returns="opaque:X25519Pub",
               raises={"ValueError": "True"})
    # (the name resolves to the library class: a classmethod called with the bytes only)
    E.contract("cryptography.hazmat.primitives.asymmetric.x25519.X25519PublicKey.from_public_bytes", argnames=["data"],
               returns="opaque:X25519Pub", raises={"ValueError": "len(data) != 32"})
    # (probed natively: for a low-order peer point the library raises ValueError("Error computing shared key.") instead of
    # returning the all-zero secret)
    E.contract("X25519Priv.exchange", argnames=["self", "peer"], returns="bytes", ensures=["len(result) == 32"],
               raises={"ValueError": "True"})
    E.contract("lib:bytes_eq", argnames=["a", "b"], returns="bool", ensures=["result == (a == b)"])

    REJECT = {"SSHException": {"when": "True", "ensures": ["ghost('activated') == old(ghost('activated'))"]}}
    NOKEYS = ["ghost('activated') == old(ghost('activated'))", "ghost('derived') == old(ghost('derived'))"]

    def handler(qn, extra_requires=None, extra_raises=None, ensures=None):
        r = {"msg_pos": "0 <= m.packet.tell() and m.packet.tell() <= len(m.packet.getvalue())",
             "fresh": "not ghost('activated') and not ghost('derived') and not ghost('point_validated')"
                      " and not ghost('x_generated') and not ghost('send_failed') and not ghost('verified') and not ghost('expecting')"}
        r.update(extra_requires or {})
        raises = {"EOFError": "True", "OSError": "True", "struct.error": "True",
                  # a rejection (or any failure before verification) must not have switched keys on
                  "SSHException": "ghost('activated') == old(ghost('activated'))"}
        raises.update(extra_raises or {})
        ens = dict(ensures or {})
        # C09: a handler that returns has registered the next expected packet (or NEWKEYS via _activate_outbound), so during
        # the first exchange there is always a pending expectation and every other packet is fatal under strict kex
        ens["next_key_exchange_packet_is_expected_on_return"] = "ghost('expecting')"
        E.contract(qn, params={"m": "obj:Message"}, requires=r, ensures=ens, raises=raises, returns="none", modifies=None)

    G1 = "paramiko.kex_group1.KexGroup1."
    handler(G1 + "_parse_kexdh_reply", ensures={"peer_f_was_in_range": "1 <= self.f and self.f <= self.P - 1",
                                                 "keys_only_after_signature_check": "implies(ghost('activated'), ghost('verified'))"})
    handler(G1 + "_parse_kexdh_init", ensures={"peer_e_was_in_range": "1 <= self.e and self.e <= self.P - 1"})
    GX = "paramiko.kex_gex.KexGex."
    handler(GX + "_parse_kexdh_gex_group",
            ensures={"prime_size_accepted_only_in_range": "1024 <= fn('bitlen', 'int', self.p) and fn('bitlen', 'int', self.p) <= 8192"},
            extra_raises={"SSHException": "not ghost('x_generated') or ghost('send_failed')"})
    handler(GX + "_parse_kexdh_gex_init", extra_requires={"group_chosen": "1024 <= fn('bitlen', 'int', self.p) and fn('bitlen', 'int', self.p) <= 8192"},
            ensures={"peer_e_was_in_range": "1 <= self.e and self.e <= self.p - 1"})
    handler(GX + "_parse_kexdh_gex_reply", ensures={"peer_f_was_in_range": "1 <= self.f and self.f <= self.p - 1",
                                                     "keys_only_after_signature_check": "implies(ghost('activated'), ghost('verified'))"})
    EC = "paramiko.kex_ecdh_nist.KexNistp256."
    handler(EC + "_parse_kexecdh_init")
    handler(EC + "_parse_kexecdh_reply",
            ensures={"keys_only_after_signature_check": "implies(ghost('activated'), ghost('verified'))"})
    C2 = "paramiko.kex_curve25519.KexCurve25519."
    E.contract(C2 + "_perform_exchange", params={"peer_key": "opaque:X25519Pub"},
               ensures={"shared_secret_is_not_all_zero": "result != bytes(32) and len(result) == 32"},
               raises={"SSHException": "True"}, returns="bytes", modifies=[])
    handler(C2 + "_parse_kexecdh_init")
    handler(C2 + "_parse_kexecdh_reply",
            ensures={"keys_only_after_signature_check": "implies(ghost('activated'), ghost('verified'))"})
