"""Contracts for C17: client credentials are only sent to a verified, accepted server"""
T = "paramiko.transport.Transport."
S = "paramiko.client.SSHClient."
AUTH_FUNCS = ["auth_none", "auth_password", "auth_publickey", "auth_interactive", "auth_interactive_dumb",
              "auth_gssapi_with_mic", "auth_gssapi_keyex"]
RA = {"SSHException": "True", "EOFError": "True", "OSError": "True", "Exception": "True"}
CONNECT_ENV = {}


def declare(E):
    from contracts import message, specs
    message.declare(E)
    E.auto_opaque = True
    E.declare_ghost(auth_started="int", policy_calls="int", auth_calls="int")
    E.declare_class("paramiko.transport.Transport", {
        "active": "bool", "initial_kex_done": "bool", "auth_handler": "opt[opaque:AH]", "gss_kex_used": "bool",
        "gss_host": "opt[str]", "lock": "opaque:Lock", "server_mode": "bool", "auth_timeout": "int"})
    # an authentication attempt starts when the AuthHandler is created / one of its auth_* methods is invoked
    E.contract("paramiko.auth_handler.AuthHandler", constructor=True, argnames=["transport"], returns="opaque:AH",
               ghost={"auth_started": "ghost('auth_started') + 1"})
    for m in ("auth_none", "auth_password", "auth_publickey", "auth_interactive", "auth_gssapi_with_mic", "auth_gssapi_keyex"):
        E.contract("AH." + m, argnames=["self", "a", "b", "c", "d", "e"], returns="none", raises=dict(RA),
                   ghost={"auth_started": "ghost('auth_started') + 1"})
    E.contract("AH.wait_for_response", argnames=["self", "event"], returns="opaque:StrList",
               raises=dict(RA, BadAuthenticationType="True"))
    E.contract("threading.Event", argnames=[], returns="opaque:Event")
    for f in AUTH_FUNCS:
        params = {"username": "str", "password": "str", "key": "opaque:PKey", "handler": "opt[callable]", "submethods": "str",
                  "event": "opt[opaque:Event]", "fallback": "bool", "gss_host": "opt[str]", "gss_deleg_creds": "bool"}
        E.contract(T + f, params=params,
                   ensures={"started_only_on_an_active_transport_after_the_first_key_exchange":
                            "old(self.active) and old(self.initial_kex_done)"},
                   raises={"SSHException": "True", "EOFError": "True", "OSError": "True", "Exception": "True",
                           "BadAuthenticationType": "old(self.active) and old(self.initial_kex_done)"},
                   post_check=None, returns="opaque:Any")
        # an escaping exception before the guard passed must not have started anything
        E.contracts[T + f]["raises"] = {
            "BadAuthenticationType": "old(self.active) and old(self.initial_kex_done)",
            "Exception": "(old(self.active) and old(self.initial_kex_done)) or ghost('auth_started') == old(ghost('auth_started'))"}

    # ---- Transport.connect: the host key given by the caller is compared before any authentication call
    E.contract("PKey.get_name", argnames=["self"], returns="str", ensures=["result == fn('key_name', 'str', opaque_id(self))"])
    E.contract("PKey.asbytes", argnames=["self"], returns="bytes", ensures=["result == fn('key_bytes', 'bytes', opaque_id(self))"])
    E.contract(T + "get_remote_server_key", returns="opaque:PKey", raises={"SSHException": "True"},
               ensures=["opaque_id(result) == ghost('server_key')"])
    E.declare_ghost(server_key="int")
    for f in AUTH_FUNCS:
        pass
    CALL = {"auth_calls": "ghost('auth_calls') + 1"}
    E.contract(T + "connect::part[hostkey-then-auth]",
               fragment=dict(first="if (hostkey is not None) and not gss_kex", last="if (pkey is not None) or (password is not None)"),
               params={"self": "obj:Transport", "hostkey": "opt[opaque:PKey]", "gss_kex": "bool", "gss_auth": "bool",
                       "pkey": "opt[opaque:PKey]", "password": "opt[str]", "username": "str", "gss_deleg_creds": "bool"},
               ensures={"authentication_attempted_only_if_the_server_key_is_the_expected_one":
                        "implies(ghost('auth_calls') > old(ghost('auth_calls')), isnone(hostkey) or gss_kex or"
                        " (fn('key_name', 'str', ghost('server_key')) == fn('key_name', 'str', opaque_id(hostkey))"
                        "  and fn('key_bytes', 'bytes', ghost('server_key')) == fn('key_bytes', 'bytes', opaque_id(hostkey))))"},
               raises={"SSHException": "True", "Exception": "True"}, returns="none")
    # inside that fragment the auth_* methods are callees: each call counts as an authentication attempt
    global CONNECT_ENV
    CONNECT_ENV = {"+contracts": {T + f: dict(returns="opaque:Any", ghost=dict(CALL), raises=dict(RA)) for f in AUTH_FUNCS}}

    # ---- SSHClient.connect: unknown host -> policy first; known host -> the presented key must be the one on file
    E.declare_class("paramiko.client.SSHClient", {"_transport": "obj:Transport", "_policy": "opaque:Policy",
                                                  "_system_host_keys": "opaque:HostKeys", "_host_keys": "opaque:HostKeys"})
    E.contract("Policy.missing_host_key", argnames=["self", "client", "hostname", "key"], returns="none",
               ghost={"policy_calls": "ghost('policy_calls') + 1"}, raises={"SSHException": "True", "Exception": "True"})
    E.contract("KeyDict.get", argnames=["self", "name"], returns="opt[opaque:PKey]",
               ensures=["(opaque_id(result) == fn('key_on_file', 'int', opaque_id(self), name)) if notnone(result)"
                        " else (fn('key_on_file', 'int', opaque_id(self), name) == -1)"])
    E.contract("KeyDict.values", argnames=["self"], returns="tuple[opaque:PKey]")
    E.contract(S + "_auth", returns="none", ghost=dict(CALL), raises=dict(RA))
    E.contract("Strategy.authenticate", argnames=["self", "transport"], returns="opaque:Any", ghost=dict(CALL), raises=dict(RA))
    E.contract("getpass.getuser", argnames=[], returns="str")
    E.contract(S + "connect::part[hostkey-then-auth]",
               fragment=dict(first="if not self._transport.gss_kex_used", last="self._auth("),
               params={"self": "obj:SSHClient", "t": "obj:Transport", "our_server_keys": "opt[opaque:KeyDict]",
                       "server_hostkey_name": "str", "hostname": "str", "username": "opt[str]", "auth_strategy": "opt[opaque:Strategy]",
                       "password": "opt[str]", "pkey": "opt[opaque:PKey]", "key_filename": "opt[str]", "allow_agent": "bool",
                       "look_for_keys": "bool", "gss_auth": "bool", "gss_kex": "bool", "gss_deleg_creds": "bool",
                       "passphrase": "opt[str]"},
               requires={"same_transport": "True"},
               ensures={"credentials_offered_only_after_policy_approval_or_a_matching_known_key":
                        "implies(ghost('auth_calls') > old(ghost('auth_calls')),"
                        " self._transport.gss_kex_used"
                        " or (isnone(our_server_keys) and ghost('policy_calls') == old(ghost('policy_calls')) + 1)"
                        " or (notnone(our_server_keys) and ghost('policy_calls') == old(ghost('policy_calls'))"
                        "     and fn('key_on_file', 'int', opaque_id(our_server_keys), fn('key_name', 'str', ghost('server_key'))) == ghost('server_key')))"},
               raises={"BadHostKeyException": "notnone(our_server_keys)", "SSHException": "True", "Exception": "True"},
               returns="opaque:Any")
