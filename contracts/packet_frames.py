"""Contracts for Packetizer.send_message / read_message (C01, C02, C10).

Wire format specification (RFC 4253 section 6, RFC 5647, OpenSSH EtM), over the plaintext packet P returned by
_build_packet (whose own contract is C03's) and the sender's cipher stream position `pos`:

  no cipher : P
  classic   : E(pos, P)  ||  HMAC(key, uint32(seq) || P)[:mac_size]
  EtM       : P[0:4] || E(pos, P[4:])  ||  HMAC(key, uint32(seq) || P[0:4] || E(pos, P[4:]))[:mac_size]
  AES-GCM   : P[0:4] || GCM(iv, P[4:], aad = P[0:4])                      (tag inside, 16 bytes)

E / GCM / HMAC / compression are uninterpreted.  Assumed about them (trusted base, DESIGN section 4):
  * a decryptor paired with an encryptor (same key/IV, same stream position) inverts it, and does so for any cut of the
    ciphertext at block boundaries:  D(pos + a, E(pos, X)[a:b]) = X[a:b]   for block-aligned pos + a and b - a;
  * GCM decrypt(iv, GCM(iv, X, aad), aad) = X; on anything else it raises InvalidTag (ideal);
  * len(E(.., X)) = len(X), len(GCM(.., X, ..)) = len(X) + 16, len(HMAC) = digest size >= mac size;
  * decompress stream inverts compress stream message by message."""
import z3
from pyvc import ropes, smt
from pyvc.values import VSeq, VInt, VOpaque, Seg, zint, simp, Unsupported

P = "paramiko.packet.Packetizer."
F = "self._Packetizer__"

uf_E = z3.Function("uf_E", smt.Int, smt.Int, smt.Seq, smt.Seq)            # (encryptor id, stream position, plaintext)
uf_D = z3.Function("uf_D", smt.Int, smt.Int, smt.Seq, smt.Seq)
uf_GCM = z3.Function("uf_GCM", smt.Int, smt.Seq, smt.Seq, smt.Seq, smt.Seq)  # (encryptor id, iv, plaintext, aad)
uf_Z = z3.Function("uf_Z", smt.Int, smt.Int, smt.Seq, smt.Seq)            # (compressor id, message index, data)


from pyvc import specfuns


@specfuns.register("enc")
def _spec_enc(I, args, fr):
    """E(encryptor id, stream position, plaintext): ciphertext of the same length (specification function)"""
    st = I.st
    x = args[2]
    t = uf_E(zint(args[0].t), zint(args[1].t), ropes.seq_term(st, x))
    n = ropes.seq_len(x)
    st.assume(smt.slen(t) == zint(n))
    return VSeq([Seg("A", t, n)], "bytes")


@specfuns.register("gcm")
def _spec_gcm(I, args, fr):
    """GCM(encryptor id, nonce, plaintext, associated data): ciphertext || 16-byte tag"""
    st = I.st
    t = uf_GCM(zint(args[0].t), ropes.seq_term(st, args[1]), ropes.seq_term(st, args[2]), ropes.seq_term(st, args[3]))
    n = simp(zint(ropes.seq_len(args[2])) + 16)
    st.assume(smt.slen(t) == n)
    return VSeq([Seg("A", t, n)], "bytes")


@specfuns.register("same_value")
def _same_value(I, args, fr):
    """equality that also covers None (optional byte strings)"""
    from pyvc.values import VNone, VBool
    a, b = args
    if isinstance(a, VNone) or isinstance(b, VNone):
        return VBool(isinstance(a, VNone) and isinstance(b, VNone))
    return VBool(I.equal(a, b))


@specfuns.register("zspec")
def _spec_z(I, args, fr):
    """Z(compressor id, message index, data): that compressor's output for its k-th message"""
    st = I.st
    t = uf_Z(zint(args[0].t), zint(args[1].t), ropes.seq_term(st, args[2]))
    st.assume(smt.slen(t) >= 1)
    return VSeq([Seg("A", t, smt.slen(t))], "bytes")


@specfuns.register("hmac_spec")
def _spec_hmac(I, args, fr):
    """HMAC(key, message, hash id): digest of that hash's length"""
    st = I.st
    f = z3.Function("uf_hmac", smt.Seq, smt.Seq, smt.Int, smt.Seq)
    ds = z3.Function("uf_digest_size", smt.Int, smt.Int)
    from pyvc.values import VNone
    key = smt.sempty if isinstance(args[0], VNone) else ropes.seq_term(st, args[0])     # (a None key is excluded by `requires`)
    t = f(key, ropes.seq_term(st, args[1]), zint(args[2].t))
    st.assume(smt.slen(t) == ds(zint(args[2].t)))
    return VSeq([Seg("A", t, ds(zint(args[2].t)))], "bytes")


def _ghost(I, name):
    st = I.st
    if name not in st.ghost:
        st.ghost[name] = I.fresh_of_type(I.E.ghost_types[name], "ghost." + name)
        st.ghost_init[name] = st.ghost[name]
    return st.ghost[name]


def _is(t, name):
    return z3.is_app(t) and t.decl().name() == name


def _tlen(t):
    """length of a sequence term; for the (always in-range) slices the rope layer builds: hi - lo"""
    if _is(t, "sslice"):
        return simp(t.arg(2) - t.arg(1))
    return smt.slen(t)


def _enc_update(I, env, sf):
    st = I.st
    data = env["data"]
    pos = zint(_ghost(I, "enc_pos").t)
    t = uf_E(env["self"].t, pos, ropes.seq_term(st, data))
    n = ropes.seq_len(data)
    st.assume(smt.slen(t) == zint(n))
    return VSeq([Seg("A", t, n)], "bytes")


def _dec_update(I, env, sf):
    """decryptor paired with the peer's encryptor: recognises (a block-aligned cut of) the peer's ciphertext at the
    matching stream position and returns that cut of the plaintext; anything else decrypts to an uninterpreted value"""
    st = I.st
    data = env["data"]
    pos = zint(_ghost(I, "dec_pos").t)
    peer = zint(_ghost(I, "peer_enc").t)
    bs = (I.E.contract_of(I.E.current_target) or {}).get("frame_bs") or getattr(I.E, "frame_bs", 16)
    n = ropes.seq_len(data)
    if len(data.segs) == 1 and data.segs[0].kind == "A":
        t = data.segs[0].a
        base, a, b = (t.arg(0), t.arg(1), t.arg(2)) if _is(t, "sslice") else (t, z3.IntVal(0), None)
        if _is(base, "uf_E"):
            cid, p0, X = base.arg(0), base.arg(1), base.arg(2)
            if b is None:
                b = _tlen(X)
            ok = z3.And(cid == peer, pos == p0 + a, (p0 + a) % bs == 0, (b - a) % bs == 0, 0 <= a, a <= b, b <= _tlen(X))
            if st.proves(ok):
                I.E.trusted_used.add("paired decryptor inverts the peer's encryptor on block-aligned cuts of its stream")
                return ropes.slice_norm(st, VSeq([Seg("A", X, _tlen(X))], "bytes"), a, b)
    t = uf_D(env["self"].t, pos, ropes.seq_term(st, data))
    st.assume(smt.slen(t) == zint(n))
    return VSeq([Seg("A", t, n)], "bytes")


def _gcm_decrypt(I, env, sf):
    st = I.st
    data, iv, aad = env["data"], env["iv"], env["aad"]
    peer = zint(_ghost(I, "peer_enc").t)
    t = data.segs[0].a if len(data.segs) == 1 and data.segs[0].kind == "A" else None
    whole = z3.BoolVal(True)
    if t is not None and _is(t, "sslice") and _is(t.arg(0), "uf_GCM"):
        # the complete ciphertext-and-tag, written as a slice that covers all of it
        g = t.arg(0)
        whole = z3.And(t.arg(1) == 0, t.arg(2) == _tlen(g.arg(2)) + 16)
        t = g
    if t is not None and _is(t, "uf_GCM"):
        cid, iv0, X, aad0 = t.arg(0), t.arg(1), t.arg(2), t.arg(3)
        ok = z3.And(whole, cid == peer, iv0 == ropes.seq_term(st, iv), aad0 == ropes.seq_term(st, aad))
        if st.proves(ok):
            I.E.trusted_used.add("AES-GCM decrypt inverts the peer's encrypt under the same nonce and associated data")
            return VSeq([Seg("A", X, _tlen(X))], "bytes")
    f = z3.Function("uf_GCMD", smt.Int, smt.Seq, smt.Seq, smt.Seq, smt.Seq)
    t = f(env["self"].t, ropes.seq_term(st, iv), ropes.seq_term(st, data), ropes.seq_term(st, aad))
    st.assume(smt.slen(t) >= 0)
    return VSeq([Seg("A", t, smt.slen(t))], "bytes")


def _compress(I, env, sf):
    st = I.st
    data = env["data"]
    k = zint(_ghost(I, "z_count").t)
    t = uf_Z(env["self"].t, k, ropes.seq_term(st, data))
    # zlib never expands its input by more than a small fraction plus a constant (compressBound); generous bound
    st.assume(z3.And(smt.slen(t) >= 1, smt.slen(t) <= 2 * zint(ropes.seq_len(data)) + 64))
    return VSeq([Seg("A", t, smt.slen(t))], "bytes")


def _decompress(I, env, sf):
    st = I.st
    data = env["data"]
    k = zint(_ghost(I, "u_count").t)
    peer = zint(_ghost(I, "peer_z").t)
    if len(data.segs) == 1 and data.segs[0].kind == "A" and _is(data.segs[0].a, "uf_Z"):
        t = data.segs[0].a
        if st.proves(z3.And(t.arg(0) == peer, t.arg(1) == k)):
            I.E.trusted_used.add("decompressor stream inverts the peer's compressor stream message by message")
            X = t.arg(2)
            return VSeq([Seg("A", X, smt.slen(X))], "bytes")
    if "rx_plain" in st.ghost:
        # the data is known (by a precondition) to be the peer's compression of ghost rx_plain at this stream index
        plain = st.ghost["rx_plain"]
        if st.proves(ropes.seq_term(st, data) == uf_Z(peer, k, ropes.seq_term(st, plain))):
            I.E.trusted_used.add("decompressor stream inverts the peer's compressor stream message by message")
            return plain
    f = z3.Function("uf_U", smt.Int, smt.Int, smt.Seq, smt.Seq)
    t = f(env["self"].t, k, ropes.seq_term(st, data))
    st.assume(smt.slen(t) >= 0)
    return VSeq([Seg("A", t, smt.slen(t))], "bytes")


def declare_crypto(E):
    """assumed contracts of the cipher / MAC / compression objects the packet layer drives"""
    E.declare_ghost(enc_pos="int", dec_pos="int", peer_enc="int", z_count="int", u_count="int", peer_z="int",
                    gcm_ok="bool", cteq_calls="int", cteq_a="bytes", cteq_b="bytes", cteq_result="bool",
                    gcm_calls="int", gcm_iv="bytes", gcm_data="bytes", gcm_aad="bytes")
    E.contract("EncCtx.update", argnames=["self", "data"], returns=_enc_update,
               ghost={"enc_pos": "ghost('enc_pos') + len(data)"})
    E.contract("EncCtx.encrypt", argnames=["self", "iv", "data", "aad"], returns="bytes",
               cases=[dict(name="gcm", when="True", result="gcm(opaque_id(self), iv, data, aad)")])
    E.contract("DecCtx.update", argnames=["self", "data"], returns=_dec_update,
               ghost={"dec_pos": "ghost('dec_pos') + len(data)", "dec_calls": "ghost('dec_calls') + 1", "dec_in": "data",
                      "dec_out": "result"})
    E.contract("DecCtx.decrypt", argnames=["self", "iv", "data", "aad"], returns=_gcm_decrypt,
               ghost={"gcm_calls": "ghost('gcm_calls') + 1", "gcm_iv": "iv", "gcm_data": "data", "gcm_aad": "aad", "gcm_out": "result"},
               # ideal AEAD: InvalidTag on anything but the peer's own output for this nonce and associated data
               raises={"InvalidTag": "data != gcm(ghost('peer_enc'), iv, ghost('rx_packet')[4:], aad)"})
    E.opaque_contracts["ZComp"] = dict(argnames=["self", "data"], returns=_compress,
                                       ghost={"z_count": "ghost('z_count') + 1"})
    E.opaque_contracts["ZDecomp"] = dict(argnames=["self", "data"], returns=_decompress,
                                         ghost={"u_count": "ghost('u_count') + 1"},
                                         raises={"zlib.error": "data != zspec(ghost('peer_z'), ghost('u_count'), ghost('rx_plain'))"})
    E.contract("paramiko.packet.compute_hmac", params={"key": "bytes", "message": "bytes", "digest_class": "opaque:HashCtor"},
               returns="bytes",
               cases=[dict(name="hmac", when="True", result="hmac_spec(key, message, opaque_id(digest_class))")],
               ghost={"hm_calls": "ghost('hm_calls') + 1", "hm_msg": "message", "hm_key": "key", "hm_eng": "opaque_id(digest_class)"},
               modifies=[])
    E.declare_ghost(hm_calls="int", hm_msg="bytes", hm_key="bytes", hm_eng="int", dec_calls="int", dec_in="bytes", dec_out="bytes",
                    gcm_out="bytes")
    E.contract("paramiko.util.format_binary", returns="opaque:Lines", modifies=[])


def declare_fields(E):
    M = "_Packetizer__"
    E.declare_class("paramiko.packet.Packetizer", {
        M + "block_engine_out": "opt[opaque:EncCtx]", M + "block_engine_in": "opt[opaque:DecCtx]",
        M + "compress_engine_out": "opt[opaque:ZComp]", M + "compress_engine_in": "opt[opaque:ZDecomp]",
    })


# ------------------------------------------------------------------------------------------------ specification
def HM(key, seq, body, eng, ms):
    return "hmac_spec(%s, pack32(%s) + %s, opaque_id(%s))[:%s]" % (key, seq, body, eng, ms)


def frame(side, pk, mode, d="out"):
    """wire bytes of the packet `pk` (specification expression) under the given mode; side = expression of the
    Packetizer whose <d> parameters apply; encryptor id and position are given by ghosts on the receiving side"""
    f = side + "._Packetizer__"
    if d == "out":
        eid, pos = "opaque_id(old(%sblock_engine_out))" % f, "old(ghost('enc_pos'))"
        key, seq, eng, ms, iv = ("old(%smac_key_out)" % f, "old(%ssequence_number_out)" % f, "old(%smac_engine_out)" % f,
                                 "old(%smac_size_out)" % f, "old(%siv_out)" % f)
    else:
        eid, pos = "ghost('peer_enc')", "ghost('dec_pos')"
        key, seq, eng, ms, iv = (f + "mac_key_in", f + "sequence_number_in", f + "mac_engine_in", f + "mac_size_in", f + "iv_in")
    if mode == "none":
        return pk
    if mode == "classic":
        return "enc(%s, %s, %s) + %s" % (eid, pos, pk, HM(key, seq, pk, eng, ms))
    if mode == "etm":
        ct = "enc(%s, %s, %s[4:])" % (eid, pos, pk)
        return "%s[0:4] + %s + %s" % (pk, ct, HM(key, seq, "%s[0:4] + %s" % (pk, ct), eng, ms))
    if mode == "aead":
        return "%s[0:4] + gcm(%s, %s, %s[4:], %s[0:4])" % (pk, eid, iv, pk, pk)
    raise ValueError(mode)


MODE_REQ = {
    "none": "isnone(%(f)sblock_engine_%(d)s) and not %(f)setm_%(d)s and not %(f)saead_%(d)s and %(f)smac_size_%(d)s == 0",
    "classic": "notnone(%(f)sblock_engine_%(d)s) and not %(f)setm_%(d)s and not %(f)saead_%(d)s",
    "etm": "notnone(%(f)sblock_engine_%(d)s) and %(f)setm_%(d)s and not %(f)saead_%(d)s",
    "aead": "notnone(%(f)sblock_engine_%(d)s) and not %(f)setm_%(d)s and %(f)saead_%(d)s",
}


def declare_common(E):
    from contracts import packet, packet_io, message
    message.declare(E)
    packet.declare(E)
    packet_io.declare_io(E)
    packet_io.declare_cteq(E)
    declare_fields(E)
    declare_crypto(E)
    E.declare_ghost(last_packet="bytes", last_payload="bytes", last_packet_len="int")
    c = E.contracts[P + "_build_packet"]
    c["ghost"] = {"last_packet": "result", "last_payload": "payload", "last_packet_len": "len(result)"}
    c["caller_ensures"] = ["padding_4_255", "length_field", "total_length", "payload_intact", "block_multiple"]
    E.contract(P + "_inc_iv_counter", params={"iv": "bytes"}, returns="bytes",
               requires=["len(iv) == 12"],
               cases=[dict(name="next_nonce", when="True", result="iv[0:4] + fn('ctr_inc', 'bytes', iv[4:])")],
               ensures=["len(result) == 12"], raises={"OverflowError": "True"}, modifies=[])
    E.contract(P + "_trigger_rekey", inline=True)
    E.inline("paramiko.common.byte_ord")
    E.contract(P + "send_message", **send_contract("classic", 16))
    E.declare_ghost(rx_packet="bytes", rx_rest="bytes", rx_plain="bytes")
    E.contract(P + "read_message", **read_contract("classic", 16))


def send_contract(mode, bs, compress=False):
    """send_message under `mode`: exactly frame(P) is appended to the socket stream, P = _build_packet(payload)"""
    f = F
    PK = "ghost('last_packet')"
    req = {
        "mode": MODE_REQ[mode] % dict(f=f, d="out"),
        "block_size": "%sblock_size_out == %d" % (f, bs),
        "nonempty_message": "len(data.packet.getvalue()) >= 1 and len(data.packet.getvalue()) < %s" % ("2**30" if compress else "2**32 - 300"),
        "compression": ("notnone(%scompress_engine_out)" if compress else "isnone(%scompress_engine_out)") % f,
        "mac_parameters": "True" if mode in ("none", "aead") else
                          ("notnone(%smac_engine_out) and notnone(%smac_key_out) and 0 <= %smac_size_out and %smac_size_out <= fn('digest_size', 'int', opaque_id(%smac_engine_out))"
                           % (f, f, f, f, f)),
        "aead_nonce": ("notnone(%siv_out) and len(%siv_out) == 12 and %smac_size_out == 16" % (f, f, f)) if mode == "aead" else "True",
        "cipher_stream_block_aligned": "ghost('enc_pos') %% %d == 0" % bs,
    }
    payload = ("zspec(opaque_id(old(%scompress_engine_out)), old(ghost('z_count')), data.packet.getvalue())" % f) \
        if compress else "data.packet.getvalue()"
    ens = {
        "exactly_one_frame_appended_to_the_stream": "ghost('tx') == old(ghost('tx')) + " + frame("self", PK, mode),
        "packet_carries_the_message": "ghost('last_payload') == " + payload,
        "packet_is_well_formed":
            "unpack32(%(p)s[0:4]) == len(%(p)s) - 4 and len(%(p)s) < 2**32 and 4 <= %(p)s[4] and %(p)s[4] <= 255"
            " and len(%(p)s) == 5 + len(ghost('last_payload')) + %(p)s[4] and len(ghost('last_payload')) >= 1"
            " and %(p)s[5:5 + len(ghost('last_payload'))] == ghost('last_payload')"
            " and (len(%(p)s) - %(off)d) %% %(bs)d == 0" % dict(p=PK, off=4 if mode in ("etm", "aead") else 0, bs=bs),
        "sequence_number_incremented": "%ssequence_number_out == (old(%ssequence_number_out) + 1) %% 2**32" % (f, f),
        "cipher_stream_advanced_by_the_encrypted_bytes":
            "ghost('enc_pos') == old(ghost('enc_pos')) + " + {"none": "0", "classic": "len(%s)" % PK, "etm": "len(%s) - 4" % PK, "aead": "0"}[mode],
        "compression_stream_advanced": "ghost('z_count') == old(ghost('z_count')) + %d" % (1 if compress else 0),
    }
    if mode == "aead":
        ens["nonce_advanced"] = "%siv_out == old(%siv_out)[0:4] + fn('ctr_inc', 'bytes', old(%siv_out)[4:])" % (f, f, f)
    else:
        ens["nonce_untouched"] = "same_value(%siv_out, old(%siv_out))" % (f, f)
    # C10: traffic accounting and the re-key request
    hit = "(%ssent_packets >= self.REKEY_PACKETS or %ssent_bytes >= self.REKEY_BYTES)" % (f, f)
    ens["sent_traffic_counted"] = ("%ssent_packets == old(%ssent_packets) + 1 and %ssent_bytes == old(%ssent_bytes)"
                                   " + len(ghost('tx')) - len(old(ghost('tx')))" % (f, f, f, f))
    ens["rekey_requested_once_a_threshold_is_reached"] = "%sneed_rekey == (old(%sneed_rekey) or %s)" % (f, f, hit)
    ens["overflow_allowance_restarts_only_when_rekey_is_first_requested"] = (
        "(%(f)sreceived_packets_overflow == 0 and %(f)sreceived_bytes_overflow == 0) if (not old(%(f)sneed_rekey) and %(f)sneed_rekey)"
        " else (%(f)sreceived_packets_overflow == old(%(f)sreceived_packets_overflow)"
        " and %(f)sreceived_bytes_overflow == old(%(f)sreceived_bytes_overflow))" % dict(f=f))
    raises = {"EOFError": "True", "ProxyCommandFailure": "True",
              "SSHException": "not self._initial_kex_done and old(%ssequence_number_out) == 2**32 - 1" % f}
    if mode == "aead":
        raises["OverflowError"] = "True"
    mods = [f + x for x in ("sequence_number_out", "iv_out", "sent_bytes", "sent_packets", "need_rekey",
                            "received_bytes_overflow", "received_packets_overflow", "keepalive_last")]
    mods += ["ghost:tx", "ghost:last_packet", "ghost:last_payload", "ghost:last_packet_len", "ghost:enc_pos", "ghost:z_count"]
    return dict(params={"data": "obj:Message"}, requires=req, ensures=ens, returns="none", raises=raises, frame_bs=bs,
                modifies=mods)


SEND_VARIANTS = [("none", 8, False), ("classic", 8, False), ("classic", 16, False), ("etm", 8, False), ("etm", 16, False),
                 ("aead", 16, False), ("classic", 16, True), ("none", 8, True)]


# ------------------------------------------------------------------------------------------------ receiving side
PKT = "ghost('rx_packet')"
LEN = "len(%s)" % PKT
PAD = "%s[4]" % PKT
WIRE_PAYLOAD = "%s[5:%s - %s]" % (PKT, LEN, PAD)


def read_contract(mode, bs, compress=False):
    """read_message when the pending stream starts with one well-formed frame of a packet P built by the peer
    (P has the properties _build_packet guarantees): returns exactly P's payload, consumes exactly that frame"""
    f = F
    stream = frame("self", PKT, mode, d="in") + " + ghost('rx_rest')"
    off = 4 if mode in ("etm", "aead") else 0
    req = {
        "mode": MODE_REQ[mode] % dict(f=f, d="in"),
        "block_size": "%sblock_size_in == %d" % (f, bs),
        "mac_parameters": ("%smac_size_in == 0" % f) if mode == "none" else ("%smac_size_in == 16" % f) if mode == "aead" else
                          ("notnone(%smac_engine_in) and notnone(%smac_key_in) and 0 < %smac_size_in and %smac_size_in <= fn('digest_size', 'int', opaque_id(%smac_engine_in))"
                           % (f, f, f, f, f)),
        "aead_nonce": ("notnone(%siv_in) and len(%siv_in) == 12" % (f, f)) if mode == "aead" else "True",
        "compression": ("notnone(%scompress_engine_in) and opaque_id(%scompress_engine_in) != ghost('peer_z') - 1 + 1 - 0"
                        if False else ("notnone(%scompress_engine_in)" if compress else "isnone(%scompress_engine_in)")) % f,
        "cipher_stream_block_aligned": "ghost('dec_pos') %% %d == 0" % bs,
        # the packet the peer built (properties guaranteed by _build_packet, C03)
        "packet_length_field": "unpack32(%s[0:4]) == %s - 4 and %s < 2**32" % (PKT, LEN, LEN),
        "packet_padding": "4 <= %s and %s <= 255 and %s - %s >= 6" % (PAD, PAD, LEN, PAD),
        "packet_block_aligned": "(%s - %d) %% %d == 0 and %s >= %d" % (LEN, off, bs, LEN, bs),
        "nothing_over_read": "len(%sremainder) == 0" % f,
        "stream_starts_with_the_frame_of_that_packet": "ghost('rx') == " + stream,
    }
    if compress:
        req["payload_is_the_peers_compression_of_the_message"] = \
            "%s == zspec(ghost('peer_z'), ghost('u_count'), ghost('rx_plain')) and len(ghost('rx_plain')) >= 1" % WIRE_PAYLOAD
    payload = "ghost('rx_plain')" if compress else WIRE_PAYLOAD
    ens = {
        "message_type_is_the_first_payload_byte": "result[0] == %s[0]" % payload,
        "message_body_is_the_rest_of_the_payload": "result[1].packet.getvalue() == %s[1:] and result[1].packet.tell() == 0" % payload,
        "message_carries_its_sequence_number": "result[1].seqno == old(%ssequence_number_in)" % f,
        "exactly_that_frame_consumed": "ghost('rx') == ghost('rx_rest') and len(%sremainder) == 0" % f,
        "sequence_number_incremented": "%ssequence_number_in == (old(%ssequence_number_in) + 1) %% 2**32" % (f, f),
        "cipher_stream_advanced_in_step_with_the_sender":
            "ghost('dec_pos') == old(ghost('dec_pos')) + " + {"none": "0", "classic": LEN, "etm": LEN + " - 4", "aead": "0"}[mode],
    }
    if mode == "aead":
        ens["nonce_advanced"] = "%siv_in == old(%siv_in)[0:4] + fn('ctr_inc', 'bytes', old(%siv_in)[4:])" % (f, f, f)
    else:
        ens["nonce_untouched"] = "same_value(%siv_in, old(%siv_in))" % (f, f)
    # C10: traffic accounting, the re-key request, and the allowance for a peer that does not re-key
    raw = "(%s + %smac_size_in)" % (LEN, f)
    hit = "(%sreceived_packets >= self.REKEY_PACKETS or %sreceived_bytes >= self.REKEY_BYTES)" % (f, f)
    ens["received_traffic_counted"] = ("%sreceived_packets == old(%sreceived_packets) + 1"
                                       " and %sreceived_bytes == old(%sreceived_bytes) + %s" % (f, f, f, f, raw))
    ens["overflow_counted_and_below_the_allowance_while_rekey_is_pending"] = (
        "implies(old(%(f)sneed_rekey), %(f)sneed_rekey"
        " and %(f)sreceived_packets_overflow == old(%(f)sreceived_packets_overflow) + 1"
        " and %(f)sreceived_bytes_overflow == old(%(f)sreceived_bytes_overflow) + %(raw)s"
        " and %(f)sreceived_packets_overflow < self.REKEY_PACKETS_OVERFLOW_MAX"
        " and %(f)sreceived_bytes_overflow < self.REKEY_BYTES_OVERFLOW_MAX)" % dict(f=f, raw=raw))
    ens["rekey_requested_once_a_threshold_is_reached"] = (
        "implies(not old(%(f)sneed_rekey), %(f)sneed_rekey == %(hit)s"
        " and implies(%(f)sneed_rekey, %(f)sreceived_packets_overflow == 0 and %(f)sreceived_bytes_overflow == 0))" % dict(f=f, hit=hit))
    ens["decompressor_advanced"] = "ghost('u_count') == old(ghost('u_count')) + %d" % (1 if compress else 0)
    OVER = ("(old(%sneed_rekey) and (old(%sreceived_packets_overflow) + 1 >= self.REKEY_PACKETS_OVERFLOW_MAX"
            " or old(%sreceived_bytes_overflow) + %s + %smac_size_in >= self.REKEY_BYTES_OVERFLOW_MAX))" % (f, f, f, LEN, f))
    raises = {"EOFError": "True", "OSError": "True", "Exception": "True", "NeedRekeyException": "True",
              # only the documented give-ups: sequence number wrap during the first key exchange, peer ignoring re-key
              "SSHException": "(not self._initial_kex_done and old(%ssequence_number_in) == 2**32 - 1) or %s" % (f, OVER)}
    if mode == "aead":
        raises["OverflowError"] = "True"
    mods = [f + x for x in ("remainder", "sequence_number_in", "iv_in", "received_bytes", "received_packets", "need_rekey",
                            "received_bytes_overflow", "received_packets_overflow", "keepalive_last")]
    mods += ["ghost:rx", "ghost:dec_pos", "ghost:u_count", "ghost:gcm_calls", "ghost:gcm_iv", "ghost:gcm_data", "ghost:gcm_aad"]
    return dict(params={}, requires=req, ensures=ens, returns="tuple[int,obj:Message]", raises=raises, frame_bs=bs, modifies=mods,
                entry_defs={"ghost:rx": stream}, ghosts={"rx_packet": "bytes", "rx_rest": "bytes", "rx_plain": "bytes"})


READ_VARIANTS = SEND_VARIANTS


# ------------------------------------------------------------------------------------------------ the two ends together
def sync(mode, compress):
    """S's outbound half and R's inbound half are keyed alike and in step"""
    s, r = "S._Packetizer__", "R._Packetizer__"
    out = {
        "same_framing": "%sblock_size_out == %sblock_size_in and %smac_size_out == %smac_size_in and %setm_out == %setm_in"
                        " and %saead_out == %saead_in" % (s, r, s, r, s, r, s, r),
        "same_mac": "%smac_key_out == %smac_key_in and opaque_id(%smac_engine_out) == opaque_id(%smac_engine_in)" % (s, r, s, r),
        "same_sequence_number": "%ssequence_number_out == %ssequence_number_in" % (s, r),
        "paired_cipher_contexts_at_the_same_stream_position":
            "isnone(%sblock_engine_out) == isnone(%sblock_engine_in) and ghost('peer_enc') == opaque_id(%sblock_engine_out)"
            " and ghost('dec_pos') == ghost('enc_pos')" % (s, r, s),
        "same_nonce": "%siv_out == %siv_in" % (s, r),
        "paired_compression_streams": "isnone(%scompress_engine_out) == isnone(%scompress_engine_in)"
                                      " and ghost('peer_z') == opaque_id(%scompress_engine_out) and ghost('u_count') == ghost('z_count')" % (s, r, s),
    }
    return out


def lemma_contract(mode, bs, compress):
    req = dict(sync(mode, compress))
    sc = send_contract(mode, bs, compress)
    for k, v in sc["requires"].items():
        req["sender_" + k] = v.replace("self.", "S.").replace("data.", "m.")
    rc = read_contract(mode, bs, compress)
    for k in ("mode", "mac_parameters", "aead_nonce", "compression", "nothing_over_read"):
        req["receiver_" + k] = rc["requires"][k].replace("self.", "R.")
    req["nothing_in_flight"] = "len(ghost('tx')) == 0 and len(ghost('rx')) == 0"
    req["first_kex_flag_shared"] = "S._initial_kex_done == R._initial_kex_done"
    ens = {k: v for k, v in sync(mode, compress).items()}
    ens["nothing_left_in_flight"] = "len(ghost('rx')) == 0"
    return dict(params={"S": "obj:Packetizer", "R": "obj:Packetizer", "m": "obj:Message"}, requires=req, ensures=ens,
                returns="none", frame_bs=bs,
                raises={"EOFError": "True", "OSError": "True", "Exception": "True", "NeedRekeyException": "True",
                        "ProxyCommandFailure": "True", "SSHException": "True", "OverflowError": "True"},
                **{"+contracts": {P + "send_message": send_contract(mode, bs, compress),
                                  P + "read_message": read_contract(mode, bs, compress),
                                  "lemmas.c01.deliver": dict(
                                      argnames=["m"], returns="none",
                                      ghost={"rx": "ghost('tx')", "rx_packet": "ghost('last_packet')", "rx_rest": "b''",
                                             "rx_plain": "m.packet.getvalue()"})}})



# ------------------------------------------------------------------------------------------------ C02: arbitrary input
def read_contract_c02(mode, bs):
    """read_message on an ARBITRARY incoming stream (whatever an attacker made of it): a message is delivered only after
    the integrity check of exactly the bytes it is cut from has passed"""
    f = F
    HMSG = "ghost('hm_msg')"
    size = "unpack32(%s[4:8])" % HMSG
    CONS = "old(ghost('rx'))[:len(old(ghost('rx'))) - len(ghost('rx'))]"
    req = {
        "mode": MODE_REQ[mode] % dict(f=f, d="in"),
        "block_size": "%sblock_size_in == %d" % (f, bs),
        "mac_parameters": ("%smac_size_in == 16" % f) if mode == "aead" else
                          ("notnone(%smac_engine_in) and notnone(%smac_key_in) and 0 < %smac_size_in"
                           " and %smac_size_in <= fn('digest_size', 'int', opaque_id(%smac_engine_in))" % (f, f, f, f, f)),
        "aead_nonce": ("notnone(%siv_in) and len(%siv_in) == 12" % (f, f)) if mode == "aead" else "True",
        "compression": "isnone(%scompress_engine_in)" % f,
        "nothing_over_read": "len(%sremainder) == 0" % f,
    }
    ens = {}
    if mode in ("classic", "etm"):
        ens["mac_compared_exactly_once_and_found_equal"] = (
            "ghost('cteq_calls') == old(ghost('cteq_calls')) + 1 and ghost('cteq_result')"
            " and ghost('hm_calls') == old(ghost('hm_calls')) + 1")
        ens["computed_with_this_directions_key_over_sequence_number_length_and_packet"] = (
            "ghost('cteq_a') == hmac_spec(old(%smac_key_in), %s, opaque_id(old(%smac_engine_in)))[:%smac_size_in]"
            " and %s[0:4] == pack32(old(%ssequence_number_in))%s" % (f, HMSG, f, f, HMSG, f,
                                                                     (" and len(%s) == 8 + %s" % (HMSG, size)) if mode == "classic" else ""))
        ens["compared_with_the_bytes_that_followed_the_packet_on_the_wire"] = (
            "len(%s) == len(%s) - 4 + %smac_size_in and ghost('cteq_b') == (%s)[len(%s) - 4:]" % (CONS, HMSG, f, CONS, HMSG))
    if mode == "classic":
        # RFC 4253 section 6: payload = packet[1 : packet_length - padding_length], packet = the MACed bytes after the
        # sequence number and length; message type = payload[0], body = payload[1:]
        PAYLOAD = "%s[8:][1:%s - %s[8:][0]]" % (HMSG, size, HMSG)
        ens["delivered_type_is_cut_from_the_authenticated_plaintext"] = "result[0] == %s[0]" % PAYLOAD
        ens["delivered_body_is_cut_from_the_authenticated_plaintext"] = "result[1].packet.getvalue() == %s[1:]" % PAYLOAD
    if mode == "etm":
        ens["authenticated_bytes_are_the_length_field_and_ciphertext_on_the_wire"] = "%s[4:] == (%s)[0:len(%s) - 4]" % (HMSG, CONS, HMSG)
        ens["delivered_message_is_cut_from_the_decryption_of_the_authenticated_ciphertext"] = (
            "ghost('dec_calls') == old(ghost('dec_calls')) + 1 and ghost('dec_in') == %s[8:]"
            " and result[0] == ghost('dec_out')[1:%s - ghost('dec_out')[0]][0]"
            " and result[1].packet.getvalue() == ghost('dec_out')[1:%s - ghost('dec_out')[0]][1:]"
            % (HMSG, size, size))
    if mode == "aead":
        AAD = "ghost('gcm_aad')"
        ens["tag_verified_exactly_once_under_this_directions_nonce"] = (
            "ghost('gcm_calls') == old(ghost('gcm_calls')) + 1 and ghost('gcm_iv') == old(%siv_in)" % f)
        ens["over_exactly_the_bytes_on_the_wire"] = (
            "len(%s) == 4 and %s + ghost('gcm_data') == %s" % (AAD, AAD, CONS))
        ens["delivered_message_is_cut_from_the_authenticated_plaintext"] = (
            "result[0] == ghost('gcm_out')[1:unpack32(%s) - ghost('gcm_out')[0]][0]"
            " and result[1].packet.getvalue() == ghost('gcm_out')[1:unpack32(%s) - ghost('gcm_out')[0]][1:]" % (AAD, AAD))
    raises = {"EOFError": "True", "OSError": "True", "Exception": "True", "NeedRekeyException": "True", "SSHException": "True",
              # a packet that passed the integrity check but is shorter than its own padding: IndexError escapes (that is
              # C38's concern; nothing is delivered)
              "IndexError": "True"}
    if mode == "aead":
        raises["OverflowError"] = "True"
        raises["InvalidTag"] = "True"
    return dict(params={}, requires=req, ensures=ens, returns="tuple[int,obj:Message]", raises=raises, frame_bs=bs)


C02_VARIANTS = [("classic", 8), ("classic", 16), ("etm", 8), ("etm", 16), ("aead", 16)]
