"""Contracts for C07: the signature's algorithm name is tied to the negotiated / declared algorithm"""
T = "paramiko.transport.Transport."
SIGALG = "%s[4:4 + unpack32(%s[0:4])]"
STRIP = "utf8enc(fn('str_replace', 'str', %s, '-cert-v01@openssh.com', ''))"


def declare_client(E):
    from contracts import message
    message.declare(E)
    E.declare_ghost(verify_called="bool", verify_result="bool")
    E.declare_class("paramiko.transport.Transport", {"host_key_type": "str", "_key_info": "opaque:KeyInfo", "H": "bytes",
                                                     "host_key": "opt[opaque:PKey]"})
    E.contract("KeyInfo.__getitem__", argnames=["self", "k"], returns="opaque:KeyClass", raises={"KeyError": "True"})
    E.opaque_contracts["KeyClass"] = dict(argnames=["self", "msg"], returns="opt[opaque:PKey]",
                                          raises={"SSHException": "True", "Exception": "True"})
    E.contract("PKey.verify_ssh_sig", argnames=["self", "data", "msg"], returns="bool",
               ghost={"verify_called": "True", "verify_result": "result"}, raises={"Exception": "True"})
    E.contract(T + "_verify_key", params={"host_key": "bytes", "sig": "bytes"},
               requires={"fresh": "not ghost('verify_called')"},
               ensures={
                   "accepted_only_if_signature_names_the_negotiated_algorithm":
                       "implies(len(sig) >= 4 and unpack32(sig[0:4]) <= len(sig) - 4, "
                       + SIGALG % ("sig", "sig") + " == " + STRIP % "self.host_key_type" + ")",
                   "accepted_only_if_the_key_verified_it": "ghost('verify_called') and ghost('verify_result')",
               },
               returns="none", raises={"SSHException": "True", "Exception": "True", "KeyError": "True"}, modifies=["self.host_key"])
