"""Contracts for paramiko/primes.py"""
MP = "paramiko.primes.ModulusPack."

IN_RANGE = "(k in self.pack and min <= k and k <= max)"


def declare(E):
    # pack: bits -> non-empty list of (generator, modulus); lists are abstract objects (_ModList)
    E.declare_class("paramiko.primes.ModulusPack", {"pack": "sdict[int,obj:_ModList]", "discarded": "obj:_AnyList"})
    E.declare_class("_ModList", {})
    E.contract("_ModList.__len__", argnames=["self"], returns="int",
               ensures=["result == fn('modlist_len', 'int', self)", "result >= 1"])
    E.contract("_ModList.__getitem__", argnames=["self", "n"], returns="tuple[int,int]",
               requires={"index_in_range": "0 <= n and n < fn('modlist_len', 'int', self)"},
               ensures=["fn('in_list', 'bool', self, result[0], result[1])"])
    E.contract("paramiko.primes._roll_random", params={"n": "int"}, returns="int",
               requires={"positive": "n >= 1"}, ensures=["0 <= result and result < n"])
    K = "ghost('key_of_self.pack')"
    E.declare_ghost(**{"key_of_self.pack": "int"})
    E.contract(MP + "get_modulus",
               params={"min": "nat", "prefer": "nat", "max": "nat"},
               ensures={
                   "offered_from_pack": "%s in self.pack and fn('in_list', 'bool', self.pack[%s], result[0], result[1])" % (K, K),
                   "smallest_in_range_at_least_preferred":
                       "implies(exists(lambda k: %s and k >= prefer),"
                       " min <= %s and %s <= max and %s >= prefer"
                       " and forall(lambda k: implies(%s and k >= prefer, %s <= k)))" % (IN_RANGE, K, K, K, IN_RANGE, K),
                   "else_largest_in_range":
                       "implies(exists(lambda k: %s) and not exists(lambda k: %s and k >= prefer),"
                       " min <= %s and %s <= max and forall(lambda k: implies(%s, k <= %s)))" % (IN_RANGE, IN_RANGE, K, K, IN_RANGE, K),
               },
               raises={"SSHException": "forall(lambda k: not (k in self.pack))"},
               loops={
                   0: dict(inv=[
                       "good == -1 or (good in self.pack and good >= prefer and good >= min and good <= max)",
                       "forall(lambda j: implies(0 <= j and j < _idx0 and at(bitsizes, j) >= prefer and at(bitsizes, j) >= min and at(bitsizes, j) <= max,"
                       " good != -1 and good <= at(bitsizes, j)))",
                       "implies(good != -1, exists(lambda j: 0 <= j and j < _idx0 and at(bitsizes, j) == good))",
                   ], vars={"b": "int"}),
                   1: dict(inv=[
                       "good == -1 or (good in self.pack and good >= min and good <= max)",
                       "forall(lambda j: implies(0 <= j and j < _idx1 and at(bitsizes, j) >= min and at(bitsizes, j) <= max,"
                       " good != -1 and good >= at(bitsizes, j)))",
                       "forall(lambda k: not (k in self.pack and k >= prefer and k >= min and k <= max))",
                   ], vars={"b": "int"}),
               },
               returns="tuple[int,int]", modifies=[])
