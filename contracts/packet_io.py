"""Contracts for the byte-stream layer of Packetizer (C01, C02, C10): read_all / write_all against ghost streams.

ghost rx : the bytes the socket will still deliver (in order); recv hands out a prefix of it, however the stream is cut
ghost tx : the bytes accepted by the socket so far (in order); send appends a prefix of what it is given"""
import z3
from pyvc import ropes, smt
from pyvc.values import VSeq, VInt, zint

P = "paramiko.packet.Packetizer."
M = "self._Packetizer__"


def _recv_result(I, env, sf):
    """socket.recv(n): some prefix of the pending stream, at most n bytes (empty = end of stream or n == 0)"""
    st = I.st
    rx = st.ghost.get("rx")
    if rx is None:
        rx = I.fresh_of_type("bytes", "ghost.rx")
        st.ghost["rx"] = rx
        st.ghost_init["rx"] = rx
    k = st.fresh_int("recv_len")
    n = zint(env["n"].t)
    st.assume(z3.And(k >= 0, k <= n, k <= zint(ropes.seq_len(rx))))
    return ropes.slice_norm(st, rx, 0, k)


def declare_socket(E):
    E.declare_ghost(rx="bytes", tx="bytes")
    E.contract("Socket.recv", argnames=["self", "n"], returns=_recv_result,
               requires=["n >= 0"],
               ghost={"rx": "ghost('rx')[len(result):]"},
               raises={"TimeoutError": "True", "OSError": "True"})
    E.contract("Socket.send", argnames=["self", "data"], returns="int",
               ensures=["0 <= result and result <= len(data)"],
               ghost={"tx": "ghost('tx') + data[:result]"},
               raises={"TimeoutError": "True", "OSError": "True", "ProxyCommandFailure": "True", "Exception": "True"})


def declare_io(E):
    from contracts import packet
    packet.declare(E)
    declare_socket(E)
    E.inline("paramiko.packet.first_arg")
    E.contract(P + "handshake_timed_out", returns="bool", modifies=[])
    E.contract(P + "_check_keepalive", returns="none", modifies=[M + "keepalive_last"], raises={"Exception": "True"})
    TOTAL = "(old(%sremainder) + old(ghost('rx')))" % M
    CUR = "(%sremainder + ghost('rx'))" % M
    E.contract(P + "read_all", params={"n": "int", "check_rekey": "bool"},
               # (a negative count - a nonsensical length field from the peer - reads nothing when nothing was over-read)
               requires={"n_nonnegative_or_nothing_over_read": "n >= 0 or len(%sremainder) == 0" % M},
               # behaviour seen by callers (definitional): the next n bytes; what was over-read earlier goes first
               cases=[dict(name="next_n_bytes", when="n >= 0", result="%s[:n]" % CUR,
                           post={M + "remainder": "%sremainder[n:]" % M}),
                      dict(name="negative_count_reads_nothing", when="n < 0", result="b''", post={M + "remainder": "%sremainder" % M})],
               ghost={"rx": "ghost('rx')[(n - min(n, len(old(%sremainder)))) if n >= 0 else 0:]" % M},
               ensures={
                   "returns_exactly_n_bytes": "len(result) == (n if n >= 0 else 0)",
                   "they_are_the_next_bytes_of_the_stream": "result == %s[:(n if n >= 0 else 0)]" % TOTAL,
                   "over_read_bytes_are_used_first": "implies(n >= 0, %sremainder == old(%sremainder)[n:])" % (M, M),
                   "rest_of_the_stream_still_pending":
                       "ghost('rx') == old(ghost('rx'))[(n - min(n, len(old(%sremainder)))) if n >= 0 else 0:]" % M,
               },
               # consumed so far = old(n) - n bytes: `out` is that prefix of the stream, the socket still holds the rest
               loops={0: dict(inv=["(0 <= n and n <= old(n) and old(n) - n <= len(%s)) or (n < 0 and n == old(n))" % TOTAL,
                                   "n == 0 or len(%sremainder) == 0" % M],
                              defs={"out": "%s[:old(n) - n]" % TOTAL,
                                    "ghost:rx": "%s[old(n) - n:][len(%sremainder):]" % (TOTAL, M)},
                              havoc_ghosts=["rx"], havoc_fields=["self._Packetizer__keepalive_last"],
                              vars={"x": "bytes", "got_timeout": "bool", "arg": "opt[int]"})},
               returns="bytes",
               raises={"EOFError": "True",
                       # only before anything of this read was consumed: nothing is lost when the caller re-keys
                       "NeedRekeyException": "check_rekey and %sremainder + ghost('rx') == %s" % (M, TOTAL),
                       "OSError": "True", "Exception": "True"},
               modifies=[M + "remainder", M + "keepalive_last"])
    E.contract("time.time", argnames=[], returns="float")
    E.contract(P + "write_all", params={"out": "bytes"},
               ghost={"tx": "ghost('tx') + out"},
               ensures={"whole_buffer_reached_the_socket_in_order": "ghost('tx') == old(ghost('tx')) + out"},
               loops={0: dict(inv=["ghost('tx') + out == old(ghost('tx')) + _entry0_out"],
                              havoc_ghosts=["tx"],
                              vars={"n": "int", "retry_write": "bool", "arg": "opt[int]"})},
               returns="none",
               raises={"EOFError": "True", "ProxyCommandFailure": "True"},
               modifies=[M + "keepalive_last"])


def declare_cteq(E, own=True):
    """util.constant_time_bytes_eq(a, b) == (a == b), for byte strings of any length"""
    E.inline("paramiko.common.byte_ord")
    E.contract("paramiko.util.constant_time_bytes_eq", params={"a": "bytes", "b": "bytes"},
               ensures={"true_exactly_when_the_byte_strings_are_equal": "result == (a == b)"},
               loops={0: dict(inv=["res >= 0",
                                   "(res == 0) == forall(lambda j: implies(0 <= j and j < _idx0, at(a, j) == at(b, j)))"],
                              vars={"res": "int"})},
               # monitor for callers (C02): what was compared, and with which outcome
               ghost={"cteq_calls": "ghost('cteq_calls') + 1", "cteq_a": "a", "cteq_b": "b", "cteq_result": "result"},
               returns="bool", modifies=[], raises={})
    E.declare_ghost(cteq_calls="int", cteq_a="bytes", cteq_b="bytes", cteq_result="bool")
