"""Contracts for paramiko/buffered_pipe.py (C26).  Monitor on BufferedPipe._lock with ghost histories
fed / taken:  fed == taken ++ buffer  in every state visible to another thread."""
from pyvc.monitors import Monitor

B = "paramiko.buffered_pipe.BufferedPipe."
INV = "ghost('fed') == ghost('taken') + self._buffer"


def declare(E):
    E.declare_class("paramiko.buffered_pipe.BufferedPipe", {
        "_lock": "opaque:Lock", "_cv": "opaque:Condition", "_event": "opt[opaque:Event]",
        "_buffer": "bytearray", "_closed": "bool"})
    E.inline(B + "_buffer_frombytes", B + "_buffer_tobytes", "paramiko.util.b")
    Monitor(E, "paramiko.buffered_pipe.BufferedPipe", "_lock", fields=["_buffer", "_closed", "_event"],
            invariant=[INV], conditions=["_cv"], ghosts={"fed": "bytes", "taken": "bytes"},
            unlocked={B + "__init__": "construction"})
    SAME_HISTORY = "ghost('fed') == ghost('sync_fed')"
    E.contract(B + "feed", params={"data": "bytes"},
               on_release={"fed": "ghost('fed') + data"},
               ensures={"appended_to_history": "ghost('fed') == ghost('sync_fed') + data",
                        "nothing_taken": "ghost('taken') == ghost('sync_taken')"},
               returns="none", raises={})
    E.contract(B + "read", params={"nbytes": "int", "timeout": "opt[float]"},
               requires={"positive_size": "nbytes >= 1"},
               on_release={"taken": "ghost('taken') + out"},
               ensures={
                   "result_is_what_was_taken": "ghost('taken') == ghost('sync_taken') + result and " + SAME_HISTORY,
                   "at_most_nbytes": "len(result) <= nbytes",
                   "empty_only_when_closed_and_drained": "implies(len(result) == 0, self._closed and len(self._buffer) == 0)",
               },
               raises={"PipeTimeout": {"when": "True", "ensures": [
                   "len(self._buffer) == 0",                       # only if no data was available
                   "ghost('taken') == ghost('sync_taken')",        # and nothing was consumed
               ]}},
               loops={0: dict(inv=[INV, "held(self._lock)", "len(out) == 0",
                                   "ghost('taken') == ghost('sync_taken')", "ghost('fed') == ghost('sync_fed')",
                                   "self._buffer == ghost('sync__buffer')"],
                              havoc_fields=["self._buffer", "self._closed", "self._event"],
                              havoc_ghosts=["fed", "taken", "sync_fed", "sync_taken", "sync__buffer", "sync__closed", "sync__event"],
                              vars={"then": "float", "timeout": "opt[float]"})},
               returns="bytes")
    E.contract(B + "empty", on_release={"taken": "ghost('taken') + out"},
               ensures={"returns_everything": "ghost('taken') == ghost('sync_taken') + result and len(self._buffer) == 0 and " + SAME_HISTORY},
               returns="bytes", raises={})
    E.contract(B + "close", ensures={"closed": "self._closed", "histories_untouched": SAME_HISTORY + " and ghost('taken') == ghost('sync_taken')"},
               returns="none", raises={})
