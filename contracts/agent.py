"""Contracts for paramiko/agent.py (C45)"""
A = "paramiko.agent."

FLAG = ("(2 if (algorithm == 'rsa-sha2-256' or algorithm == 'rsa-sha2-256-cert-v01@openssh.com') else "
        "(4 if (algorithm == 'rsa-sha2-512' or algorithm == 'rsa-sha2-512-cert-v01@openssh.com') else 0))")


def declare(E):
    E.declare_ghost(stream_short="bool", conn_in="bytes", conn_out="bytes", agent_request="bytes", reply_buf="bytes", reply_pos="int")
    E.declare_class("paramiko.agent.AgentSSH", {"_conn": "opaque:Conn", "_keys": "opaque:Keys"})
    E.declare_class("paramiko.agent.AgentKey", {"agent": "obj:AgentSSH", "blob": "bytes", "comment": "str",
                                                "name": "str", "inner_key": "opt[opaque:PKey]"})
    # the agent connection: an ordered byte stream in each direction (ghost conn_in / conn_out)
    E.contract("Conn.send", argnames=["self", "data"], returns="int", requires=["isbytes(data)"],
               ghost={"conn_out": "ghost('conn_out') + data"}, ensures=["result == len(data)"])
    E.contract("Conn.recv", argnames=["self", "n"], returns="bytes",
               ensures=["len(result) <= n", "len(result) <= len(old(ghost('conn_in')))",
                        "result == old(ghost('conn_in'))[0:len(result)]",
                        # conn_in is everything the agent will ever send: an empty read means end of stream
                        "implies(n > 0 and len(old(ghost('conn_in'))) > 0, len(result) >= 1)"],
               ghost={"conn_in": "ghost('conn_in')[len(result):]"})
    E.contract(A + "AgentSSH._read_all", params={"wanted": "nat"},
               ensures={"exactly_wanted": "len(result) == wanted",
                        "next_bytes_of_stream": "result + ghost('conn_in') == old(ghost('conn_in'))",
                        "is_prefix": "len(result) <= len(old(ghost('conn_in'))) and result == old(ghost('conn_in'))[0:len(result)]"},
               ghost={"conn_in": "ghost('conn_in')[len(result):]"},
               raises={"SSHException": "len(old(ghost('conn_in'))) < wanted"},
               loops={0: dict(inv=["result + ghost('conn_in') == old(ghost('conn_in'))", "len(result) <= wanted",
                                   # nothing read so far although something was asked for: the stream had ended
                                   "implies(len(result) == 0 and wanted > 0, len(old(ghost('conn_in'))) == 0)"],
                              variant="wanted - len(result)", havoc_ghosts=["conn_in"], vars={"extra": "bytes"})},
               returns="bytes", modifies=[])
    E.contract(A + "AgentSSH._send_message", params={"msg": "obj:Message"},
               requires={"length_fits": "len(msg.packet.getvalue()) < 2**32"},
               ensures={
                   "request_framed": "ghost('conn_out') == old(ghost('conn_out')) + pack32(len(msg.packet.getvalue())) + msg.packet.getvalue()",
                   "reply_pos_ok": "0 <= result[1].packet.tell() and result[1].packet.tell() <= len(result[1].packet.getvalue())",
                   "reply_is_next_frame": "implies(len(old(ghost('conn_in'))) >= 4 and unpack32(old(ghost('conn_in'))[0:4]) >= 1,"
                                          " result[1].packet.getvalue() == old(ghost('conn_in'))[4:4 + unpack32(old(ghost('conn_in'))[0:4])]"
                                          " and result[0] == old(ghost('conn_in'))[4] and result[1].packet.tell() == 1)",
               },
               ghost={"conn_out": "ghost('conn_out') + pack32(len(msg.packet.getvalue())) + msg.packet.getvalue()",
                      "agent_request": "msg.packet.getvalue()", "reply_buf": "result[1].packet.getvalue()",
                      "reply_pos": "result[1].packet.tell()"},
               raises={"SSHException": {"when": "(len(old(ghost('conn_in'))) < 4 or len(old(ghost('conn_in'))) - 4 < unpack32(old(ghost('conn_in'))[0:4]))", "ghost": {"stream_short": "True"}}},
               returns="tuple[int,obj:Message]", modifies=["ghost:conn_in"])
    E.contract(A + "AgentKey.asbytes", returns="bytes", ensures=["result == fn('agent_key_blob', 'bytes', self)", "len(result) < 2**20"],
               modifies=[])
    RB, RP = "ghost('reply_buf')", "ghost('reply_pos')"
    E.contract(A + "AgentKey.sign_ssh_data", params={"data": "bytes", "algorithm": "opt[str]"},
               requires={"data_fits": "len(data) < 2**31"},
               ensures={
                   "request_is_sign_request_with_blob_data_flags":
                       "ghost('agent_request') == b'\\x0d' + pack32(len(fn('agent_key_blob', 'bytes', self))) + fn('agent_key_blob', 'bytes', self)"
                       " + pack32(len(data)) + data + pack32(%s)" % FLAG.replace("algorithm ==", "notnone(algorithm) and algorithm =="),
                   "signature_returned_unchanged":
                       "implies(len(%s) - %s >= 4 and unpack32(%s[%s:%s + 4]) <= len(%s) - %s - 4,"
                       " result == %s[%s + 4:%s + 4 + unpack32(%s[%s:%s + 4])])" % (RB, RP, RB, RP, RP, RB, RP, RB, RP, RP, RB, RP, RP),
               },
               raises={"SSHException": "ghost('stream_short') or ghost('reply_type') != 14"},
               returns="bytes", modifies=[])
