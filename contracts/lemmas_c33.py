"""Lemma program for C33: SFTPAttributes._pack then _unpack (real bodies, executed in place) over Message contracts."""


def roundtrip_scalars(size, uid, gid, mode, atime, mtime):
    from paramiko.message import Message
    from paramiko.sftp_attr import SFTPAttributes
    a = SFTPAttributes()
    a.st_size = size
    a.st_uid = uid
    a.st_gid = gid
    a.st_mode = mode
    a.st_atime = atime
    a.st_mtime = mtime
    m = Message()
    a._pack(m)
    r = Message(m.asbytes())
    b = SFTPAttributes()
    b._unpack(r)
    # same size, uid/gid, permissions, integer times; absent stays absent
    assert b.st_size == a.st_size
    if a.st_uid is not None and a.st_gid is not None:
        assert b.st_uid == a.st_uid
        assert b.st_gid == a.st_gid
    else:
        assert b.st_uid is None
        assert b.st_gid is None
    assert b.st_mode == a.st_mode
    if a.st_atime is not None and a.st_mtime is not None:
        assert b.st_atime == a.st_atime
        assert b.st_mtime == a.st_mtime
    else:
        assert b.st_atime is None
        assert b.st_mtime is None
    # flags reflect exactly the fields that were present
    assert (b._flags & 1 != 0) == (a.st_size is not None)
    assert (b._flags & 2 != 0) == (a.st_uid is not None and a.st_gid is not None)
    assert (b._flags & 4 != 0) == (a.st_mode is not None)
    assert (b._flags & 8 != 0) == (a.st_atime is not None and a.st_mtime is not None)
    assert (b._flags & 0x80000000 != 0) == False
    assert len(b.attr) == 0
    assert r.get_remainder() == bytes()


def roundtrip_extended(size, n, k1, v1, k2, v2):
    from paramiko.message import Message
    from paramiko.sftp_attr import SFTPAttributes
    a = SFTPAttributes()
    a.st_size = size
    if n >= 1:
        a.attr[k1] = v1
    if n >= 2:
        a.attr[k2] = v2
    m = Message()
    a._pack(m)
    r = Message(m.asbytes())
    b = SFTPAttributes()
    b._unpack(r)
    assert b.st_size == a.st_size
    assert (b._flags & 0x80000000 != 0) == (len(a.attr) > 0)
    # extended attributes: same keys, same values
    assert len(b.attr) == len(a.attr)
    for k, v in a.attr.items():
        assert k in b.attr
        assert b.attr[k] == v
    assert r.get_remainder() == bytes()


def decodes_are_independent(size, k1, v1):
    """what one object decoded (or was given) never shows up in another: a decode of a block WITHOUT the EXTENDED flag, after
    one with it, yields no extended attributes, and re-encodes none"""
    from paramiko.message import Message
    from paramiko.sftp_attr import SFTPAttributes
    a = SFTPAttributes()
    a.st_size = size
    a.attr[k1] = v1
    m = Message()
    a._pack(m)
    first = SFTPAttributes()
    first._unpack(Message(m.asbytes()))
    assert len(first.attr) == 1
    # a second, unrelated attribute set: size only
    c = SFTPAttributes()
    c.st_size = size
    assert len(c.attr) == 0
    m2 = Message()
    c._pack(m2)
    second = SFTPAttributes()
    second._unpack(Message(m2.asbytes()))
    assert (second._flags & 0x80000000 != 0) == False
    assert len(second.attr) == 0
