"""Contracts for paramiko/transport.py"""
T = "paramiko.transport.Transport."


def declare(E):
    E.declare_class("paramiko.transport.Transport", {
        "_channel_counter": "int", "_channels": "obj:ChannelMap", "lock": "opaque:Lock",
        "active": "bool", "server_mode": "bool", "authenticated": "bool", "initial_kex_done": "bool",
        "in_kex": "bool", "agreed_on_strict_kex": "bool",
    })
    E.declare_class("paramiko.transport.ChannelMap", {"_lock": "opaque:Lock"})


def declare_c23(E):
    E.contract("paramiko.transport.ChannelMap.get", params={"chanid": "int"},
               returns="opt[obj:Channel]",
               ensures=["isnone(result) == (not fn('live', 'bool', self, chanid))"], modifies=[])
    E.contract(T + "_next_channel",
               ghosts={"free": "u24"},
               held=["self.lock"],
               requires={
                   "counter_24bit": "0 <= self._channel_counter < 2**24",
                   # fewer than 2**24 live channels: some id is free (needed for termination only)
                   "some_free_id": "not fn('live', 'bool', self._channels, ghost('free'))",
                   "lock_held": "held(self.lock)",
               },
               ensures={
                   "not_in_use": "not fn('live', 'bool', self._channels, result)",
                   "fits_24_bits": "0 <= result < 2**24",
                   "counter_advanced": "self._channel_counter == (result + 1) % 2**24",
                   "counter_24bit": "0 <= self._channel_counter < 2**24",
               },
               loops={0: dict(inv=["0 <= self._channel_counter < 2**24", "chanid == self._channel_counter"],
                              variant="(ghost('free') - self._channel_counter) % 2**24")},
               returns="int", modifies=["self._channel_counter"], raises={})
