"""Contracts for paramiko/transport.py"""
T = "paramiko.transport.Transport."


def declare(E):
    E.declare_class("paramiko.transport.Transport", {
        "_channel_counter": "int", "_channels": "obj:ChannelMap", "lock": "opaque:Lock",
        "active": "bool", "server_mode": "bool", "authenticated": "bool", "initial_kex_done": "bool",
        "in_kex": "bool", "agreed_on_strict_kex": "bool",
    })
    E.declare_class("paramiko.transport.ChannelMap", {"_lock": "opaque:Lock"})


def declare_c23(E):
    E.contract("paramiko.transport.ChannelMap.get", params={"chanid": "int"},
               returns="opt[obj:Channel]",
               ensures=["isnone(result) == (not fn('live', 'bool', self, chanid))"], modifies=[])
    E.contract(T + "_next_channel",
               ghosts={"free": "u24"},
               held=["self.lock"],
               requires={
                   "counter_24bit": "0 <= self._channel_counter < 2**24",
                   # fewer than 2**24 live channels: some id is free (needed for termination only)
                   "some_free_id": "not fn('live', 'bool', self._channels, ghost('free'))",
                   "lock_held": "held(self.lock)",
               },
               ensures={
                   "not_in_use": "not fn('live', 'bool', self._channels, result)",
                   "fits_24_bits": "0 <= result < 2**24",
                   "counter_advanced": "self._channel_counter == (result + 1) % 2**24",
                   "counter_24bit": "0 <= self._channel_counter < 2**24",
               },
               loops={0: dict(inv=["0 <= self._channel_counter < 2**24", "chanid == self._channel_counter"],
                              variant="(ghost('free') - self._channel_counter) % 2**24")},
               returns="int", modifies=["self._channel_counter"], raises={})


RUN_ITER = "paramiko.transport.Transport.run::loop#0"


def declare_runloop(E, expected_packet_type="const:()"):
    """one iteration of the dispatch loop in Transport.run, verified as a fragment (the loop body's real AST)"""
    from contracts import packet, message
    message.declare(E)
    packet.declare(E)
    E.declare_ghost(sent_count="int", last_sent="bytes", handler_calls="int")
    E.declare_class("paramiko.transport.Transport", {
        "packetizer": "obj:Packetizer", "_expected_packet": expected_packet_type,
        "auth_handler": "opt[obj:AuthHandler]", "kex_engine": "opaque:KexEngine",
        "channels_seen": "opaque:SeenMap", "saved_exception": "opt[opaque:Exc]",
        "_handler_table": "from-init",
    })
    E.declare_class("paramiko.auth_handler.AuthHandler", {"transport": "obj:Transport"})
    E.contract("paramiko.packet.Packetizer.need_rekey", returns="bool", modifies=[])
    E.contract("paramiko.packet.Packetizer.complete_handshake", returns="none", modifies=[])
    E.contract("paramiko.packet.Packetizer.read_message", returns="tuple[u8,obj:Message]",
               ensures=["0 <= result[1].packet.tell() and result[1].packet.tell() <= len(result[1].packet.getvalue())",
                        "0 <= result[1].seqno and result[1].seqno < 2**32"],
               raises={"SSHException": "True", "EOFError": "True", "OSError": "True", "NeedRekeyException": "True"},
               modifies=[])
    E.contract(T + "_send_kex_init", returns="none", raises={"SSHException": "True", "EOFError": "True", "OSError": "True"},
               modifies=["self.in_kex"])
    E.contract(T + "_send_message", params={"data": "obj:Message"}, returns="none",
               ghost={"sent_count": "ghost('sent_count') + 1", "last_sent": "data.packet.getvalue()"},
               raises={"EOFError": {"when": "True", "ghost": {"send_failed": "True"}},
                       "OSError": {"when": "True", "ghost": {"send_failed": "True"}},
                       "SSHException": {"when": "True", "ghost": {"send_failed": "True"}}}, modifies=[])
    E.declare_ghost(send_failed="bool")
    # the gated send (Transport._send_user_message: sent now, or held back until NEWKEYS on the transport thread) counts as
    # handed over for sending, like the ungated one
    E.contracts[T + "_send_user_message"] = dict(E.contracts[T + "_send_message"])


UNHANDLED = ("ptype != 2 and ptype != 1 and ptype != 4"          # IGNORE, DISCONNECT, DEBUG are handled inline
             " and ptype not in self._handler_table and ptype not in self._channel_handler_table"
             " and (True if isnone(self.auth_handler) else ptype not in self.auth_handler._handler_table)")


GENERIC_RAISES = {"SSHException": "True", "EOFError": "True", "OSError": "True"}


def generic_handlers(E):
    """every dispatch target gets an 'anything allowed by the documented error classes' contract: properties about
    one branch of the loop do not depend on what the other branches' handlers do"""
    names = set()
    t = E.tables["classes"]["paramiko.transport.Transport"]["attrs"]["_channel_handler_table"]
    from pyvc.extract import dec
    for k, v in dec(t).items():
        names.add(v["v"])
    for fi in list(E.src.funcs):
        if fi.startswith("paramiko.transport.Transport._parse_") or fi.startswith("paramiko.auth_handler.AuthHandler._parse_"):
            names.add(fi)
    names.update([T + "_negotiate_keys", T + "_enforce_strict_kex"])
    for qn in sorted(names):
        if qn in E.contracts:
            continue
        mods = ["self.active", "self._expected_packet", "self.in_kex", "self.authenticated"] if qn.startswith(T) else []
        E.contract(qn, returns="none", raises=dict(GENERIC_RAISES), modifies=mods,
                   ghost={"handler_calls": "ghost('handler_calls') + 1"})
    if T + "_ensure_authed" not in E.contracts:
        E.contract(T + "_ensure_authed", returns="opt[obj:Message]", modifies=[])
    if "paramiko.transport.ChannelMap.get" not in E.contracts:
        E.contract("paramiko.transport.ChannelMap.get", params={"chanid": "int"}, returns="opt[obj:Channel]", modifies=[])
    E.contract("KexEngine.parse_next", argnames=["self", "ptype", "m"], returns="none", raises=dict(GENERIC_RAISES))
    E.contract("SeenMap.__contains__", argnames=["self", "k"], returns="bool")


def declare_c12(E):
    declare(E)
    declare_runloop(E)
    generic_handlers(E)
    E.inline("paramiko.auth_handler.AuthHandler._handler_table", "paramiko.auth_handler.AuthHandler._server_handler_table",
             "paramiko.auth_handler.AuthHandler._client_handler_table")
    # the fragment's own contract: state = established session, nothing pending in the key exchange
    E.contract(RUN_ITER, params={"self": "obj:Transport"},
               requires={"active": "self.active", "no_expected_kex_packet": "len(self._expected_packet) == 0",
                         "nothing_read_yet": "not ghost('got_message') and not ghost('send_failed')"},
               ghosts={"ptype": "int", "seqno": "int", "got_message": "bool", "sent_count": "int", "send_failed": "bool"},
               ensures={
                   "unhandled_answered_once_with_UNIMPLEMENTED_seqno":
                       "implies(ghost('got_message') and unhandled_type(self, ghost('ptype')) and ghost('ptype') != 3,"
                       " ghost('sent_count') == old(ghost('sent_count')) + 1"
                       " and ghost('last_sent') == b'\\x03' + pack32(ghost('seqno')))",
                   "UNIMPLEMENTED_itself_never_answered":
                       "implies(ghost('got_message') and ghost('ptype') == 3 and unhandled_type(self, 3),"
                       " ghost('sent_count') == old(ghost('sent_count')))",
                   "session_continues": "implies(ghost('got_message') and unhandled_type(self, ghost('ptype')),"
                                        " self.active and ghost('loop_exit') == 'end')",
               },
               raises={"SSHException": "not ghost('got_message') or not unhandled_type(self, ghost('ptype')) or ghost('send_failed')",
                       "EOFError": "True", "OSError": "True"})
    # read_message records what arrived (ghost) so that the postcondition can talk about it
    c = E.contracts["paramiko.packet.Packetizer.read_message"]
    c["ghost"] = {"ptype": "result[0]", "seqno": "result[1].seqno", "got_message": "True"}
    E.declare_ghost(ptype="int", seqno="int", got_message="bool")


AUTHED = "(self.active and (self.auth_handler.authenticated if notnone(self.auth_handler) else False))"


def declare_c15(E):
    declare(E)
    declare_runloop(E)
    E.declare_class("paramiko.auth_handler.AuthHandler", {"authenticated": "bool"})
    E.inline("paramiko.auth_handler.AuthHandler._handler_table", "paramiko.auth_handler.AuthHandler._server_handler_table",
             "paramiko.auth_handler.AuthHandler._client_handler_table",
             "paramiko.transport.Transport.is_authenticated", "paramiko.auth_handler.AuthHandler.is_authenticated")
    # _ensure_authed itself (verified) : a server that has not authenticated the peer always produces a refusal
    E.contract(T + "_ensure_authed", params={"ptype": "u8", "message": "obj:Message"},
               requires={"msg_pos": "0 <= message.packet.tell() and message.packet.tell() <= len(message.packet.getvalue())"},
               ensures={
                   "refuses_post_auth_types_before_auth":
                       "implies(self.server_mode and ptype > 79 and not %s, notnone(result))" % AUTHED,
                   "lets_everything_else_through":
                       "implies(not self.server_mode or ptype <= 79 or %s, isnone(result))" % AUTHED,
                   "global_request_refused_with_REQUEST_FAILURE":
                       "(result.packet.getvalue() == b'\\x52') if (notnone(result) and ptype == 80) else True",
                   "channel_open_refused_with_OPEN_FAILURE_administratively_prohibited":
                       "implies(ptype == 90 and len(message.packet.getvalue()) - old(message.packet.tell()) >= 4"
                       " and unpack32(message.packet.getvalue()[old(message.packet.tell()):old(message.packet.tell()) + 4])"
                       "     <= len(message.packet.getvalue()) - old(message.packet.tell()) - 8"
                       " and utf8ok(message.packet.getvalue()[old(message.packet.tell()) + 4:old(message.packet.tell()) + 4"
                       "     + unpack32(message.packet.getvalue()[old(message.packet.tell()):old(message.packet.tell()) + 4])]),"
                       " result.packet.getvalue()[0:1] == b'\\x5c' and result.packet.getvalue()[5:9] == pack32(1)) if notnone(result) else True",
               },
               returns="opt[obj:Message]",
               # replies to requests the server never made (REQUEST_SUCCESS / FAILURE, CHANNEL_OPEN confirmation / failure)
               # from an unauthenticated peer end the connection
               raises={"SSHException": "self.server_mode and ptype > 79 and ptype != 80 and ptype != 90 and not %s" % AUTHED},
               modifies=["message.packet.pos"])
    generic_handlers(E)
    E.contracts["paramiko.transport.ChannelMap.get"] = dict(
        params={"chanid": "int"}, returns="opt[obj:Channel]",
        ensures=["implies(ghost('no_channels_allocated'), isnone(result))"], modifies=[])
    E.declare_ghost(no_channels_allocated="bool")
    E.contract(RUN_ITER + "[unauth]", params={"self": "obj:Transport"}, requires={}, ensures={}, raises={})
    E.contract(RUN_ITER, params={"self": "obj:Transport"},
               requires={"active": "self.active", "server": "self.server_mode",
                         "not_authenticated": "not %s" % AUTHED,
                         "no_channel_ever_allocated": "ghost('no_channels_allocated')",
                         "nothing_read_yet": "not ghost('got_message') and not ghost('send_failed')"},
               ghosts={"ptype": "int", "seqno": "int", "got_message": "bool", "sent_count": "int", "send_failed": "bool",
                       "handler_calls": "int", "no_channels_allocated": "bool"},
               ensures={
                   "application_never_consulted_for_connection_layer_messages":
                       "implies(ghost('got_message') and ghost('ptype') > 79, ghost('handler_calls') == old(ghost('handler_calls')))",
                   "channel_open_and_global_request_are_refused":
                       "implies(ghost('got_message') and (ghost('ptype') == 80 or ghost('ptype') == 90) and len(self._expected_packet) == 0,"
                       " ghost('sent_count') == old(ghost('sent_count')) + 1)",
               },
               raises={"SSHException": "True", "EOFError": "True", "OSError": "True", "UnicodeDecodeError": "True"})
    c = E.contracts["paramiko.packet.Packetizer.read_message"]
    c["ghost"] = {"ptype": "result[0]", "seqno": "result[1].seqno", "got_message": "True"}
    E.declare_ghost(ptype="int", seqno="int", got_message="bool")


def declare_c18(E):
    """client-mode transport: server-initiated global requests / channel opens / channel requests"""
    from contracts import message, channel as chan_contracts
    message.declare(E)
    declare(E)
    chan_contracts.declare(E)
    message.light_readers(E)
    E.inline("paramiko.message.Message.add", "paramiko.message.Message._add")
    E.declare_ghost(consult_count="int", sent_count="int", last_sent="bytes", channels_created="int", user_sent="bytes",
                    user_sent_count="int", handler_calls="int")
    E.declare_class("paramiko.transport.Transport", {
        "server_object": "opt[opaque:Server]", "_x11_handler": "opt[callable]", "_forward_agent_handler": "opt[callable]",
        "_tcp_handler": "opt[callable]", "default_window_size": "u32", "default_max_packet_size": "u32",
        "channels_seen": "opaque:SeenMap", "_channels": "obj:ChannelMap"})
    RA = {"EOFError": "True", "OSError": "True", "SSHException": "True"}
    E.contract(T + "_send_message", params={"data": "obj:Message"}, returns="none",
               ghost={"sent_count": "ghost('sent_count') + 1", "last_sent": "data.packet.getvalue()"}, raises=dict(RA), modifies=[])
    # (the gate: the message is sent now, or - on the transport thread during a key exchange - right after NEWKEYS; either
    #  way it has been handed over for sending, which is what the reply clauses below count)
    E.contract(T + "_send_user_message", params={"data": "obj:Message"}, returns="none",
               ghost={"user_sent_count": "ghost('user_sent_count') + 1", "user_sent": "data.packet.getvalue()",
                      "sent_count": "ghost('sent_count') + 1", "last_sent": "data.packet.getvalue()"},
               raises=dict(RA), modifies=[])
    for n in ("check_port_forward_request", "cancel_port_forward_request", "check_global_request",
              "check_channel_direct_tcpip_request", "check_channel_request", "check_channel_pty_request",
              "check_channel_shell_request", "check_channel_env_request", "check_channel_exec_request",
              "check_channel_subsystem_request", "check_channel_window_change_request", "check_channel_x11_request",
              "check_channel_forward_agent_request"):
        E.contract("Server." + n, argnames=["self", "a", "b", "c", "d", "e", "f"],
                   returns="union[bool,int]" if n.startswith("check_port") else ("int" if n in ("check_channel_request", "check_channel_direct_tcpip_request") else "bool"),
                   ghost={"consult_count": "ghost('consult_count') + 1"})
    E.contract(T + "_next_channel", returns="u24", modifies=["self._channel_counter"])
    E.contract("paramiko.channel.Channel.__init__", returns="none", ghost={"channels_created": "ghost('channels_created') + 1"})
    for n in ("_set_transport", "_set_window", "_set_remote_channel"):
        E.contract("paramiko.channel.Channel." + n, returns="none")
    E.contract("paramiko.transport.ChannelMap.put", returns="none")
    E.contract("SeenMap.__setitem__", argnames=["self", "k", "v"], returns="none")
    E.contract(T + "_queue_incoming_channel", returns="none")
    E.opaque_contracts["callable"] = dict(argnames=["self", "a", "b", "c"], returns="none",
                                          raises={"Exception": {"when": "True", "ghost": {"handler_calls": "ghost('handler_calls') + 1"}}},
                                          ghost={"handler_calls": "ghost('handler_calls') + 1"})
    E.contract(T + "_parse_global_request", params={"m": "obj:Message"},
               requires={"msg_pos": "0 <= m.packet.tell() and m.packet.tell() <= len(m.packet.getvalue())"},
               ensures={
                   "client_never_consults_anything": "implies(not self.server_mode, ghost('consult_count') == old(ghost('consult_count')))",
                   "client_answers_only_REQUEST_FAILURE":
                       "implies(not self.server_mode, (ghost('sent_count') == old(ghost('sent_count')) + 1 and ghost('last_sent') == b'\\x52')"
                       " if local('want_reply', False) else ghost('sent_count') == old(ghost('sent_count')))",
               },
               returns="none", raises=dict(RA, UnicodeDecodeError="True", AttributeError="self.server_mode and isnone(self.server_object)"),
               modifies=None)
    # the switch for forwarded-tcpip is turned on only by a port-forward request the server granted
    E.contract(T + "global_request", params={"kind": "str", "data": "any", "wait": "bool"}, returns="opt[obj:Message]",
               ensures=["(0 <= result.packet.tell() and result.packet.tell() <= len(result.packet.getvalue())) if notnone(result) else True"],
               ghost={"request_granted": "notnone(result)"}, raises=dict(RA), modifies=[])
    E.declare_ghost(request_granted="bool")
    E.contract(T + "request_port_forward", params={"address": "str", "port": "int", "handler": "opt[callable]"},
               requires={"fresh": "not ghost('request_granted')"},
               ensures={"handler_installed_only_after_the_server_granted_the_forward": "ghost('request_granted')"},
               raises={"SSHException": {"when": "True", "ensures": [
                   # a refused / failed request leaves forwarded-tcpip channels disabled exactly as before
                   "same_handler(self._tcp_handler, old(self._tcp_handler))"]},
                   "EOFError": {"when": "True", "ensures": ["same_handler(self._tcp_handler, old(self._tcp_handler))"]},
                   "OSError": {"when": "True", "ensures": ["same_handler(self._tcp_handler, old(self._tcp_handler))"]}},
               returns="int", modifies=["self._tcp_handler"])
    ENABLED = ("((local('kind', '') == 'x11' and notnone(self._x11_handler))"
               " or (local('kind', '') == 'auth-agent@openssh.com' and notnone(self._forward_agent_handler))"
               " or (local('kind', '') == 'forwarded-tcpip' and notnone(self._tcp_handler)))")
    E.contract(T + "_parse_channel_open", params={"m": "obj:Message"},
               requires={"msg_pos": "0 <= m.packet.tell() and m.packet.tell() <= len(m.packet.getvalue())",
                         "client_mode": "not self.server_mode"},
               held=[],
               ensures={
                   "client_creates_a_channel_only_for_a_kind_it_enabled":
                       "implies(not self.server_mode and ghost('channels_created') != old(ghost('channels_created')), %s)" % ENABLED,
                   "client_never_consults_a_server_object": "implies(not self.server_mode, ghost('consult_count') == old(ghost('consult_count')))",
                   "otherwise_refused_with_OPEN_FAILURE_administratively_prohibited":
                       "implies(not self.server_mode and not %s, ghost('channels_created') == old(ghost('channels_created'))"
                       " and ghost('sent_count') == old(ghost('sent_count')) + 1 and ghost('last_sent')[0:1] == b'\\x5c'"
                       " and ghost('last_sent')[5:9] == pack32(1))" % ENABLED,
               },
               returns="none", raises=dict(RA, UnicodeDecodeError="True", Exception="ghost('handler_calls') != old(ghost('handler_calls'))",
                                           AttributeError="self.server_mode and isnone(self.server_object)"),
               modifies=None)
    E.declare_class("paramiko.channel.Channel", {"status_event": "opaque:Event", "exit_status": "int", "event": "opaque:Event",
                                                 "event_ready": "bool"})
    E.contract("paramiko.channel.Channel._handle_request", params={"m": "obj:Message"},
               requires={"msg_pos": "0 <= m.packet.tell() and m.packet.tell() <= len(m.packet.getvalue())",
                         "no_server_object": "isnone(self.transport.server_object)"},
               ensures={
                   "without_a_server_object_nothing_is_consulted":
                       "implies(isnone(self.transport.server_object), ghost('consult_count') == old(ghost('consult_count')))",
                   "without_a_server_object_commands_shells_subsystems_terminals_are_refused":
                       "implies(isnone(self.transport.server_object) and local('want_reply', False)"
                       " and local('key', '') != 'exit-status' and local('key', '') != 'xon-xoff',"
                       " ghost('user_sent_count') == old(ghost('user_sent_count')) + 1 and ghost('user_sent')[0:1] == b'\\x64')",
               },
               returns="none", raises=dict(RA, UnicodeDecodeError="True"), modifies=None)


def declare_c10(E):
    """one iteration of the dispatch loop: a pending re-key request is acted on before the next packet is read"""
    declare(E)
    declare_runloop(E)
    generic_handlers(E)
    E.inline("paramiko.auth_handler.AuthHandler._handler_table", "paramiko.auth_handler.AuthHandler._server_handler_table",
             "paramiko.auth_handler.AuthHandler._client_handler_table")
    E.declare_ghost(kex_sent="int", kex_sent_at_read="int", reads="int")
    E.contract("paramiko.packet.Packetizer.need_rekey", returns="bool", modifies=[],
               ensures=["result == self._Packetizer__need_rekey"])
    E.contract(T + "_send_kex_init", returns="none",
               ghost={"kex_sent": "ghost('kex_sent') + 1", "kex_sent_at_read": "ghost('reads')"},
               cases=[dict(name="exchange_started", when="True", post={"self.in_kex": "True"})],
               raises={"SSHException": "True", "EOFError": "True", "OSError": "True"}, modifies=["self.in_kex"])
    c = E.contracts["paramiko.packet.Packetizer.read_message"]
    c["ghost"] = {"reads": "ghost('reads') + 1"}
    E.contract(RUN_ITER, params={"self": "obj:Transport"},
               requires={"active": "self.active"},
               ghosts={"kex_sent": "int", "kex_sent_at_read": "int", "reads": "int"},
               ensures={
                   "pending_rekey_request_starts_a_key_exchange_before_the_next_read":
                       "implies(old(self.packetizer._Packetizer__need_rekey) and not old(self.in_kex),"
                       " ghost('kex_sent') >= old(ghost('kex_sent')) + 1 and ghost('kex_sent_at_read') == old(ghost('reads')))",
               },
               raises={"SSHException": "True", "EOFError": "True", "OSError": "True"})


# ---------------------------------------------------------------------------------------------------------- C09
def declare_c09(E, expected_len=1):
    """strict key exchange: mechanism pieces"""
    declare(E)
    declare_runloop(E, expected_packet_type="tuple[%s]" % ",".join(["u8"] * expected_len))
    generic_handlers(E)
    E.inline("paramiko.auth_handler.AuthHandler._handler_table", "paramiko.auth_handler.AuthHandler._server_handler_table",
             "paramiko.auth_handler.AuthHandler._client_handler_table")
    E.declare_ghost(ptype="int", seqno="int", got_message="bool", kex_dispatches="int")
    c = E.contracts["paramiko.packet.Packetizer.read_message"]
    c["ghost"] = {"ptype": "result[0]", "seqno": "result[1].seqno", "got_message": "True"}
    E.contract("KexEngine.parse_next", argnames=["self", "ptype", "m"], returns="none", raises=dict(GENERIC_RAISES),
               ghost={"kex_dispatches": "ghost('kex_dispatches') + 1"})
    # _enforce_strict_kex: its own contract (verified), also what the loop fragment relies on
    E.contract(T + "_enforce_strict_kex", params={"ptype": "int"},
               ensures={"returns_only_outside_a_strict_initial_exchange": "not (self.agreed_on_strict_kex and not self.initial_kex_done)"},
               raises={"MessageOrderError": "self.agreed_on_strict_kex and not self.initial_kex_done"},
               returns="none", modifies=[])
    E.contract(T + "_parse_debug", params={"m": "obj:Message"}, returns="none", raises=dict(GENERIC_RAISES), modifies=[])
    E.contract(T + "_parse_disconnect", params={"m": "obj:Message"}, returns="none", raises=dict(GENERIC_RAISES), modifies=[])
    IN_EXPECTED = " or ".join("ghost('ptype') == old(self._expected_packet)[%d]" % i for i in range(expected_len))
    E.contract(RUN_ITER, params={"self": "obj:Transport"},
               requires={"active": "self.active",
                         "strict_mode_agreed_and_first_exchange_unfinished": "self.agreed_on_strict_kex and not self.initial_kex_done",
                         "a_key_exchange_packet_is_expected": "len(self._expected_packet) == %d" % expected_len,
                         "nothing_read_yet": "not ghost('got_message')"},
               ghosts={"ptype": "int", "seqno": "int", "got_message": "bool", "kex_dispatches": "int", "handler_calls": "int",
                       "sent_count": "int"},
               ensures={
                   # the iteration runs to its end (or leaves the loop through DISCONNECT) only for the expected packet
                   "anything_but_the_expected_packet_ends_the_connection":
                       "implies(ghost('got_message'), (%s) or (ghost('ptype') == 1 and ghost('loop_exit') == 'break'))" % IN_EXPECTED,
                   "nothing_is_dispatched_or_answered_for_an_unexpected_packet":
                       "implies(ghost('got_message') and not (%s), ghost('kex_dispatches') == old(ghost('kex_dispatches'))"
                       " and ghost('handler_calls') == old(ghost('handler_calls')) and ghost('sent_count') == old(ghost('sent_count')))" % IN_EXPECTED,
               },
               raises={"MessageOrderError": "True", "SSHException": "ghost('got_message') and (%s)" % IN_EXPECTED if False else "True",
                       "EOFError": "True", "OSError": "True"})


# ---------------------------------------------------------------------------------------------------------- C38
def declare_c38(E):
    """whatever the peer sends, one iteration of the dispatch loop ends normally or with SSHException / EOFError / OSError"""
    from contracts import specs
    declare_c15(E)
    # a message handed to the packet layer must have a type byte (send_message reads data[0])
    for fn in ("_send_message", "_send_user_message"):
        if T + fn in E.contracts:
            E.contracts[T + fn] = dict(E.contracts[T + fn], requires={"message_has_a_type_byte": "len(data.packet.getvalue()) >= 1"})
    c = E.contracts[T + "_ensure_authed"]
    c["ensures"] = dict(c["ensures"], refusal_is_a_sendable_message="(len(result.packet.getvalue()) >= 1) if notnone(result) else True")
    E.contract(RUN_ITER, params={"self": "obj:Transport"},
               requires={"active": "self.active"},
               ghosts={"ptype": "int", "seqno": "int", "got_message": "bool", "sent_count": "int", "send_failed": "bool", "handler_calls": "int"},
               ensures={},
               raises={"SSHException": "True", "EOFError": "True", "OSError": "True"})


# ---------------------------------------------------------------------------------------------------------- C11
def _register_event_is_set():
    from pyvc import specfuns
    from pyvc.values import VBool

    @specfuns.register("event_is_set")
    def _event_is_set(I, args, fr):
        ev = args[0]
        k = ("event", ev.t.get_id() if ev.t is not None else id(ev))
        if k not in I.st.ghost:
            I.st.ghost[k] = VBool(I.st.fresh_bool("event_set"))
        return I.st.ghost[k]


def declare_c11(E):
    """_send_user_message: a connection-layer message goes out only while 'clear to send' is set, checked and used under
    clear_to_send_lock (the lock under which _send_kex_init / _negotiate_keys clear it)"""
    _register_event_is_set()
    from contracts import message, specs
    message.declare(E)
    E.declare_class("paramiko.transport.Transport", {
        "active": "bool", "clear_to_send": "opaque:Event", "clear_to_send_lock": "opaque:Lock", "clear_to_send_timeout": "float",
        "_held_user_messages": "opaque:Held"})
    E.declare_ghost(user_msgs_sent="int", event_waits="int", held_back="int", on_own_thread="bool")
    # which thread is running: the transport thread itself (a handler replying to peer traffic, the keepalive) or another
    E.contract("Held.append", argnames=["self", "m"], returns="none", ghost={"held_back": "ghost('held_back') + 1"}, modifies=[])
    E.contract(T + "_send_message", params={"data": "obj:Message"}, returns="none",
               requires={"clear_to_send_is_set_and_its_lock_is_held": "held(self.clear_to_send_lock) and event_is_set(self.clear_to_send)"},
               ghost={"user_msgs_sent": "ghost('user_msgs_sent') + 1"},
               raises={k: {"when": "True", "ghost": {"user_msgs_sent": "ghost('user_msgs_sent') + 1"}}
                       for k in ("EOFError", "OSError", "SSHException")}, modifies=[])
    E.contract(T + "_send_user_message", params={"data": "obj:Message"},
               ensures={"sent_at_most_once": "ghost('user_msgs_sent') <= old(ghost('user_msgs_sent')) + 1",
                        "lock_released": "not held(self.clear_to_send_lock)",
                        # only the transport thread can complete a key exchange: a message it hands over itself (a handler
                        # answering peer traffic that was in flight, the keepalive) never waits for 'clear to send' - it is
                        # sent at once, held back for _parse_newkeys, or dropped because the connection is dead
                        "the_transport_thread_never_waits_for_the_exchange":
                            "implies(ghost('on_own_thread'), ghost('event_waits') == old(ghost('event_waits')))",
                        "what_it_cannot_send_is_held_back_not_lost":
                            "implies(ghost('on_own_thread') and self.active,"
                            " ghost('user_msgs_sent') + ghost('held_back') == old(ghost('user_msgs_sent')) + old(ghost('held_back')) + 1)"},
               loops={0: dict(inv=["not held(self.clear_to_send_lock)", "ghost('user_msgs_sent') == old(ghost('user_msgs_sent'))",
                                   "ghost('held_back') == old(ghost('held_back'))",
                                   "implies(ghost('on_own_thread'), ghost('event_waits') == old(ghost('event_waits')))"],
                              havoc_fields=["self.active"], havoc_ghosts=["event_waits"], vars={})},
               returns="none",
               # on the transport thread the only failure is that of the send itself - never the time-out of a wait
               raises={"SSHException": {"when": "True", "ensures": ["not held(self.clear_to_send_lock)",
                                        "implies(ghost('on_own_thread'), ghost('user_msgs_sent') == old(ghost('user_msgs_sent')) + 1)"]},
                       "EOFError": {"when": "True", "ensures": ["not held(self.clear_to_send_lock)"]},
                       "OSError": {"when": "True", "ensures": ["not held(self.clear_to_send_lock)"]}})


def newkeys_variant(E, name, ensures, requires=None):
    """Transport._parse_newkeys in its own small environment (shared by C16: the server's AuthHandler survives a re-key,
    and C10: the exchange is left on the packetizer's state AFTER both directions have switched)"""
    T = "paramiko.transport.Transport."
    E2 = type(E)()
    E2.auto_opaque = True
    E2.declare_ghost(handlers_created="int", inbound_switched="bool", need_asked_after_switch="bool")
    E2.declare_class("paramiko.transport.Transport", {
        "server_mode": "bool", "auth_handler": "opt[opaque:AuthH]", "initial_kex_done": "bool", "in_kex": "bool",
        "completion_event": "opt[opaque:Event]", "packetizer": "opaque:Pk", "clear_to_send_lock": "opaque:Lock",
        "clear_to_send": "opaque:Gate", "K": "opt[int]", "kex_engine": "opt[opaque:Kex]", "local_kex_init": "opt[bytes]",
        "remote_kex_init": "opt[bytes]", "authenticated": "bool", "_held_user_messages": "opaque:Held"})
    E2.contract(T + "_send_message", argnames=["self", "data"], returns="none", modifies=[],
                raises={"SSHException": "True"})
    E2.contract(T + "_activate_inbound", returns="none", raises={"SSHException": "True"}, modifies=[],
                ghost={"inbound_switched": "True"})
    E2.contract(T + "is_authenticated", returns="bool", modifies=[])
    E2.contract("paramiko.auth_handler.AuthHandler", argnames=["t"], returns="opaque:AuthH", constructor=True,
                ghost={"handlers_created": "ghost('handlers_created') + 1"})
    # the packetizer clears its need-rekey flag when the SECOND direction has switched to the new keys
    E2.contract("Pk.need_rekey", argnames=["self"], returns="bool",
                ghost={"need_asked_after_switch": "ghost('inbound_switched')", "need_answer": "result"})
    E2.declare_ghost(need_answer="bool")
    E2.contract("Pk._initial_kex_done.setter", argnames=["self", "v"], returns="none")
    E2.contract("Event.set", argnames=["self"], returns="none")
    # messages the transport thread could not send during the exchange (Transport._send_user_message holds them back) go out
    # here, under the lock and before 'clear to send' is set: every one of them, each once
    E2.declare_ghost(flushed="int", flushed_after_set="int", gate_open="bool")
    E2.contract("Gate.set", argnames=["self"], returns="none", ghost={"gate_open": "True"}, modifies=[])
    E2.contracts[T + "_send_message"]["ghost"] = {
        "flushed": "ghost('flushed') + 1",
        "flushed_after_set": "ghost('flushed_after_set') + (1 if ghost('gate_open') else 0)"}
    c = dict(params={"m": "opaque:Msg"}, returns="none", raises={"SSHException": "True"}, ensures=dict(ensures),
             requires=dict(requires or {}),
             loops={0: dict(inv=["held(self.clear_to_send_lock)", "ghost('flushed') == old(ghost('flushed')) + local('_idx0', 0)",
                                 "ghost('gate_open') == old(ghost('gate_open'))",
                                 "implies(not old(ghost('gate_open')), ghost('flushed_after_set') == old(ghost('flushed_after_set')))"],
                            havoc_ghosts=["flushed", "flushed_after_set"], vars={})})
    return (T + "_parse_newkeys", name, dict(c, **{
        "+replace": True, "+contracts": dict(E2.contracts), "+fields": {k: dict(d["fields"]) for k, d in E2.classdecl.items()},
        "+engine": {"auto_opaque": True, "opaque_iter": {"Held": "Msg"}, "ghost_types": dict(E.ghost_types, **E2.ghost_types)}}))
