"""Contracts for the key classes' verify_ssh_sig (C35): total, boolean, never raising"""


def declare(E):
    from contracts import message
    message.declare(E)
    message.light_readers(E)
    message.declare_mpint(E)          # full get_mpint contract: _sigdecode must decode r and s as signed mpints
    E.auto_opaque = True
    E.declare_ghost(lib_verify_calls="int")
    # library verification primitives and the exception classes they were observed to raise (probed natively)
    E.contract("NaclVerifyKey.verify", argnames=["self", "data", "sig"], returns="bytes",
               raises={"BadSignatureError": "True", "ValueError": "True"}, ghost={"lib_verify_calls": "ghost('lib_verify_calls') + 1"})
    E.contract("NaclSigningKey.__getattr__", argnames=["self"], returns="opaque:NaclVerifyKey")
    E.contract("CryptoPub.verify", argnames=["self", "a", "b", "c", "d"], returns="none", raises={"InvalidSignature": "True"},
               ghost={"lib_verify_calls": "ghost('lib_verify_calls') + 1"})
    E.contract("CryptoPub.public_key", argnames=["self"], returns="opaque:CryptoPub")
    E.contract("paramiko.ecdsakey.encode_dss_signature", argnames=["r", "s"], returns="bytes",
               raises={"ValueError": "r < 0 or s < 0"})
    E.contract("asn1.encode_dss_signature", argnames=["r", "s"], returns="bytes",
               raises={"ValueError": "r < 0 or s < 0"})
    E.declare_class("paramiko.ed25519key.Ed25519Key", {"_signing_key": "opt[opaque:NaclSigningKey]",
                                                         "_verifying_key": "opt[opaque:NaclVerifyKey]"},
                    invariants=["notnone(self._signing_key) or notnone(self._verifying_key)"])
    E.declare_class("paramiko.rsakey.RSAKey", {"key": "opaque:CryptoPub"})
    E.declare_class("paramiko.ecdsakey.ECDSAKey", {"verifying_key": "opaque:CryptoPub", "ecdsa_curve": "obj:_ECDSACurve"})
    E.declare_class("paramiko.ecdsakey._ECDSACurve", {"key_format_identifier": "str", "hash_object": "opaque:HashCtor"})
    B = "sig"
    L1 = "unpack32(sig[0:4])"
    L2 = "unpack32(sig[4 + %s:8 + %s])" % (L1, L1)
    E.contract("paramiko.ecdsakey.ECDSAKey._sigdecode", params={"sig": "bytes"}, returns="tuple[int,int]",
               ensures={"r_and_s_are_the_two_signed_mpints_of_the_blob":
                        "implies(len(sig) >= 4 and %s <= len(sig) - 8 and %s <= len(sig) - 8 - %s,"
                        " result[0] == tcval(sig[4:4 + %s]) and result[1] == tcval(sig[8 + %s:8 + %s + %s]))" % (L1, L2, L1, L1, L1, L1, L2)},
               raises={}, modifies=[])
    E.opaque_attrs = {"NaclSigningKey": {"verify_key": "opaque:NaclVerifyKey"}, "CryptoPub": {"key_size": "nat"}}
    E.opaque_contracts["HashCtor"] = dict(argnames=["self"], returns="opaque:HashObj")
    POS = {"msg_pos": "0 <= msg.packet.tell() and msg.packet.tell() <= len(msg.packet.getvalue())"}
    common = dict(params={"data": "bytes", "msg": "obj:Message"}, returns="bool",
                  ensures={"answers_true_or_false": "isbool(result)"},
                  raises={},         # never raises, whatever the signature bytes are
                  modifies=["msg.packet.pos"])
    E.contract("paramiko.ed25519key.Ed25519Key.verify_ssh_sig",
               requires=dict(POS, key_material_present="notnone(self._signing_key) or notnone(self._verifying_key)"), **common)
    E.contract("paramiko.rsakey.RSAKey.verify_ssh_sig", requires=dict(POS), **common)
    E.contract("paramiko.ecdsakey.ECDSAKey.verify_ssh_sig", requires=dict(POS), **common)
