"""Contracts for the key classes' verify_ssh_sig (C35): total, boolean, never raising"""


def declare(E):
    from contracts import message
    message.declare(E)
    message.light_readers(E)
    message.declare_mpint(E)          # full get_mpint contract: _sigdecode must decode r and s as signed mpints
    E.auto_opaque = True
    E.declare_ghost(lib_verify_calls="int")
    # library verification primitives and the exception classes they were observed to raise (probed natively)
    E.contract("NaclVerifyKey.verify", argnames=["self", "data", "sig"], returns="bytes",
               raises={"BadSignatureError": "True", "ValueError": "True"}, ghost={"lib_verify_calls": "ghost('lib_verify_calls') + 1"})
    E.contract("NaclSigningKey.__getattr__", argnames=["self"], returns="opaque:NaclVerifyKey")
    E.contract("CryptoPub.verify", argnames=["self", "a", "b", "c", "d"], returns="none", raises={"InvalidSignature": "True"},
               ghost={"lib_verify_calls": "ghost('lib_verify_calls') + 1"})
    E.contract("CryptoPub.public_key", argnames=["self"], returns="opaque:CryptoPub")
    E.contract("paramiko.ecdsakey.encode_dss_signature", argnames=["r", "s"], returns="bytes",
               raises={"ValueError": "r < 0 or s < 0"})
    E.contract("asn1.encode_dss_signature", argnames=["r", "s"], returns="bytes",
               raises={"ValueError": "r < 0 or s < 0"})
    E.declare_class("paramiko.ed25519key.Ed25519Key", {"_signing_key": "opt[opaque:NaclSigningKey]",
                                                         "_verifying_key": "opt[opaque:NaclVerifyKey]"},
                    invariants=["notnone(self._signing_key) or notnone(self._verifying_key)"])
    E.declare_class("paramiko.rsakey.RSAKey", {"key": "opaque:CryptoPub"})
    E.declare_class("paramiko.ecdsakey.ECDSAKey", {"verifying_key": "opaque:CryptoPub", "ecdsa_curve": "obj:_ECDSACurve"})
    E.declare_class("paramiko.ecdsakey._ECDSACurve", {"key_format_identifier": "str", "hash_object": "opaque:HashCtor"})
    B = "sig"
    L1 = "unpack32(sig[0:4])"
    L2 = "unpack32(sig[4 + %s:8 + %s])" % (L1, L1)
    E.contract("paramiko.ecdsakey.ECDSAKey._sigdecode", params={"sig": "bytes"}, returns="tuple[int,int]",
               ensures={"r_and_s_are_the_two_signed_mpints_of_the_blob":
                        "implies(len(sig) >= 4 and %s <= len(sig) - 8 and %s <= len(sig) - 8 - %s,"
                        " result[0] == tcval(sig[4:4 + %s]) and result[1] == tcval(sig[8 + %s:8 + %s + %s]))" % (L1, L2, L1, L1, L1, L1, L2)},
               raises={}, modifies=[])
    E.opaque_attrs = {"NaclSigningKey": {"verify_key": "opaque:NaclVerifyKey"}, "CryptoPub": {"key_size": "nat"}}
    E.opaque_contracts["HashCtor"] = dict(argnames=["self"], returns="opaque:HashObj")
    POS = {"msg_pos": "0 <= msg.packet.tell() and msg.packet.tell() <= len(msg.packet.getvalue())"}
    common = dict(params={"data": "bytes", "msg": "obj:Message"}, returns="bool",
                  ensures={"answers_true_or_false": "isbool(result)"},
                  raises={},         # never raises, whatever the signature bytes are
                  modifies=["msg.packet.pos"])
    E.contract("paramiko.ed25519key.Ed25519Key.verify_ssh_sig",
               requires=dict(POS, key_material_present="notnone(self._signing_key) or notnone(self._verifying_key)"), **common)
    # RSA: what reaches the library.  A signature blob naming one of the key's algorithms is always put to the library
    # (never rejected on its length alone), as the blob's signature left-padded with zero bytes to at least the size of
    # the modulus (ceil(bits / 8): moduli whose bit length is not a multiple of 8 exist)
    E.declare_ghost(last_text="str", last_binary="bytes", lib_sig="bytes", lib_key_bits="int")
    MSG = "paramiko.message.Message."
    E.contracts[MSG + "get_text"] = dict(E.contracts[MSG + "get_text"], ghost={"last_text": "result"})
    E.contracts[MSG + "get_binary"] = dict(E.contracts[MSG + "get_binary"], ghost={"last_binary": "result"})
    G = {"lib_verify_calls": "ghost('lib_verify_calls') + 1", "lib_sig": "a", "lib_key_bits": "self.key_size"}
    E.contract("CryptoPub.verify", argnames=["self", "a", "b", "c", "d"], returns="none",
               raises={"InvalidSignature": {"when": "True", "ghost": dict(G)}}, ghost=dict(G))
    KNOWN = "(ghost('last_text') == 'ssh-rsa' or ghost('last_text') == 'rsa-sha2-256' or ghost('last_text') == 'rsa-sha2-512')"
    PADLEN = "(len(ghost('lib_sig')) - len(ghost('last_binary')))"
    rsa = dict(common)
    rsa["ensures"] = dict(common["ensures"], **{
        "a_signature_naming_one_of_the_keys_algorithms_is_always_put_to_the_library":
            "implies(ghost('lib_verify_calls') == old(ghost('lib_verify_calls')), not %s)" % KNOWN,
        "the_library_gets_the_blobs_signature_left_padded_with_zeros_to_the_size_of_the_modulus":
            "implies(ghost('lib_verify_calls') > old(ghost('lib_verify_calls')),"
            " %s >= 0 and len(ghost('lib_sig')) * 8 >= ghost('lib_key_bits')"
            " and ghost('lib_sig')[%s:] == ghost('last_binary')"
            " and forall(lambda j: implies(0 <= j and j < %s, at(ghost('lib_sig'), j) == 0)))" % (PADLEN, PADLEN, PADLEN),
        "true_only_when_the_library_accepted": "implies(result, ghost('lib_verify_calls') == old(ghost('lib_verify_calls')) + 1)"})
    E.contract("paramiko.rsakey.RSAKey.verify_ssh_sig", requires=dict(POS, no_name_read_yet="ghost('last_text') == ''"), **rsa)
    E.contract("paramiko.ecdsakey.ECDSAKey.verify_ssh_sig", requires=dict(POS), **common)
