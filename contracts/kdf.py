"""Contracts for key derivation (C04): Transport._compute_key, _activate_inbound, _activate_outbound.

Specification function KS(alg, K, H, X, sid, L): the RFC 4253 section 7.2 key stream K1 || K2 || ... cut after the
digest that brings it to length L:
    KS(.., dlen)     = HASH(mpint(K) || H || X || session_id)
    KS(.., L + dlen) = KS(.., L) || HASH(mpint(K) || H || KS(.., L))          (L >= dlen)
(dlen = digest length of HASH).  The key of n bytes is the first n bytes of that stream."""
import z3
from pyvc import smt
from contracts import specs   # registers mpint_spec etc.

T = "paramiko.transport.Transport."

# uf_ names as produced by fn('name', ...) in specification strings
_dg = z3.Function("uf_kdf_digest", smt.Int, smt.Seq, smt.Seq)                 # (alg, data) -> digest
_dl = z3.Function("uf_kdf_dlen", smt.Int, smt.Int)                            # alg -> digest length
_KS = z3.Function("uf_rfc_ks", smt.Int, smt.Seq, smt.Seq, smt.Seq, smt.Int, smt.Seq)   # (alg, prefix, X, sid, L) -> stream
_a, _L = z3.Ints("ka_ kL_")
_P, _X, _S = z3.Consts("kP_ kX_ kS_", smt.Seq)

# prefix = string(mpint(K)) || H, the part every hash input starts with.  Concatenations are written left-nested: that is
# the one shape the rope layer produces for any byte string, however the code associates its + and add_* calls.
KS_AXIOMS = [
    z3.ForAll([_a, _P, _X, _S],
              _KS(_a, _P, _X, _S, _dl(_a)) == _dg(_a, smt.scat(smt.scat(_P, _X), _S)),
              patterns=[_dg(_a, smt.scat(smt.scat(_P, _X), _S))]),
    z3.ForAll([_a, _P, _X, _S, _L],
              z3.Implies(_L >= _dl(_a),
                         _KS(_a, _P, _X, _S, _L + _dl(_a))
                         == smt.scat(_KS(_a, _P, _X, _S, _L), _dg(_a, smt.scat(_P, _KS(_a, _P, _X, _S, _L))))),
              patterns=[_dg(_a, smt.scat(_P, _KS(_a, _P, _X, _S, _L)))]),
    z3.ForAll([_a, _P], smt.slen(_dg(_a, _P)) == _dl(_a), patterns=[_dg(_a, _P)]),
    z3.ForAll([_a], _dl(_a) >= 1, patterns=[_dl(_a)]),
]

PREFIX = "pack32(len(mpint_spec(self.K))) + mpint_spec(self.K) + self.H"
KSF = "fn('rfc_ks', 'bytes', ghost('kdf_alg'), " + PREFIX + ", %s, self.session_id, %s)"


def declare_compute_key(E):
    from contracts import message
    message.declare(E)
    E.declare_ghost(kdf_alg="int", kdf_hashed="bytes", kdf_cur_alg="int")
    E.declare_class("paramiko.transport.Transport", {
        "K": "int", "H": "bytes", "session_id": "bytes", "kex_engine": "obj:KexEngineLike",
        "_logged_hash_selection": "maybe[bool]",
    })
    # the kex engine as far as _compute_key looks at it: an optional hash constructor
    E.declare_class("KexEngineLike", {"hash_algo": "opt[opaque:HashCtor]"})
    # hash constructors: called with the data, produce an object whose digest() is HASH(data)
    E.opaque_contracts["HashCtor"] = dict(argnames=["self", "data"], returns="opaque:KHash",
                                          ghost={"kdf_hashed": "data", "kdf_cur_alg": "opaque_id(self)"},
                                          ensures=["fn('kdf_dlen', 'int', opaque_id(self)) >= 1"])
    E.contract("_hashlib.openssl_sha1", argnames=["data"], returns="opaque:KHash",
               ghost={"kdf_hashed": "data", "kdf_cur_alg": "-1"})
    # (one hash object is live at a time in the code this models, so its accumulated input is one ghost)
    E.contract("KHash.update", argnames=["self", "more"], returns="none", ghost={"kdf_hashed": "ghost('kdf_hashed') + more"})
    E.contract("KHash.digest", argnames=["self"], returns="bytes",
               ensures=["result == fn('kdf_digest', 'bytes', ghost('kdf_cur_alg'), ghost('kdf_hashed'))",
                        "len(result) == fn('kdf_dlen', 'int', ghost('kdf_cur_alg'))",
                        "len(result) >= 1"])
    ALG = "(opaque_id(self.kex_engine.hash_algo) if notnone(self.kex_engine.hash_algo) else -1)"
    KS_OUT = ("fn('rfc_ks', 'bytes', " + ALG + ", " + PREFIX + ", utf8enc(id), self.session_id, %s)")
    E.contract(T + "_compute_key", params={"id": "str", "nbytes": "int"},
               requires={"id_is_one_ascii_letter": "len(id) == 1 and len(utf8enc(id)) == 1",
                         "secret_encodable": "len(mpint_spec(self.K)) < 2**32",
                         "nbytes_nonnegative": "nbytes >= 0"},
               ensures={
                   "length": "len(result) == nbytes",
                   "logged_once_flag": "self._logged_hash_selection == (True if isnone(old(self._logged_hash_selection))"
                                       " else old(self._logged_hash_selection))",
                   "first_nbytes_of_the_RFC_4253_7_2_key_stream":
                       "len(local('out')) >= nbytes and len(local('out')) >= fn('kdf_dlen', 'int', " + ALG + ")"
                       " and result == (" + KS_OUT % "len(local('out'))" + ")[:nbytes]",
               },
               # the accumulator `sofar` is a temporary of today's code: the invariant only says that, if it exists, it
               # equals the stream produced so far
               loops={0: dict(inv=["local('sofar', out) == out",
                                   "len(out) >= fn('kdf_dlen', 'int', " + ALG + ")",
                                   "out == " + KS_OUT % "len(out)"],
                              variant="nbytes - len(out)",
                              havoc_ghosts=["kdf_hashed", "kdf_cur_alg"],
                              vars={"digest": "bytes", "m": "obj:Message"})},
               returns="bytes", modifies=["self._logged_hash_selection"], raises={})


# --------------------------------------------------------------------------------------------------------------
# _activate_inbound / _activate_outbound: which derived key goes where (RFC 4253 section 7.2 letters)
def KDF(letter_expr, n_expr):
    return ("fn('kdf', 'bytes', " + ALG_T + ", " + PREFIX + ", utf8enc(%s), self.session_id, %s)" % (letter_expr, n_expr))


ALG_T = "(opaque_id(self.kex_engine.hash_algo) if notnone(self.kex_engine.hash_algo) else -1)"


def declare_activate(E):
    """the cipher / MAC tables are abstract here: whatever entry the negotiated name selects, its key-size, block-size,
    iv-size, is_aead, MAC size and MAC hash are uninterpreted functions of the name - so the result holds for every
    table, today's included (the real entries are tied to the algorithms' true sizes by table obligations in props/C04)"""
    from contracts import packet
    from pyvc.extract import dec
    declare_compute_key(E)
    packet.declare(E)
    attrs = E.tables["classes"]["paramiko.transport.Transport"]["attrs"]
    comps = [k for k in dec(attrs["_compression_info"])]

    def one_of(names):
        return "union[" + ",".join("const:%r" % n for n in names) + "]"
    E.declare_class("paramiko.transport.Transport", {
        "remote_cipher": "str", "local_cipher": "str", "remote_mac": "str", "local_mac": "str",
        "remote_compression": one_of(comps), "local_compression": one_of(comps),
        "_cipher_info": "opaque:CipherTable", "_mac_info": "opaque:MacTable",
        "server_mode": "bool", "authenticated": "bool", "agreed_on_strict_kex": "bool", "in_kex": "bool",
        "packetizer": "obj:Packetizer", "server_sig_algs": "bool", "_remote_ext_info": "opt[str]",
        "_expected_packet": "tuple[int]",
    })
    E.declare_ghost(eng_key="bytes", eng_iv="bytes", eng_encrypt="bool", eng_aead="bool", eng_id="int", eng_name="str",
                    newkeys_sent="int", sent_total="int", newkeys_pos="int", mac_alg="int")
    E.contract("CipherTable.__getitem__", argnames=["self", "k"], returns="opaque:CipherInfo",
               ensures=["opaque_id(result) == fn('cipher_entry', 'int', k)"])
    E.contract("CipherTable.__contains__", argnames=["self", "k"], returns="bool",
               ensures=["result == fn('cipher_known', 'bool', k)"])

    def info_item(I, env, sf):
        from pyvc import ropes
        k = ropes.conc_value(env["k"])
        if k in ("block-size", "key-size", "iv-size"):
            return I.fresh_of_type("int", "cipher." + k)
        if k in ("class", "mode"):
            return I.fresh_of_type("opaque:AlgoClass" if k == "class" else "opaque:ModeClass", "cipher." + k)
        raise Exception("CipherInfo[%r] is not modelled" % (k,))

    def info_get(I, env, sf):
        from pyvc import ropes
        k = ropes.conc_value(env["k"])
        return I.fresh_of_type("bool" if k == "is_aead" else "int", "cipher." + k)
    E.contract("CipherInfo.__getitem__", argnames=["self", "k"], returns=info_item,
               ensures=["(result == fn('cipher_param', 'int', opaque_id(self), k) and result >= 1) if isint(result) else True"])
    # the cryptography objects _get_engine builds (assumed: the context uses exactly the key / IV / direction given)
    E.opaque_contracts["AlgoClass"] = dict(argnames=["self", "key"], returns="opaque:Algo", ghost={"eng_key": "key"})
    E.opaque_contracts["ModeClass"] = dict(argnames=["self", "iv"], returns="opaque:Mode",
                                           ghost={"eng_iv": "iv if notnone(iv) else b''"})
    E.contract("cryptography.hazmat.primitives.ciphers.base.Cipher", constructor=True,
               argnames=["algorithm", "mode", "backend"], returns="opaque:CipherObj")
    E.contract("cryptography.hazmat.backends.default_backend", argnames=[], returns="opaque:Backend")
    E.contract("CipherObj.encryptor", argnames=["self"], returns="opaque:CipherCtx", ghost={"eng_encrypt": "True"})
    E.contract("CipherObj.decryptor", argnames=["self"], returns="opaque:CipherCtx", ghost={"eng_encrypt": "False"})
    E.contract("CipherInfo.get", argnames=["self", "k", "default"], returns=info_get,
               ensures=["(result == fn('cipher_aead', 'bool', opaque_id(self))) if k == 'is_aead' else"
                        " (result == (fn('cipher_param', 'int', opaque_id(self), k)"
                        "             if fn('cipher_has', 'bool', opaque_id(self), k) else default))",
                        "True if k == 'is_aead' else (implies(fn('cipher_has', 'bool', opaque_id(self), k), result >= 1))"])
    E.contract("MacTable.__getitem__", argnames=["self", "k"], returns="opaque:MacInfo",
               ensures=["opaque_id(result) == fn('mac_entry', 'int', k)"])

    def mac_item(I, env, sf):
        from pyvc import ropes
        k = ropes.conc_value(env["k"])
        if k == "size":
            return I.fresh_of_type("int", "mac.size")
        if k == "class":
            return I.fresh_of_type("opaque:HashCtor", "mac.class")
        raise Exception("MacInfo[%r] is not modelled" % (k,))
    E.contract("MacInfo.__getitem__", argnames=["self", "k"], returns=mac_item,
               ensures=["(result == fn('mac_size', 'int', opaque_id(self))) if k == 'size' else"
                        " (opaque_id(result) == fn('mac_hash', 'int', opaque_id(self)))"])
    E.opaque_contracts["HashCtor"]["defaults"] = {"data": "b''"}
    E.contracts["_hashlib.openssl_sha1"]["defaults"] = {"data": "b''"}
    E.opaque_attr_specs = {"KHash": {"digest_size": "fn('kdf_dlen', 'int', ghost('kdf_cur_alg'))"}}
    # callers of _compute_key: the key is a function of (hash, K, H, letter, session id, length) - definitional name
    # 'kdf' for "what _compute_key returns"; _compute_key's own contract (verified above) says what that is
    c = E.contracts[T + "_compute_key"]
    c["cases"] = [dict(name="deterministic", when="True", result=KDF("id", "nbytes"),
                       post={"self._logged_hash_selection":
                             "True if isnone(self._logged_hash_selection) else self._logged_hash_selection"})]
    c["caller_ensures"] = ["length"]
    E.contract(T + "_get_engine", params={"name": "str", "key": "bytes", "iv": "opt[bytes]", "operation": "opaque:object",
                                          "aead": "bool"},
               returns="opaque:CipherCtx",
               ghost={"eng_key": "key", "eng_iv": "ghost('eng_iv') if aead else (iv if notnone(iv) else b'')", "eng_name": "name",
                      "eng_encrypt": "same_handler(operation, self._ENCRYPT)", "eng_aead": "aead",
                      "eng_id": "ghost('eng_id') + 1"},
               ensures=["opaque_id(result) == ghost('eng_id')"],
               raises={"SSHException": "not fn('cipher_known', 'bool', name)"}, modifies=[])
    E.contract(T + "_send_message", params={"data": "obj:Message"}, returns="none",
               ghost={"sent_total": "ghost('sent_total') + 1",
                      "newkeys_sent": "ghost('newkeys_sent') + (1 if data.packet.getvalue() == b'\\x15' else 0)",
                      "newkeys_pos": "(ghost('sent_total') + 1) if data.packet.getvalue() == b'\\x15' else ghost('newkeys_pos')"},
               raises={"EOFError": "True", "OSError": "True", "SSHException": "True"}, modifies=[])
    E.contract(T + "_expect_packet", returns="none", modifies=["self._expected_packet"])
    E.contract(T + "preferred_pubkeys", returns="tuple[str,str]", modifies=[])
    E.contract("paramiko.compress.ZlibCompressor", constructor=True, argnames=[], returns="opaque:Compressor")
    E.contract("paramiko.compress.ZlibDecompressor", constructor=True, argnames=[], returns="opaque:Compressor")
    PK = "self.packetizer._Packetizer__"
    E.contract("paramiko.packet.Packetizer.need_rekey", returns="bool", modifies=[],
               ensures=["result == self._Packetizer__need_rekey"])
    declare_setters(E)
    E.contract("paramiko.packet.Packetizer.set_inbound_compressor", params={"compressor": "opaque:Compressor"}, returns="none",
               cases=[dict(name="installed", when="True", post={"self._Packetizer__compress_engine_in": "compressor"})],
               modifies=["self._Packetizer__compress_engine_in"])
    E.contract("paramiko.packet.Packetizer.set_outbound_compressor", params={"compressor": "opaque:Compressor"}, returns="none",
               cases=[dict(name="installed", when="True", post={"self._Packetizer__compress_engine_out": "compressor"})],
               modifies=["self._Packetizer__compress_engine_out"])
    E.contract("paramiko.packet.Packetizer.reset_seqno_in", returns="none", modifies=["self._Packetizer__sequence_number_in"],
               ensures=["self._Packetizer__sequence_number_in == 0"])
    E.contract("paramiko.packet.Packetizer.reset_seqno_out", returns="none", modifies=["self._Packetizer__sequence_number_out"],
               ghost={"seq_out_reset_after": "ghost('sent_total')"},
               ensures=["self._Packetizer__sequence_number_out == 0"])
    E.declare_ghost(seq_out_reset_after="int")

    for d, fn_, cipher, mac in (("in", "_activate_inbound", "self.remote_cipher", "self.remote_mac"),
                                ("out", "_activate_outbound", "self.local_cipher", "self.local_mac")):
        # direction of the traffic these keys protect: client-to-server iff (server and inbound) or (client and outbound)
        c2s = "old(self.server_mode)" if d == "in" else "(not old(self.server_mode))"
        cid = "fn('cipher_entry', 'int', %s)" % cipher
        mid = "fn('mac_entry', 'int', %s)" % mac
        bsz = "fn('cipher_param', 'int', %s, 'block-size')" % cid
        ksz = "fn('cipher_param', 'int', %s, 'key-size')" % cid
        ivsz = "(fn('cipher_param', 'int', %s, 'iv-size') if fn('cipher_has', 'bool', %s, 'iv-size') else %s)" % (cid, cid, bsz)
        aead = "fn('cipher_aead', 'bool', %s)" % cid
        macds = "fn('kdf_dlen', 'int', fn('mac_hash', 'int', %s))" % mid
        ens = {
            "cipher_key_is_RFC_key_C_for_client_to_server_D_for_server_to_client":
                "ghost('eng_key') == " + KDF("('C' if %s else 'D')" % c2s, ksz),
            "cipher_iv_is_RFC_key_A_for_client_to_server_B_for_server_to_client":
                "implies(not %s, ghost('eng_iv') == %s)" % (aead, KDF("('A' if %s else 'B')" % c2s, ivsz)),
            "mac_key_is_RFC_key_E_for_client_to_server_F_for_server_to_client_in_full_digest_length":
                "implies(not %s, %smac_key_%s == %s)" % (aead, PK, d, KDF("('E' if %s else 'F')" % c2s, macds)),
            "aead_nonce_is_the_derived_iv":
                "implies(%s, %siv_%s == %s)" % (aead, PK, d, KDF("('A' if %s else 'B')" % c2s, ivsz)),
            "engine_built_for_the_negotiated_cipher_in_the_right_direction":
                "ghost('eng_name') == %s and ghost('eng_encrypt') == %s and ghost('eng_aead') == %s"
                " and opaque_id(%sblock_engine_%s) == ghost('eng_id')" % (cipher, "True" if d == "out" else "False", aead, PK, d),
            "framing_parameters_from_the_tables":
                "%sblock_size_%s == %s and %saead_%s == %s and %smac_size_%s == (16 if %s else fn('mac_size', 'int', %s))"
                " and %setm_%s == ((not %s) and ('etm@openssh.com' in %s))"
                % (PK, d, bsz, PK, d, aead, PK, d, aead, mid, PK, d, aead, mac),
        }
        # C09: strict key exchange restarts the packet counter of the direction whose keys are switched
        ens["strict_kex_restarts_the_sequence_number_of_this_direction"] = (
            ("implies(old(self.agreed_on_strict_kex), %ssequence_number_in == 0)" % PK) if d == "in" else
            # outbound: the counter is zeroed right after NEWKEYS went out and before anything else is sent
            "implies(old(self.agreed_on_strict_kex), ghost('seq_out_reset_after') == ghost('newkeys_pos'))")
        if d == "out":
            ens["NEWKEYS_is_the_first_message_sent_and_sent_once"] = (
                "ghost('newkeys_sent') == old(ghost('newkeys_sent')) + 1 and ghost('newkeys_pos') == old(ghost('sent_total')) + 1")
        E.contract(T + fn_, requires={"secret_encodable": "len(mpint_spec(self.K)) < 2**32",
                                      "init_count_is_a_2_bit_set": "0 <= self.packetizer._Packetizer__init_count <= 3"},
                   ensures=ens, returns="none",
                   # struct.error: only from encoding the server-sig-algs extension text, whose length is not modelled
                   raises=dict({"EOFError": "True", "OSError": "True", "SSHException": "True"},
                               **({"struct.error": "old(self.server_mode) and old(self.server_sig_algs)"} if d == "out" else {})))


def declare_setters(E):
    """Packetizer.set_inbound_cipher / set_outbound_cipher: install every parameter, zero the traffic counters of that
    direction, clear need_rekey once both directions have been switched"""
    E.declare_class("paramiko.packet.Packetizer", {"_Packetizer__mac_key_in": "opt[bytes]", "_Packetizer__mac_key_out": "opt[bytes]",
                                                   "_Packetizer__init_count": "int"})
    for d, setter in (("in", "set_inbound_cipher"), ("out", "set_outbound_cipher")):
        fields = ["block_engine", "block_size", "mac_engine", "mac_size", "mac_key", "etm", "aead", "iv"]
        post = {}
        for f in fields:
            arg = f if f != "iv" else "iv_" + d
            post["self._Packetizer__%s_%s" % (f, d)] = arg
        if d == "out":
            post["self._Packetizer__sdctr_out"] = "sdctr"
            post["self._Packetizer__sent_bytes"] = "0"
            post["self._Packetizer__sent_packets"] = "0"
        else:
            for f in ("received_bytes", "received_packets", "received_bytes_overflow", "received_packets_overflow"):
                post["self._Packetizer__" + f] = "0"
        bit = 1 if d == "out" else 2
        other = 3 - bit
        post["self._Packetizer__init_count"] = \
            "(0 if (self._Packetizer__init_count == %d or self._Packetizer__init_count == 3) else %d)" % (other, bit)
        post["self._Packetizer__need_rekey"] = ("(False if (self._Packetizer__init_count == %d or self._Packetizer__init_count == 3)"
                                                 " else self._Packetizer__need_rekey)" % other)
        params = {"block_engine": "opaque:CipherCtx", "block_size": "int", "mac_engine": "opt[opaque:HashCtor]", "mac_size": "int",
                  "mac_key": "opt[bytes]", "etm": "bool", "aead": "bool", "iv_" + d: "opt[bytes]"}
        if d == "out":
            params["sdctr"] = "bool"
        E.contract("paramiko.packet.Packetizer." + setter, params=params,
                   requires={"init_count_is_a_2_bit_set": "0 <= self._Packetizer__init_count <= 3"},
                   cases=[dict(name="installs_parameters_and_zeroes_counters", when="True", post=post)],
                   modifies=list(post.keys()), returns="none", raises={})


# _get_engine verified against its own body: the context is built from exactly the key, IV and direction it was given
GET_ENGINE_OWN = dict(
    ghost={},
    ensures={
        "context_keyed_with_the_given_key": "ghost('eng_key') == key",
        "non_aead_context_uses_the_given_iv_and_direction":
            "implies(not aead, ghost('eng_iv') == (iv if notnone(iv) else b'')"
            " and ghost('eng_encrypt') == same_handler(operation, self._ENCRYPT))",
    })
