"""Contracts for prefetched and vectored SFTP reads (C28).

Abstraction.  ghost FILE is the remote file's content (constant while it is read).  The prefetch buffer
SFTPFile._prefetch_data (a dict offset -> bytes) is used through an abstract map type PMap whose operations carry the
data-structure invariant as contracts:
    every stored entry holds true file content at its own key:   PMap[k] == FILE[k : k + len(PMap[k])]
__setitem__ REQUIRES it of what is stored (an obligation at every store site in the real code), __getitem__ ENSURES it of
what is read back (sound because the dict is reached through these operations only: structural obligation in props/C28).
The table of outstanding requests SFTPFile._prefetch_extents (request number -> (offset, length)) is the abstract map
EMap: what is recorded for a request must be what was asked of the server in that request (req_off / req_len are fixed
by SFTPClient._async_request), and the server's answer to request n is FILE[req_off(n) : req_off(n) + k], 1 <= k <=
req_len(n) (a short read is legal), or an EOF status when req_off(n) is at or past the end - the stated assumption on
the server, expressed as the precondition of SFTPFile._async_response."""
F = "paramiko.sftp_file.SFTPFile."
PM_LEN = "fn('pm_len', 'int', ghost('pm_ver'), %s)"
TRUE_AT = "%s == ghost('FILE')[%s:%s + len(%s)] and %s + len(%s) <= len(ghost('FILE'))"


def true_at(v, k):
    return TRUE_AT % (v, k, k, v, k, v)


def declare(E):
    from contracts import message
    message.declare(E)
    E.auto_opaque = True
    E.declare_ghost(FILE="bytes", pm_ver="int", outstanding="int")
    E.declare_class("paramiko.sftp_file.SFTPFile", {
        "sftp": "opaque:Client", "handle": "bytes", "_realpos": "nat", "_pos": "nat", "_closed": "bool",
        "_prefetching": "bool", "_prefetch_done": "bool", "_prefetch_data": "opaque:PMap", "_prefetch_extents": "opaque:EMap",
        "_prefetch_lock": "opaque:Lock", "_saved_exception": "opt[opaque:Exc]", "_reqs": "list[int]",
        "MAX_REQUEST_SIZE": "const:32768"})
    E.opaque_exc = dict(getattr(E, "opaque_exc", {}), Exc="Exception")
    E.opaque_iter = dict(getattr(E, "opaque_iter", {}), PKeys="int")
    # ---- the prefetch buffer as an abstract map carrying its invariant
    E.contract("PMap.keys", argnames=["self"], returns="opaque:PKeys")
    import z3
    from pyvc import ropes, smt
    from pyvc.values import zint

    def entry(I, env, sf):
        """the entry at key k, by the invariant: the slice FILE[k : k + pm_len(version, k)] (as a rope, so that slices
        of it normalise syntactically)"""
        st = I.st
        src = st.ghost.get("FILE")
        if src is None:
            src = I.fresh_of_type("bytes", "ghost.FILE")
            st.ghost["FILE"] = src
            st.ghost_init["FILE"] = src
        ver = st.ghost.get("pm_ver")
        if ver is None:
            ver = I.fresh_of_type("int", "ghost.pm_ver")
            st.ghost["pm_ver"] = ver
            st.ghost_init["pm_ver"] = ver
        k = zint(env["k"].t)
        n = z3.Function("uf_pm_len", smt.Int, smt.Int, smt.Int)(zint(ver.t), k)
        st.assume(z3.And(k >= 0, n >= 0, k + n <= zint(ropes.seq_len(src))))
        return ropes.slice_norm(st, src, k, k + n)
    E.contract("PMap.__getitem__", argnames=["self", "k"], returns=entry)
    E.contract("PMap.__setitem__", argnames=["self", "k", "v"], returns="none",
               requires={"only_true_file_content_is_stored_at_its_own_offset": true_at("v", "k")},
               ghost={"pm_ver": "ghost('pm_ver') + 1"},
               ensures=["len(v) == " + PM_LEN % "k"])
    E.contract("PMap.__delitem__", argnames=["self", "k"], returns="none", ghost={"pm_ver": "ghost('pm_ver') + 1"})
    # ---- lookups
    E.contract(F + "_data_in_prefetch_buffers", params={"offset": "nat"},
               ensures={"a_reported_buffer_covers_the_offset":
                        "True if isnone(result) else (result <= offset and offset < result + " + PM_LEN % "result" + ")"},
               returns="opt[int]", raises={}, modifies=[])
    E.contract(F + "_check_exception", returns="none", raises={"Exception": "True"}, modifies=["self._saved_exception"])
    # answers arrive while the reader waits: the buffer changes (its invariant does not)
    E.contract("Client._read_response", argnames=["self", "waitfor"], returns="tuple[opt[int],opt[obj:Message]]",
               ghost={"pm_ver": "ghost('pm_ver') + 1"},
               raises={"SSHException": "True", "OSError": "True", "EOFError": "True", "Exception": "True"})
    RP = "ghost('FILE')[self._realpos:self._realpos + len(result)]"
    E.contract(F + "_read_prefetch", params={"size": "nat"},
               requires={"a_real_request": "size >= 1"},
               ensures={"buffered_data_is_returned_only_as_the_bytes_at_the_read_position":
                        "True if isnone(result) else (result == " + RP + " and self._realpos + len(result) <= len(ghost('FILE')))",
                        "never_more_than_asked_and_never_nothing": "True if isnone(result) else (1 <= len(result) and len(result) <= size)",
                        "position_untouched": "self._realpos == old(self._realpos)"},
               loops={0: dict(inv=[], havoc_ghosts=["pm_ver"], havoc_fields=["self._prefetch_done", "self._saved_exception", "self._closed"],
                              vars={"offset": "opt[int]"})},
               returns="opt[bytes]", raises={"Exception": "True", "SSHException": "True", "OSError": "True", "EOFError": "True"})


def _ghost(I, name, ty):
    st = I.st
    v = st.ghost.get(name)
    if v is None:
        v = I.fresh_of_type(ty, "ghost." + name)
        st.ghost[name] = v
        st.ghost_init[name] = v
    return v


def declare_answers(E):
    """the request table and the answers: what is recorded for a request is what was asked; the server's answer to request
    n is FILE[req_off(n) : req_off(n) + k] with 1 <= k <= req_len(n) (ASSUMED of the server; a short read is legal)"""
    import z3
    from pyvc import ropes, smt
    from pyvc.values import zint, VTuple, VInt
    OFF = z3.Function("uf_req_off", smt.Int, smt.Int)
    LEN = z3.Function("uf_req_len", smt.Int, smt.Int)
    E.declare_ghost(answer_to="int", retired="int", last_len="int", is_read_answer="bool", status_is_eof="bool", refused="bool")

    def answer(I, env, sf):
        st = I.st
        src = _ghost(I, "FILE", "bytes")
        n = zint(_ghost(I, "answer_to", "int").t)
        k = st.fresh_int("answer_len")
        st.assume(z3.And(OFF(n) >= 0, k >= 1, k <= LEN(n), OFF(n) + k <= zint(ropes.seq_len(src))))
        return ropes.slice_norm(st, src, OFF(n), OFF(n) + k)

    def recorded(I, env, sf):
        n = zint(env["k"].t)
        I.st.assume(z3.And(OFF(n) >= 0, LEN(n) >= 1))
        return VTuple([VInt(OFF(n)), VInt(LEN(n))])
    E.contract("DataMsg.get_string", argnames=["self"], returns=answer)
    E.contract("EMap.__contains__", argnames=["self", "k"], returns="bool")
    E.contract("EMap.__getitem__", argnames=["self", "k"], returns=recorded)
    E.contract("EMap.__setitem__", argnames=["self", "k", "v"], returns="none",
               requires={"recorded_extent_is_what_was_requested":
                         "v[0] == fn('req_off', 'int', k) and v[1] == fn('req_len', 'int', k)"})
    E.contract("EMap.__delitem__", argnames=["self", "k"], returns="none",
               requires={"retires_the_request_being_answered": "k == ghost('answer_to')"},
               ghost={"retired": "ghost('retired') + 1"})
    E.contract("EMap.__len__", argnames=["self"], returns="nat", ghost={"last_len": "result"})
    # the status conversion: returns for OK, EOFError for an EOF status, IOError for every refusal
    E.contract("Client._convert_status", argnames=["self", "msg"], returns="none",
               ensures=["not ghost('status_is_eof') and not ghost('refused')"],
               raises={"EOFError": {"when": "ghost('status_is_eof')"},
                       "OSError": {"when": "ghost('refused') and not ghost('status_is_eof')"}})
    E.contract(F + "_async_response", params={"t": "int", "msg": "opaque:DataMsg", "num": "int"},
               requires={"the_answer_being_delivered": "ghost('answer_to') == num",
                         "a_read_answer_is_not_a_queued_write": "iff(ghost('is_read_answer'), not (num in self._reqs))",
                         "data_answers_only_reads": "implies(t == 103, ghost('is_read_answer'))",
                         "status_kinds": "not (ghost('status_is_eof') and ghost('refused'))"},
               ensures={
                   "every_answer_to_a_prefetch_read_retires_its_request":
                       "implies(ghost('is_read_answer'), ghost('retired') == old(ghost('retired')) + 1)",
                   "an_answer_to_anything_else_retires_nothing":
                       "implies(not ghost('is_read_answer'), ghost('retired') == old(ghost('retired')))",
                   "prefetch_is_done_once_nothing_is_recorded":
                       "implies(ghost('retired') > old(ghost('retired')) and ghost('last_len') == 0, self._prefetch_done)",
                   "end_of_file_is_not_an_error": "implies(t == 101 and ghost('status_is_eof') and ghost('is_read_answer'),"
                                                  " opaque_id(self._saved_exception) == old(opaque_id(self._saved_exception)))",
                   "a_refusal_is_saved": "implies(t == 101 and ghost('refused'), self._saved_exception is not None)",
                   "a_refusal_saved_earlier_is_not_lost":
                       "implies(old(self._saved_exception) is not None, self._saved_exception is not None)",
                   "a_write_answered_with_any_error_status_is_a_refusal":
                       "implies(t == 101 and ghost('status_is_eof') and not ghost('is_read_answer'), self._saved_exception is not None)",
               },
               loops={0: dict(inv=["ghost('retired') == old(ghost('retired'))", "ghost('pm_ver') == old(ghost('pm_ver'))",
                                   "self._prefetch_done == old(self._prefetch_done)"],
                              havoc_ghosts=["last_len"], vars={"offset": "int", "length": "int"})},
               returns="none", raises={"SFTPError": "t != 101 and t != 103"})


def declare_requests(E):
    """who asks for what: prefetch(), readv(), the request thread, and the plain read"""
    import z3
    from pyvc import ropes, smt
    from pyvc.values import zint
    E.opaque_iter = dict(getattr(E, "opaque_iter", {}), Chunks="pair")
    E.declare_ghost(n_rc="int")
    E.declare_class("paramiko.sftp_file.SFTPFile", {"_rbuffer": "bytes"})
    E.opaque_attrs = dict(getattr(E, "opaque_attrs", {}), Attr={"st_size": "nat"})
    # the list of requests being put together (a Python list of (offset, length) pairs): only its length matters here
    E.contract("PairList.append", argnames=["self", "x"], returns="none", ghost={"n_rc": "ghost('n_rc') + 1"})
    E.contract("PairList.__len__", argnames=["self"], returns="int", ensures=["result == ghost('n_rc')"])
    E.contract("PairList.__getitem__", argnames=["self", "i"], returns="tuple[int,int]")
    E.contract(F + "_start_prefetch", params={"chunks": "opaque:PairList", "max_concurrent_requests": "opt[int]"},
               # with nothing to fetch no answer ever arrives, so nothing would ever mark the prefetch done again and
               # the next read of unbuffered bytes would wait forever
               requires={"prefetch_is_restarted_only_with_something_to_fetch": "ghost('n_rc') >= 1"},
               returns="none", modifies=["self._prefetching", "self._prefetch_done"], raises={})
    E.contract(F + "stat", returns="opaque:Attr", raises={"OSError": "True", "SSHException": "True", "EOFError": "True", "SFTPError": "True"})
    E.contract(F + "_data_in_prefetch_requests", params={"offset": "int", "size": "int"}, returns="bool", modifies=[], raises={})
    E.contract("Client._log", argnames=["self", "a", "b"], returns="none")
    E.contract("paramiko.sftp_file.hexlify", argnames=["data"], returns="bytes")
    COH = ("len(self._rbuffer) == self._realpos - self._pos and (True if len(self._rbuffer) == 0 else"
           " (self._realpos <= len(ghost('FILE')) and self._rbuffer == ghost('FILE')[self._pos:self._realpos]))")

    def read_result(I, env, sf):
        """BufferedFile.read(size) on a coherent file: exactly the next size bytes, fewer only at the end of the file
        (verified in stream form under C42; the position form is its restatement with stream = FILE[_realpos:])"""
        st = I.st
        src = _ghost(I, "FILE", "bytes")
        pos = zint(I.E.eval_spec_in(I, "old(self._pos)", sf).t)       # the fields listed under modifies are already havocked
        size = zint(env["size"].t)
        n = zint(ropes.seq_len(src))
        k = st.fresh_int("read_len")
        st.assume(z3.And(k >= 0, k <= size, z3.Implies(pos <= n, pos + k <= n), z3.Implies(pos > n, k == 0),
                         z3.Or(k == size, pos + k >= n)))
        if st.proves(k == 0):
            return ropes.slice_norm(st, src, 0, 0)
        st.assume(pos + k <= n)
        return ropes.slice_norm(st, src, pos, pos + k)
    E.contract("paramiko.file.BufferedFile.read", params={"size": "nat"}, requires={"coherent_read_buffer": COH}, returns=read_result,
               modifies=["self._rbuffer", "self._realpos", "self._pos", "self._prefetching", "self._prefetch_done"],
               ghost={"pm_ver": "ghost('pm_ver') + 1"},
               ensures=["self._pos == old(self._pos) + len(result)", COH],
               raises={"OSError": "True", "SSHException": "True", "SFTPError": "True", "Exception": "True"})
    E.contract("paramiko.file.BufferedFile.flush", returns="none", modifies=[], requires=[], ensures=[COH],
               raises={"OSError": "True", "SSHException": "True", "SFTPError": "True", "Exception": "True"})
    E.contract(F + "_get_size", returns="nat", modifies=[], raises={})
    E.contract(F + "seek", params={"offset": "int", "whence": "int"}, defaults={"whence": "0"},
               requires={"not_before_the_start": "offset >= 0"},
               ensures={"an_absolute_seek_goes_to_the_offset": "implies(whence == 0, self._pos == offset)",
                        "read_ahead_that_is_kept_is_the_files_content_from_the_new_position": COH},
               modifies=["self._rbuffer", "self._realpos", "self._pos"], returns="none",
               raises={"OSError": "True", "SSHException": "True", "SFTPError": "True", "Exception": "True"})
    # the chunk being served is named through the iterable (a parameter), not through the loop's own variable names
    X0, X1 = "local('_item_of_chunks')[0]", "local('_item_of_chunks')[1]"
    BLOCK = ("len(value) <= X1 and (len(value) == X1 or X0 + len(value) >= len(ghost('FILE')))"
             " and (True if len(value) == 0 else value == ghost('FILE')[X0:X0 + len(value)])").replace("X0", X0).replace("X1", X1)
    E.contract(F + "readv", params={"chunks": "opaque:Chunks", "max_concurrent_prefetch_requests": "opt[int]"},
               requires={"no_requests_put_together_yet": "ghost('n_rc') == 0", "coherent_read_buffer": COH,
                         "chunks_are_ranges": "forall(lambda i: implies(0 <= i and i < fn('len_Chunks', 'int', opaque_id(chunks)),"
                                              " fn('elem_Chunks', 'int', opaque_id(chunks), i) >= 0 and fn('elem2_Chunks', 'int', opaque_id(chunks), i) >= 0))"},
               yields={"each_block_is_exactly_the_files_bytes_in_its_own_range_cut_at_the_end_of_the_file": BLOCK},
               loops={0: dict(inv=["ghost('n_rc') >= 0"], havoc_ghosts=["n_rc", "pm_ver"],
                              vars={"read_chunks": "opaque:PairList", "offset": "int", "size": "int", "chunk_size": "int"}),
                      1: dict(inv=["ghost('n_rc') >= 0"], havoc_ghosts=["n_rc"], vars={"offset": "int", "size": "int", "chunk_size": "int"}),
                      2: dict(inv=[COH], havoc_ghosts=["pm_ver"],
                              havoc_fields=["self._rbuffer", "self._realpos", "self._pos", "self._prefetching", "self._prefetch_done"])},
               returns="none", raises={"OSError": "True", "SSHException": "True", "SFTPError": "True", "Exception": "True"})
    E.contract(F + "prefetch", params={"file_size": "opt[nat]", "max_concurrent_requests": "opt[int]"},
               requires={"no_requests_put_together_yet": "ghost('n_rc') == 0"},
               loops={0: dict(inv=["ghost('n_rc') >= 0"], havoc_ghosts=["n_rc"],
                              vars={"chunks": "opaque:PairList", "n": "int", "chunk": "int"})},
               returns="none", raises={"OSError": "True", "SSHException": "True", "EOFError": "True", "SFTPError": "True"})
    # ---- the request thread: what it records for a request number is what it asked for under that number
    E.contract("Client._async_request", argnames=["self", "fileobj", "t", "a", "b", "c"], returns="int",
               ensures=["fn('req_off', 'int', result) == b", "fn('req_len', 'int', result) == c"],
               raises={"OSError": "True", "SSHException": "True", "EOFError": "True"})
    E.contract("paramiko.sftp.int64", argnames=["x"], returns="int", ensures=["result == x"], constructor=True)
    E.contract("time.sleep", argnames=["t"], returns="none")
    E.contract(F + "_prefetch_thread", params={"chunks": "opaque:Chunks", "max_concurrent_requests": "opt[int]"},
               loops={0: dict(inv=[], vars={"offset": "int", "length": "int", "num": "int", "pf_len": "int"}, havoc_ghosts=["last_len"]),
                      1: dict(inv=[], vars={"pf_len": "int"}, havoc_ghosts=["last_len"])},
               returns="none", raises={"OSError": "True", "SSHException": "True", "EOFError": "True"})
    # ---- the plain read: the server's answer to READ(offset, size) is FILE[offset : offset + k], 1 <= k <= size, or EOF
    E.declare_ghost(sync_off="int", sync_len="int")

    def sync_answer(I, env, sf):
        st = I.st
        src = _ghost(I, "FILE", "bytes")
        off, ln = zint(_ghost(I, "sync_off", "int").t), zint(_ghost(I, "sync_len", "int").t)
        k = st.fresh_int("sync_answer_len")
        st.assume(z3.And(off >= 0, k >= 1, k <= ln, off + k <= zint(ropes.seq_len(src))))
        return ropes.slice_norm(st, src, off, off + k)
    E.contract("SyncMsg.get_string", argnames=["self"], returns=sync_answer)
    E.contract("Client._request", argnames=["self", "t", "h", "a", "b"], returns="tuple[int,opaque:SyncMsg]",
               ghost={"sync_off": "a", "sync_len": "b"},
               raises={"EOFError": "True", "OSError": "True", "SSHException": "True"})
    E.contract(F + "_read", params={"size": "nat"},
               requires={"a_real_request": "size >= 1"},
               ensures={"the_bytes_at_the_underlying_position": "result == ghost('FILE')[self._realpos:self._realpos + len(result)]"
                                                                " and self._realpos + len(result) <= len(ghost('FILE'))",
                        "at_most_what_was_asked_and_not_nothing": "1 <= len(result) and len(result) <= size",
                        "position_untouched": "self._realpos == old(self._realpos)"},
               returns="bytes", raises={"EOFError": "True", "OSError": "True", "SSHException": "True", "SFTPError": "True", "Exception": "True"})
