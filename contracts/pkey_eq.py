"""Contracts for C36 (the part within reach): key equality and hashing depend only on the public key material; a new
private key file is created readable and writable by its owner only"""
P = "paramiko.pkey.PKey."


def declare(E):
    from contracts import message, specs
    from pyvc import specfuns
    import z3
    from pyvc import smt
    from pyvc.values import VInt, VOpaque
    message.declare(E)
    E.auto_opaque = True
    E.declare_ghost(open_flags="int", open_mode="int", opened="int", written_after_open="bool", writes="int")
    # the tuple of public material of a key: an abstract value, a function of the key object's public numbers
    for cls in ("paramiko.pkey.PKey",):
        E.contract(cls + "._fields", returns="opaque:Fields", ensures=["opaque_id(result) == fn('public_material', 'int', opaque_id(self))"],
                   modifies=[])
    E.contract("builtins.hash", argnames=["x"], returns="int", ensures=["result == fn('py_hash', 'int', opaque_id(x))"])
    E.contract(P + "__eq__", params={"other": "union[obj:PKey,int]"},
               ensures={"equal_exactly_when_both_are_keys_with_the_same_public_material":
                        "result == (False if isint(other) else"
                        " fn('public_material', 'int', opaque_id(self)) == fn('public_material', 'int', opaque_id(other)))"},
               returns="bool", modifies=[], raises={})
    E.contract(P + "__hash__",
               ensures={"a_function_of_the_public_material_only":
                        "result == fn('py_hash', 'int', fn('public_material', 'int', opaque_id(self)))"},
               returns="int", modifies=[], raises={})
    # ---- what each key class puts into _fields: its algorithm name and its public numbers, nothing else
    E.declare_class("paramiko.rsakey.RSAKey", {"name": "str"})
    E.contract("paramiko.rsakey.RSAKey.public_numbers", returns="opaque:RSAPub", modifies=[],
               ensures=["opaque_id(result) == fn('rsa_pub', 'int', opaque_id(self))"])
    E.opaque_attr_specs = dict(getattr(E, "opaque_attr_specs", {}),
                               RSAPub={"e": "fn('rsa_e', 'int', opaque_id(self))", "n": "fn('rsa_n', 'int', opaque_id(self))"})
    E.contract("paramiko.rsakey.RSAKey._fields", returns="tuple[str,int,int]",
               ensures={"name_and_public_numbers": "result[0] == self.name"
                                                   " and result[1] == fn('rsa_e', 'int', fn('rsa_pub', 'int', opaque_id(self)))"
                                                   " and result[2] == fn('rsa_n', 'int', fn('rsa_pub', 'int', opaque_id(self)))"},
               modifies=[], raises={})
    E.contract("paramiko.rsakey.RSAKey.get_name", inline=True)
    # ---- creating the key file
    E.declare_class("paramiko.pkey.PKey", {})
    E.contract("os.open", argnames=["path", "flags", "mode"], returns="int",
               ghost={"open_flags": "flags", "open_mode": "mode", "opened": "ghost('opened') + 1"}, raises={"OSError": "True"})
    E.contract("os.fdopen", argnames=["fd", "mode"], returns="opaque:FileObj", raises={"OSError": "True"})
    E.contract("FileObj.__enter__", argnames=["self"], returns="opaque:FileObj")
    E.contract("FileObj.__exit__", argnames=["self", "a", "b", "c"], returns="none")
    E.contract(P + "_write_private_key", returns="none",
               ghost={"writes": "ghost('writes') + 1", "written_after_open": "ghost('opened') >= 1"},
               raises={"OSError": "True", "Exception": "True"}, modifies=[])
    E.contract(P + "_write_private_key_file", params={"filename": "str", "key": "opaque:CryptoKey", "format": "opaque:Fmt", "password": "opt[str]"},
               requires={"fresh": "ghost('opened') == 0 and ghost('writes') == 0"},
               ensures={"file_created_for_the_owner_only_before_anything_is_written":
                        "ghost('opened') == 1 and ghost('open_mode') == 0o600 and ghost('open_flags') == (1 | 512 | 64)"
                        " and ghost('writes') == 1 and ghost('written_after_open')"},
               returns="none", raises={"OSError": {"when": "True", "ensures": ["implies(ghost('writes') >= 1, ghost('written_after_open'))"]},
                                       "Exception": {"when": "True", "ensures": ["implies(ghost('writes') >= 1, ghost('written_after_open'))"]}})


def declare_ecdsa_blob(E):
    """ECDSAKey.asbytes: the public blob is string(key format) string(curve name) string(04 || X || Y) with X and Y exactly as
    wide as the curve's field (SEC1 2.3.5: fixed width, leading zero octets kept) - what makes the blob parse back"""
    EK = "paramiko.ecdsakey.ECDSAKey."
    E.declare_class("paramiko.ecdsakey.ECDSAKey", {"verifying_key": "opaque:EcPub", "ecdsa_curve": "obj:_ECDSACurve"})
    E.declare_class("paramiko.ecdsakey._ECDSACurve", {"key_format_identifier": "str", "nist_name": "str"})
    E.opaque_attrs = dict(getattr(E, "opaque_attrs", {}), EcPub={"curve": "opaque:EcCurve"}, EcCurve={"key_size": "int[1,1024]"},
                          EcNums={"x": "nat", "y": "nat"})
    # (assumed of the library: the coordinates are field elements, so they need at most ceil(key_size / 8) octets)
    E.contract("EcPub.public_numbers", argnames=["self"], returns="opaque:EcNums",
               ensures=["fn('octets_of', 'int', result.x) <= (self.curve.key_size + 7) // 8",
                        "fn('octets_of', 'int', result.y) <= (self.curve.key_size + 7) // 8"])
    # the minimal big-endian octets of n (no sign padding): as many as n needs, never more
    E.contract("paramiko.util.deflate_long", argnames=["n", "add_sign_padding"], returns="bytes",
               ensures=["len(result) == fn('octets_of', 'int', n)", "fn('octets_of', 'int', n) >= 0"])
    SIZE = "((self.verifying_key.curve.key_size + 7) // 8)"
    E.contract(EK + "asbytes",
               requires={"names_are_short": "len(self.ecdsa_curve.key_format_identifier) < 256 and len(self.ecdsa_curve.nist_name) < 256"
                                            " and len(utf8enc(self.ecdsa_curve.key_format_identifier)) < 2**32"
                                            " and len(utf8enc(self.ecdsa_curve.nist_name)) < 2**32"},
               ensures={"point_is_04_followed_by_two_coordinates_of_exactly_the_field_width":
                        "len(result) == 4 + len(utf8enc(self.ecdsa_curve.key_format_identifier)) + 4 + len(utf8enc(self.ecdsa_curve.nist_name))"
                        " + 4 + 1 + 2 * %s" % SIZE},
               returns="bytes", raises={}, modifies=[])
