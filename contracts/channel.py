"""Contracts for paramiko/channel.py"""
from pyvc.monitors import Monitor

C = "paramiko.channel.Channel."


def declare(E):
    from contracts import message
    message.declare(E)
    E.declare_class("paramiko.channel.Channel", {
        "lock": "opaque:Lock", "out_buffer_cv": "opaque:Condition",
        "out_window_size": "int", "out_max_packet_size": "int",
        "in_window_size": "int", "in_window_threshold": "int", "in_window_sofar": "int", "in_max_packet_size": "int",
        "closed": "bool", "eof_sent": "bool", "eof_received": "bool", "active": "bool",
        "timeout": "opt[float]", "ultra_debug": "bool", "remote_chanid": "u32", "chanid": "u24",
        "transport": "obj:Transport", "in_buffer": "obj:BufferedPipe", "in_stderr_buffer": "obj:BufferedPipe",
        "combine_stderr": "bool", "logger": "opaque:Logger", "_name": "str",
    })
    E.declare_class("paramiko.transport.Transport", {"default_max_packet_size": "int", "default_window_size": "int"})


def monitor(E):
    """Channel.lock protects the window accounting and the close/eof flags"""
    return Monitor(E, "paramiko.channel.Channel", "lock",
                   fields=["out_window_size", "in_window_sofar", "closed", "eof_sent", "eof_received", "active"],
                   invariant=["self.out_window_size >= 0", "self.in_window_sofar >= 0"],
                   conditions=["out_buffer_cv"],
                   unlocked={
                       C + "_set_remote_channel": "runs on the transport thread before the open is confirmed to the opener",
                       C + "_set_window": "runs before the channel is handed to the application",
                       C + "__init__": "construction",
                   })


def declare_c19(E):
    declare(E)
    monitor(E)
    T = "paramiko.transport.Transport."
    E.declare_ghost(user_sent="bytes", user_sent_count="int")
    E.contract(T + "_send_user_message", params={"data": "obj:Message"}, returns="none",
               ghost={"user_sent": "data.packet.getvalue()", "user_sent_count": "ghost('user_sent_count') + 1"},
               raises={"EOFError": "True", "OSError": "True", "SSHException": "True"}, modifies=[])
    E.contract(T + "_sanitize_packet_size", params={"max_packet_size": "opt[int]"},
               ensures={"floor_4096": "result >= 4096", "cap": "result <= 2**32 - 1",
                        "peer_value_kept_when_in_range": "implies(4096 <= max_packet_size and max_packet_size <= 2**32 - 1,"
                                                         " result == max_packet_size) if notnone(max_packet_size) else True"},
               requires={"default_sane": "self.default_max_packet_size >= 0"},
               returns="int", modifies=[], raises={})
    # ---- sender side
    E.contract(C + "_wait_for_send_window", params={"size": "int"},
               held=["self.lock"],
               requires={"lock_held": "held(self.lock)", "size_nonneg": "size >= 0",
                         "packet_floor": "self.out_max_packet_size >= 4096",
                         "monitor_inv": "self.out_window_size >= 0 and self.in_window_sofar >= 0"},
               ensures={
                   "granted_amount_in_bounds": "0 <= result and result <= size and result <= self.out_max_packet_size - 64",
                   "debited_exactly_what_it_returns": "self.out_window_size == ghost('sync_out_window_size') - result",
                   "window_never_negative": "self.out_window_size >= 0 and self.in_window_sofar >= 0",
                   "zero_only_when_closed_or_eof_or_nothing_asked": "implies(result == 0, self.closed or self.eof_sent or size == 0)",
               },
               pre_hook=_sync_now,
               loops={0: dict(inv=["self.out_window_size >= 0", "self.in_window_sofar >= 0", "self.out_window_size == ghost('sync_out_window_size')",
                                   "held(self.lock)"],
                              havoc_fields=["self.out_window_size", "self.closed", "self.eof_sent", "self.eof_received", "self.active", "self.in_window_sofar"],
                              havoc_ghosts=["sync_out_window_size", "sync_closed", "sync_eof_sent", "sync_eof_received", "sync_active",
                                            "sync_in_window_sofar"],
                              # a waiter woken because the channel closed (or EOF was sent) must stop waiting
                              exit_when="self.closed or self.eof_sent",
                              vars={"timeout": "opt[float]", "then": "float"})},
               raises={"TimeoutError": {"when": "True", "ensures": ["self.out_window_size >= 0", "self.in_window_sofar >= 0"]}},
               returns="int", modifies=["self.out_window_size", "self.closed", "self.eof_sent", "self.eof_received", "self.active", "self.in_window_sofar"])
    E.contract(C + "_send", params={"s": "bytes", "m": "obj:Message"},
               requires={"m_write_pos": "m.packet.tell() == len(m.packet.getvalue())", "fits": "len(s) < 2**31",
                         "packet_floor": "self.out_max_packet_size >= 4096"},
               ensures={
                   "message_carries_exactly_the_debited_bytes":
                       "implies(result > 0, ghost('user_sent') == old(m.packet.getvalue()) + pack32(result) + s[0:result]"
                       " and ghost('user_sent_count') == old(ghost('user_sent_count')) + 1)",
                   "nothing_sent_when_zero": "implies(result == 0, ghost('user_sent_count') == old(ghost('user_sent_count')))",
                   "at_most_max_packet": "0 <= result and result <= self.out_max_packet_size - 64 and result <= len(s)",
               },
               raises={"OSError": "True", "TimeoutError": "True", "EOFError": "True", "SSHException": "True"},
               returns="int")
    E.declare_ghost(last_debit="int")
    E.contract(C + "_window_adjust", params={"m": "obj:Message"},
               requires={"msg_pos": "0 <= m.packet.tell() and m.packet.tell() + 4 <= len(m.packet.getvalue())"},
               ensures={"credit_is_exactly_the_peers_grant":
                        "self.out_window_size == ghost('sync_out_window_size')"
                        " + unpack32(m.packet.getvalue()[old(m.packet.tell()):old(m.packet.tell()) + 4])",
                        # several senders may be parked on the window and one grant may be enough for all of them: every one
                        # is woken (notify_all), not just one - the others would sleep on although there is window (C20)
                        "every_parked_sender_is_woken": "ghost('broadcasts') == old(ghost('broadcasts')) + 1"},
               returns="none", raises={})
    E.declare_ghost(last_credit="int", broadcasts="int")
    E.contract(C + "_set_remote_channel", params={"chanid": "u32", "window_size": "u32", "max_packet_size": "u32"},
               requires={"default_sane": "self.transport.default_max_packet_size >= 0"},
               ensures={"initial_grant": "self.out_window_size == window_size",
                        "packet_floor": "self.out_max_packet_size >= 4096",
                        "peer_max_packet_honoured": "implies(4096 <= max_packet_size, self.out_max_packet_size == max_packet_size)"},
               returns="none", raises={})
    # ---- receiver side
    E.contract(C + "_check_add_window", params={"n": "nat"},
               ensures={"never_credits_more_than_consumed":
                        "result >= 0 and result + self.in_window_sofar <= ghost('sync_in_window_sofar') + n",
                        "sofar_nonneg": "self.in_window_sofar >= 0"},
               returns="int", raises={})


def _sync_now(I, fr):
    """entry of a function that already holds the lock: the current field values are the last synchronisation point"""
    st = I.st
    self_ = fr.locals["self"]
    for m in I.E.monitors.values():
        o = st.heap[self_.ref]
        for f in m.fields:
            st.ghost["sync_" + f] = I.get_field(self_, f, None)


def declare_recv(E):
    """recv / recv_stderr: the WINDOW_ADJUST they send carries exactly what _check_add_window returned for the
    bytes handed to the application"""
    E.declare_class("paramiko.buffered_pipe.BufferedPipe", {})
    E.contract("paramiko.buffered_pipe.BufferedPipe.read", params={"nbytes": "int", "timeout": "opt[float]"},
               returns="bytes", ensures=["len(result) <= nbytes or nbytes < 0"],
               raises={"PipeTimeout": "True"}, modifies=[])
    c = E.contracts[C + "_check_add_window"]
    c["ghost"] = {"last_ack": "result", "acked_for": "n"}
    E.declare_ghost(last_ack="int", acked_for="int")
    for name in ("recv", "recv_stderr"):
        E.contract(C + name, params={"nbytes": "nat"},
                   ensures={
                       "window_credit_counts_exactly_the_bytes_returned": "ghost('acked_for') == len(result)",
                       "adjust_message_carries_that_credit":
                           "implies(ghost('user_sent_count') != old(ghost('user_sent_count')),"
                           " ghost('user_sent') == b'\\x5d' + pack32(self.remote_chanid) + pack32(ghost('last_ack'))"
                           " and ghost('last_ack') > 0 and ghost('user_sent_count') == old(ghost('user_sent_count')) + 1)",
                   },
                   raises={"TimeoutError": "True", "OSError": "True", "EOFError": "True", "SSHException": "True",
                           "struct.error": "ghost('last_ack') >= 2**32"},
                   returns="bytes")


def declare_c20(E):
    """flow-control conservation: every received data byte is either buffered for the application or counted as
    consumed; the receive window is handed back before it can run dry"""
    declare(E)
    E.contract("paramiko.transport.Transport._send_user_message", params={"data": "obj:Message"}, returns="none",
               raises={"EOFError": "True", "OSError": "True", "SSHException": "True"}, modifies=[])
    m = monitor(E)
    m.invariant.append("self.in_window_sofar <= self.in_window_threshold")
    E.declare_class("paramiko.buffered_pipe.BufferedPipe", {})
    E.declare_ghost(fed_total="int", counted_total="int")
    E.contract("paramiko.buffered_pipe.BufferedPipe.feed", params={"data": "bytes"}, returns="none",
               ghost={"fed_total": "ghost('fed_total') + len(data)"}, modifies=[], raises={})
    STR = "m.packet.getvalue()[old(m.packet.tell()) + %d:old(m.packet.tell()) + %d + unpack32(m.packet.getvalue()[old(m.packet.tell()) + %d:old(m.packet.tell()) + %d])]"
    LEN = "unpack32(m.packet.getvalue()[old(m.packet.tell()) + %d:old(m.packet.tell()) + %d])"
    E.contract(C + "_feed", params={"m": "union[obj:Message,bytes]"},
               requires={"well_formed": "True if isbytes(m) else (0 <= m.packet.tell() and len(m.packet.getvalue()) - m.packet.tell() >= 4 and "
                                        "unpack32(m.packet.getvalue()[m.packet.tell():m.packet.tell() + 4]) <= len(m.packet.getvalue()) - m.packet.tell() - 4)"},
               ensures={"all_data_bytes_buffered": "ghost('fed_total') == old(ghost('fed_total')) + (len(m) if isbytes(m) else " + LEN % (0, 4) + ")"},
               returns="none", raises={})
    E.contract(C + "_feed_extended", params={"m": "obj:Message"},
               requires={"threshold_nonneg": "self.in_window_threshold >= 0",
                         "well_formed": "0 <= m.packet.tell() and len(m.packet.getvalue()) - m.packet.tell() >= 8 and "
                                        "unpack32(m.packet.getvalue()[m.packet.tell() + 4:m.packet.tell() + 8]) <= len(m.packet.getvalue()) - m.packet.tell() - 8"},
               ensures={"every_byte_buffered_or_counted":
                        "ghost('fed_total') + ghost('counted_total') == old(ghost('fed_total')) + old(ghost('counted_total')) + " + LEN % (4, 8)},
               returns="none", raises={"EOFError": "True", "OSError": "True", "SSHException": "True",
                                       # a credit >= 2**32 cannot be encoded (needs a receive window that large)
                                       "struct.error": "True"})
    E.contract(C + "_set_window", params={"window_size": "int", "max_packet_size": "int"},
               requires={"positive_window": "window_size >= 1"},
               ensures={"threshold_below_window": "0 <= self.in_window_threshold and self.in_window_threshold < self.in_window_size",
                        "nothing_pending": "self.in_window_sofar == 0"},
               returns="none", raises={})
    E.contract(C + "_check_add_window", params={"n": "nat"},
               requires={"threshold_nonneg": "self.in_window_threshold >= 0"},
               ensures={
                   "exact_accounting_while_open":
                       "implies(not (self.closed or self.eof_received or not self.active),"
                       " result + self.in_window_sofar == ghost('sync_in_window_sofar') + n)",
                   "pending_credit_stays_at_or_below_threshold": "0 <= self.in_window_sofar and self.in_window_sofar <= self.in_window_threshold",
                   "credit_nonneg": "result >= 0",
               },
               ghost={"counted_total": "ghost('counted_total') + n"},
               returns="int", raises={})


def declare_c25(E):
    declare(E)
    E.declare_ghost(delivered="bytes", wait_budget="float")
    # a timeout bounds the WHOLE wait for window, however often the waiter is woken without the window opening: ghost
    # budget = what is left of self.timeout; every Condition.wait(t) must have t <= budget (obligation raised by the wait)
    c = E.contracts[C + "_wait_for_send_window"]
    c["requires"] = dict(c["requires"], the_budget_is_the_timeout="True if isnone(self.timeout) else ghost('wait_budget') == self.timeout")
    lc = dict(c["loops"][0])
    lc["inv"] = list(lc["inv"]) + ["True if isnone(local('timeout', self.timeout)) else local('timeout', self.timeout) <= ghost('wait_budget')"]
    lc["havoc_ghosts"] = list(lc["havoc_ghosts"]) + ["wait_budget"]
    c["loops"] = {0: lc}
    RA = {"OSError": "True", "TimeoutError": "True", "EOFError": "True", "SSHException": "True"}
    for name in ("send", "send_stderr"):
        E.contract(C + name, params={"s": "bytes"},
                   requires={"fits": "len(s) < 2**31"},
                   ensures={"progress_or_stream_closed": "0 <= result and result <= len(s)"},
                   ghost={"delivered": "ghost('delivered') + s[0:result]"},
                   returns="int", raises=dict(RA), modifies=[])
    for name in ("sendall", "sendall_stderr"):
        E.contract(C + name, params={"s": "bytes"},
                   requires={"fits": "len(s) < 2**31"},
                   ensures={"returns_only_after_every_byte_was_handed_over": "ghost('delivered') == old(ghost('delivered')) + s"},
                   loops={0: dict(inv=["ghost('delivered') + s == old(ghost('delivered')) + old(s)", "len(s) < 2**31"],
                                  variant="len(s)", havoc_ghosts=["delivered"], vars={"sent": "int"})},
                   raises=dict(RA), returns="none")


# ---------------------------------------------------------------------------------------------------------- C22
def declare_c22(E):
    """EOF and CLOSE at most once; no data after either; CLOSE answered once"""
    from pyvc import specfuns
    from pyvc.values import VBool
    from contracts import specs   # registers asbytes_spec etc.

    @specfuns.register("any_lock_held")
    def _any_lock_held(I, args, fr):
        return VBool(any(v > 0 for v in I.st.held.values()))
    declare_c19(E)
    T = "paramiko.transport.Transport."
    E.declare_class("paramiko.channel.Channel", {"_pipe": "opt[opaque:Pipe]", "event": "opaque:Event", "status_event": "opaque:Event"})
    E.declare_ghost(data_sent_with_lock_held="bool", unlinked="int", sent_msgs="int", sent_first="bytes", sent_last="bytes")
    E.contract(T + "_send_user_message", params={"data": "obj:Message"}, returns="none",
               ghost={"user_sent": "data.packet.getvalue()", "user_sent_count": "ghost('user_sent_count') + 1",
                      "data_sent_with_lock_held": "any_lock_held()",
                      "sent_first": "data.packet.getvalue() if ghost('sent_msgs') == 0 else ghost('sent_first')",
                      "sent_last": "data.packet.getvalue()", "sent_msgs": "ghost('sent_msgs') + 1"},
               raises={"EOFError": "True", "OSError": "True", "SSHException": "True"}, modifies=[])
    E.contract(T + "_unlink_channel", params={"chanid": "int"}, returns="none", ghost={"unlinked": "ghost('unlinked') + 1"}, modifies=[])
    E.contract("paramiko.buffered_pipe.BufferedPipe.close", returns="none", modifies=[])
    E.contract("Pipe.set_forever", argnames=["self"], returns="none")
    E.contract("Pipe.close", argnames=["self"], returns="none")
    EOF_MSG = "b'\\x60' + pack32(self.remote_chanid)"
    CLOSE_MSG = "b'\\x61' + pack32(self.remote_chanid)"
    E.contract(C + "_set_closed", held=["self.lock"], requires={"lock_held": "held(self.lock)"},
               ensures={"closed": "self.closed"}, returns="none", raises={},
               modifies=["self.closed"])
    E.contract(C + "_send_eof", held=["self.lock"],
               requires={"lock_held": "held(self.lock)"},
               ensures={
                   "eof_message_created_exactly_when_none_was_before": "isnone(result) == old(self.eof_sent)",
                   "eof_marked_sent": "self.eof_sent",
                   "it_is_CHANNEL_EOF_for_the_peers_channel_id":
                       "(result.packet.getvalue() == %s) if notnone(result) else True" % EOF_MSG,
               },
               returns="opt[obj:Message]", raises={}, modifies=["self.eof_sent"])
    E.contract(C + "_close_internal", held=["self.lock"],
               requires={"lock_held": "held(self.lock)"},
               ensures={
                   "close_created_exactly_when_active_and_not_yet_closed":
                       "isnone(result[1]) == (not old(self.active) or old(self.closed))",
                   "it_is_CHANNEL_CLOSE_for_the_peers_channel_id":
                       "(result[1].packet.getvalue() == %s) if notnone(result[1]) else True" % CLOSE_MSG,
                   "eof_precedes_it_unless_already_sent":
                       "isnone(result[0]) == (isnone(result[1]) or old(self.eof_sent))",
                   "channel_marked_closed": "implies(notnone(result[1]), self.closed and self.eof_sent)",
                   "nothing_changes_when_nothing_is_created":
                       "implies(isnone(result[1]), self.closed == old(self.closed) and self.eof_sent == old(self.eof_sent))",
               },
               returns="tuple[opt[obj:Message],opt[obj:Message]]", raises={}, modifies=["self.closed", "self.eof_sent"])
    # no window is granted once EOF or CLOSE has been sent (evaluated with the lock held, at the point of the debit)
    c = E.contracts[C + "_wait_for_send_window"]
    c["ensures"]["nothing_granted_after_EOF_or_CLOSE"] = "implies(result > 0, not self.closed and not self.eof_sent)"
    c = E.contracts[C + "_send"]
    c["ensures"]["data_message_built_only_while_neither_EOF_nor_CLOSE_was_sent"] = \
        "implies(result > 0, not self.closed and not self.eof_sent)"        # field values as of the release of the lock
    # the hand-over to the transport happens after the channel lock is released (deliberately, see the comment in _send):
    # between the two another thread can send EOF / CLOSE, so this obligation does not hold on the pinned tree (known finding)
    c["ensures"]["data_message_handed_to_the_transport_before_the_lock_is_released"] = \
        "implies(result > 0, ghost('data_sent_with_lock_held'))"
    E.contract(C + "_handle_close", params={"m": "obj:Message"},
               ensures={
                   "peers_CLOSE_answered_with_ours_unless_already_sent":
                       "ghost('sent_msgs') - old(ghost('sent_msgs')) == ((0 if (not ghost('sync_active') or ghost('sync_closed')) else"
                       " (1 if ghost('sync_eof_sent') else 2)))",
                   "last_message_is_our_CLOSE":
                       "implies(ghost('sent_msgs') > old(ghost('sent_msgs')), ghost('sent_last') == %s)" % CLOSE_MSG,
                   "channel_released": "ghost('unlinked') == old(ghost('unlinked')) + 1",
               },
               returns="none", raises={"EOFError": "True", "OSError": "True", "SSHException": "True"})


# ---------------------------------------------------------------------------------------------------------- C21
def declare_c21(E):
    """routing of incoming channel data: stdout / stderr streams as ghost byte strings"""
    from pyvc import specfuns
    from pyvc.values import VBool
    from contracts import specs

    @specfuns.register("any_lock_held")
    def _any_lock_held(I, args, fr):
        return VBool(any(v > 0 for v in I.st.held.values()))
    declare(E)
    monitor(E)
    E.declare_class("paramiko.buffered_pipe.BufferedPipe", {})
    E.declare_ghost(out_stream="bytes", err_stream="bytes", err_buffered="bytes", moved_with_lock_held="bool", moves="int",
                    fed_unlocked="int")
    IS_OUT = "opaque_id(self) == ghost('stdout_pipe')"
    E.declare_ghost(stdout_pipe="int", stderr_pipe="int")
    E.contract("paramiko.buffered_pipe.BufferedPipe.feed", params={"data": "bytes"}, returns="none",
               ghost={"out_stream": "(ghost('out_stream') + data) if %s else ghost('out_stream')" % IS_OUT,
                      "err_stream": "ghost('err_stream') if %s else (ghost('err_stream') + data)" % IS_OUT,
                      "err_buffered": "ghost('err_buffered') if %s else (ghost('err_buffered') + data)" % IS_OUT,
                      "fed_unlocked": "ghost('fed_unlocked') + (0 if any_lock_held() else 1)"},
               modifies=[], raises={})
    # empty(): hands out everything still buffered (C26 verifies BufferedPipe itself); only used on the stderr pipe here
    E.contract("paramiko.buffered_pipe.BufferedPipe.empty", returns="bytes",
               cases=[dict(name="everything_buffered", when="True", result="ghost('err_buffered')")],
               ghost={"err_buffered": "b''", "err_stream": "ghost('err_stream')[:len(ghost('err_stream')) - len(ghost('err_buffered'))]"},
               requires={"stderr_pipe": "opaque_id(self) == ghost('stderr_pipe')"}, modifies=[], raises={})
    PIPES = {"pipes": "ghost('stdout_pipe') == opaque_id(self.in_buffer) and ghost('stderr_pipe') == opaque_id(self.in_stderr_buffer)"
                      " and ghost('stdout_pipe') != ghost('stderr_pipe')"}
    E.contract("paramiko.transport.Transport._send_user_message", params={"data": "obj:Message"}, returns="none",
               raises={"EOFError": "True", "OSError": "True", "SSHException": "True"}, modifies=[])
    E.contract(C + "_check_add_window", params={"n": "nat"}, returns="int", raises={}, modifies=["self.in_window_sofar"])
    STR = "m.packet.getvalue()[old(m.packet.tell()) + %d:old(m.packet.tell()) + %d + unpack32(m.packet.getvalue()[old(m.packet.tell()) + %d:old(m.packet.tell()) + %d])]"
    WF = "0 <= m.packet.tell() and len(m.packet.getvalue()) - m.packet.tell() >= %d and unpack32(m.packet.getvalue()[m.packet.tell() + %d:m.packet.tell() + %d]) <= len(m.packet.getvalue()) - m.packet.tell() - %d"
    E.contract(C + "_feed", params={"m": "union[obj:Message,bytes]"},
               requires=dict(PIPES, well_formed="True if isbytes(m) else (" + WF % (4, 0, 4, 4) + ")"),
               ensures={"data_appended_to_the_stdout_stream_and_nothing_else":
                        "ghost('out_stream') == old(ghost('out_stream')) + (m if isbytes(m) else " + STR % (4, 4, 0, 4) + ")"
                        " and ghost('err_stream') == old(ghost('err_stream'))"},
               ghost={"moved_with_lock_held": "any_lock_held()", "moves": "ghost('moves') + 1",
                      "fed_unlocked": "ghost('fed_unlocked') + (0 if any_lock_held() else 1)",
                      "out_stream": "ghost('out_stream') + (m if isbytes(m) else " + STR.replace("old(m.packet.tell())", "m.packet.tell()") % (4, 4, 0, 4) + ")"},
               returns="none", raises={})
    E.contract(C + "_feed_extended", params={"m": "obj:Message"},
               requires=dict(PIPES, well_formed=WF % (8, 4, 8, 8)),
               ensures={
                   "stderr_data_goes_to_the_stderr_stream_or_with_combining_to_stdout":
                       "(ghost('out_stream') == old(ghost('out_stream')) + (" + STR % (8, 8, 4, 8) + " if old(self.combine_stderr) else b'')"
                       " and ghost('err_stream') == old(ghost('err_stream')) + (b'' if old(self.combine_stderr) else " + STR % (8, 8, 4, 8) + "))"
                       " if unpack32(m.packet.getvalue()[old(m.packet.tell()):old(m.packet.tell()) + 4]) == 1 else"
                       " (ghost('out_stream') == old(ghost('out_stream')) and ghost('err_stream') == old(ghost('err_stream')))",
                   # reading combine_stderr and delivering to the chosen buffer are one critical section with
                   # set_combine_stderr's switch-and-move, else data is routed by a stale setting
                   "routing_decision_and_delivery_under_the_channel_lock": "ghost('fed_unlocked') == old(ghost('fed_unlocked'))"},
               returns="none", raises={"EOFError": "True", "OSError": "True", "SSHException": "True", "struct.error": "True"})
    E.contract(C + "set_combine_stderr", params={"combine": "bool"},
               requires=dict(PIPES, unread_stderr_is_the_tail_of_the_stream=
                             "len(ghost('err_buffered')) <= len(ghost('err_stream'))"
                             " and ghost('err_stream')[len(ghost('err_stream')) - len(ghost('err_buffered')):] == ghost('err_buffered')"),
               ensures={
                   "returns_previous_setting_and_installs_the_new": "result == old(self.combine_stderr) and self.combine_stderr == combine",
                   "unread_stderr_data_moves_to_the_end_of_stdout_when_switching_on":
                       "(ghost('out_stream') == old(ghost('out_stream')) + old(ghost('err_buffered')) and len(ghost('err_buffered')) == 0)"
                       " if (combine and not old(self.combine_stderr)) else"
                       " (ghost('out_stream') == old(ghost('out_stream')) and ghost('err_buffered') == old(ghost('err_buffered')))",
                   # failed on the pinned tree (repaired, see known_findings.json): the lock was dropped between emptying
                   # stderr and feeding stdout
                   "the_move_happens_inside_the_critical_section":
                       "implies(ghost('moves') > old(ghost('moves')), ghost('moved_with_lock_held'))",
               },
               returns="bool", raises={})


# ---------------------------------------------------------------------------------------------------------- C11
def declare_c11(E):
    """user messages are handed to the transport outside the channel lock: _send_user_message may block for the whole
    key re-exchange, and the transport thread needs the channel lock in its handlers to get through that exchange"""
    declare_c22(E)
    declare_recv(E)
    T = "paramiko.transport.Transport."
    c = E.contracts[T + "_send_user_message"]
    c["requires"] = {"no_channel_lock_held_while_waiting_for_the_transport": "not any_lock_held()"}
    for name in ("close", "_request_failed"):
        E.contract(C + name, params={"m": "obj:Message"} if name == "_request_failed" else {}, returns="none",
                   raises={"EOFError": "True", "OSError": "True", "SSHException": "True"})
    E.contract(C + "shutdown", params={"how": "int"}, returns="none",
               raises={"EOFError": "True", "OSError": "True", "SSHException": "True"})
    E.contract(C + "_feed_extended", params={"m": "obj:Message"},
               requires={"well_formed": "0 <= m.packet.tell() and len(m.packet.getvalue()) - m.packet.tell() >= 8 and "
                                        "unpack32(m.packet.getvalue()[m.packet.tell() + 4:m.packet.tell() + 8]) <= len(m.packet.getvalue()) - m.packet.tell() - 8"},
               returns="none", raises={"EOFError": "True", "OSError": "True", "SSHException": "True", "struct.error": "True"})
    E.contract("paramiko.buffered_pipe.BufferedPipe.feed", params={"data": "bytes"}, returns="none", modifies=[], raises={})
    for name in ("recv", "recv_stderr"):
        # the window-accounting clauses of these two are C19's; here only the call-site precondition is of interest
        E.contracts[C + name] = dict(E.contracts[C + name], ensures={},
                                     raises={"TimeoutError": "True", "OSError": "True", "EOFError": "True", "SSHException": "True",
                                             "struct.error": "True"})
    for mon in E.monitors.values():
        # shutdown(0|2) sets eof_received without the lock ("feign read shutdown"): a benign race, irrelevant here
        mon.unlocked[C + "shutdown"] = "flag write outside the lock in the real code; not part of this property"
    # _send's own C22 clause about the lock is the opposite requirement (a known finding there); here only the call-site
    # precondition matters
    c = E.contracts[C + "_send"]
    c["ensures"] = {k: v for k, v in c["ensures"].items() if k != "data_message_handed_to_the_transport_before_the_lock_is_released"}
