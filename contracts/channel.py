"""Contracts for paramiko/channel.py"""
from pyvc.monitors import Monitor

C = "paramiko.channel.Channel."


def declare(E):
    from contracts import message
    message.declare(E)
    E.declare_class("paramiko.channel.Channel", {
        "lock": "opaque:Lock", "out_buffer_cv": "opaque:Condition",
        "out_window_size": "int", "out_max_packet_size": "int",
        "in_window_size": "int", "in_window_threshold": "int", "in_window_sofar": "int", "in_max_packet_size": "int",
        "closed": "bool", "eof_sent": "bool", "eof_received": "bool", "active": "bool",
        "timeout": "opt[float]", "ultra_debug": "bool", "remote_chanid": "u32", "chanid": "u24",
        "transport": "obj:Transport", "in_buffer": "obj:BufferedPipe", "in_stderr_buffer": "obj:BufferedPipe",
        "combine_stderr": "bool", "logger": "opaque:Logger", "_name": "str",
    })
    E.declare_class("paramiko.transport.Transport", {"default_max_packet_size": "int", "default_window_size": "int"})


def monitor(E):
    """Channel.lock protects the window accounting and the close/eof flags"""
    return Monitor(E, "paramiko.channel.Channel", "lock",
                   fields=["out_window_size", "in_window_sofar", "closed", "eof_sent", "eof_received", "active"],
                   invariant=["self.out_window_size >= 0", "self.in_window_sofar >= 0"],
                   conditions=["out_buffer_cv"],
                   unlocked={
                       C + "_set_remote_channel": "runs on the transport thread before the open is confirmed to the opener",
                       C + "_set_window": "runs before the channel is handed to the application",
                       C + "__init__": "construction",
                   })


def declare_c19(E):
    declare(E)
    monitor(E)
    T = "paramiko.transport.Transport."
    E.declare_ghost(user_sent="bytes", user_sent_count="int")
    E.contract(T + "_send_user_message", params={"data": "obj:Message"}, returns="none",
               ghost={"user_sent": "data.packet.getvalue()", "user_sent_count": "ghost('user_sent_count') + 1"},
               raises={"EOFError": "True", "OSError": "True", "SSHException": "True"}, modifies=[])
    E.contract(T + "_sanitize_packet_size", params={"max_packet_size": "opt[int]"},
               ensures={"floor_4096": "result >= 4096", "cap": "result <= 2**32 - 1",
                        "peer_value_kept_when_in_range": "implies(4096 <= max_packet_size and max_packet_size <= 2**32 - 1,"
                                                         " result == max_packet_size) if notnone(max_packet_size) else True"},
               requires={"default_sane": "self.default_max_packet_size >= 0"},
               returns="int", modifies=[], raises={})
    # ---- sender side
    E.contract(C + "_wait_for_send_window", params={"size": "int"},
               held=["self.lock"],
               requires={"lock_held": "held(self.lock)", "size_nonneg": "size >= 0",
                         "packet_floor": "self.out_max_packet_size >= 4096",
                         "monitor_inv": "self.out_window_size >= 0 and self.in_window_sofar >= 0"},
               ensures={
                   "granted_amount_in_bounds": "0 <= result and result <= size and result <= self.out_max_packet_size - 64",
                   "debited_exactly_what_it_returns": "self.out_window_size == ghost('sync_out_window_size') - result",
                   "window_never_negative": "self.out_window_size >= 0 and self.in_window_sofar >= 0",
                   "zero_only_when_closed_or_eof_or_nothing_asked": "implies(result == 0, self.closed or self.eof_sent or size == 0)",
               },
               pre_hook=_sync_now,
               loops={0: dict(inv=["self.out_window_size >= 0", "self.in_window_sofar >= 0", "self.out_window_size == ghost('sync_out_window_size')",
                                   "held(self.lock)"],
                              havoc_fields=["self.out_window_size", "self.closed", "self.eof_sent", "self.eof_received", "self.active", "self.in_window_sofar"],
                              havoc_ghosts=["sync_out_window_size", "sync_closed", "sync_eof_sent", "sync_eof_received", "sync_active",
                                            "sync_in_window_sofar"],
                              # a waiter woken because the channel closed (or EOF was sent) must stop waiting
                              exit_when="self.closed or self.eof_sent",
                              vars={"timeout": "opt[float]", "then": "float"})},
               raises={"TimeoutError": {"when": "True", "ensures": ["self.out_window_size >= 0", "self.in_window_sofar >= 0"]}},
               returns="int", modifies=["self.out_window_size", "self.closed", "self.eof_sent", "self.eof_received", "self.active", "self.in_window_sofar"])
    E.contract(C + "_send", params={"s": "bytes", "m": "obj:Message"},
               requires={"m_write_pos": "m.packet.tell() == len(m.packet.getvalue())", "fits": "len(s) < 2**31",
                         "packet_floor": "self.out_max_packet_size >= 4096"},
               ensures={
                   "message_carries_exactly_the_debited_bytes":
                       "implies(result > 0, ghost('user_sent') == old(m.packet.getvalue()) + pack32(result) + s[0:result]"
                       " and ghost('user_sent_count') == old(ghost('user_sent_count')) + 1)",
                   "nothing_sent_when_zero": "implies(result == 0, ghost('user_sent_count') == old(ghost('user_sent_count')))",
                   "at_most_max_packet": "0 <= result and result <= self.out_max_packet_size - 64 and result <= len(s)",
               },
               raises={"OSError": "True", "TimeoutError": "True", "EOFError": "True", "SSHException": "True"},
               returns="int")
    E.declare_ghost(last_debit="int")
    E.contract(C + "_window_adjust", params={"m": "obj:Message"},
               requires={"msg_pos": "0 <= m.packet.tell() and m.packet.tell() + 4 <= len(m.packet.getvalue())"},
               ensures={"credit_is_exactly_the_peers_grant":
                        "self.out_window_size == ghost('sync_out_window_size')"
                        " + unpack32(m.packet.getvalue()[old(m.packet.tell()):old(m.packet.tell()) + 4])"},
               returns="none", raises={})
    E.declare_ghost(last_credit="int")
    E.contract(C + "_set_remote_channel", params={"chanid": "u32", "window_size": "u32", "max_packet_size": "u32"},
               requires={"default_sane": "self.transport.default_max_packet_size >= 0"},
               ensures={"initial_grant": "self.out_window_size == window_size",
                        "packet_floor": "self.out_max_packet_size >= 4096",
                        "peer_max_packet_honoured": "implies(4096 <= max_packet_size, self.out_max_packet_size == max_packet_size)"},
               returns="none", raises={})
    # ---- receiver side
    E.contract(C + "_check_add_window", params={"n": "nat"},
               ensures={"never_credits_more_than_consumed":
                        "result >= 0 and result + self.in_window_sofar <= ghost('sync_in_window_sofar') + n",
                        "sofar_nonneg": "self.in_window_sofar >= 0"},
               returns="int", raises={})


def _sync_now(I, fr):
    """entry of a function that already holds the lock: the current field values are the last synchronisation point"""
    st = I.st
    self_ = fr.locals["self"]
    for m in I.E.monitors.values():
        o = st.heap[self_.ref]
        for f in m.fields:
            st.ghost["sync_" + f] = I.get_field(self_, f, None)


def declare_recv(E):
    """recv / recv_stderr: the WINDOW_ADJUST they send carries exactly what _check_add_window returned for the
    bytes handed to the application"""
    E.declare_class("paramiko.buffered_pipe.BufferedPipe", {})
    E.contract("paramiko.buffered_pipe.BufferedPipe.read", params={"nbytes": "int", "timeout": "opt[float]"},
               returns="bytes", ensures=["len(result) <= nbytes or nbytes < 0"],
               raises={"PipeTimeout": "True"}, modifies=[])
    c = E.contracts[C + "_check_add_window"]
    c["ghost"] = {"last_ack": "result", "acked_for": "n"}
    E.declare_ghost(last_ack="int", acked_for="int")
    for name in ("recv", "recv_stderr"):
        E.contract(C + name, params={"nbytes": "nat"},
                   ensures={
                       "window_credit_counts_exactly_the_bytes_returned": "ghost('acked_for') == len(result)",
                       "adjust_message_carries_that_credit":
                           "implies(ghost('user_sent_count') != old(ghost('user_sent_count')),"
                           " ghost('user_sent') == b'\\x5d' + pack32(self.remote_chanid) + pack32(ghost('last_ack'))"
                           " and ghost('last_ack') > 0 and ghost('user_sent_count') == old(ghost('user_sent_count')) + 1)",
                   },
                   raises={"TimeoutError": "True", "OSError": "True", "EOFError": "True", "SSHException": "True",
                           "struct.error": "ghost('last_ack') >= 2**32"},
                   returns="bytes")


def declare_c20(E):
    """flow-control conservation: every received data byte is either buffered for the application or counted as
    consumed; the receive window is handed back before it can run dry"""
    declare(E)
    E.contract("paramiko.transport.Transport._send_user_message", params={"data": "obj:Message"}, returns="none",
               raises={"EOFError": "True", "OSError": "True", "SSHException": "True"}, modifies=[])
    m = monitor(E)
    m.invariant.append("self.in_window_sofar <= self.in_window_threshold")
    E.declare_class("paramiko.buffered_pipe.BufferedPipe", {})
    E.declare_ghost(fed_total="int", counted_total="int")
    E.contract("paramiko.buffered_pipe.BufferedPipe.feed", params={"data": "bytes"}, returns="none",
               ghost={"fed_total": "ghost('fed_total') + len(data)"}, modifies=[], raises={})
    STR = "m.packet.getvalue()[old(m.packet.tell()) + %d:old(m.packet.tell()) + %d + unpack32(m.packet.getvalue()[old(m.packet.tell()) + %d:old(m.packet.tell()) + %d])]"
    LEN = "unpack32(m.packet.getvalue()[old(m.packet.tell()) + %d:old(m.packet.tell()) + %d])"
    E.contract(C + "_feed", params={"m": "union[obj:Message,bytes]"},
               requires={"well_formed": "True if isbytes(m) else (0 <= m.packet.tell() and len(m.packet.getvalue()) - m.packet.tell() >= 4 and "
                                        "unpack32(m.packet.getvalue()[m.packet.tell():m.packet.tell() + 4]) <= len(m.packet.getvalue()) - m.packet.tell() - 4)"},
               ensures={"all_data_bytes_buffered": "ghost('fed_total') == old(ghost('fed_total')) + (len(m) if isbytes(m) else " + LEN % (0, 4) + ")"},
               returns="none", raises={})
    E.contract(C + "_feed_extended", params={"m": "obj:Message"},
               requires={"threshold_nonneg": "self.in_window_threshold >= 0",
                         "well_formed": "0 <= m.packet.tell() and len(m.packet.getvalue()) - m.packet.tell() >= 8 and "
                                        "unpack32(m.packet.getvalue()[m.packet.tell() + 4:m.packet.tell() + 8]) <= len(m.packet.getvalue()) - m.packet.tell() - 8"},
               ensures={"every_byte_buffered_or_counted":
                        "ghost('fed_total') + ghost('counted_total') == old(ghost('fed_total')) + old(ghost('counted_total')) + " + LEN % (4, 8)},
               returns="none", raises={"EOFError": "True", "OSError": "True", "SSHException": "True",
                                       # a credit >= 2**32 cannot be encoded (needs a receive window that large)
                                       "struct.error": "True"})
    E.contract(C + "_set_window", params={"window_size": "int", "max_packet_size": "int"},
               requires={"positive_window": "window_size >= 1"},
               ensures={"threshold_below_window": "0 <= self.in_window_threshold and self.in_window_threshold < self.in_window_size",
                        "nothing_pending": "self.in_window_sofar == 0"},
               returns="none", raises={})
    E.contract(C + "_check_add_window", params={"n": "nat"},
               requires={"threshold_nonneg": "self.in_window_threshold >= 0"},
               ensures={
                   "exact_accounting_while_open":
                       "implies(not (self.closed or self.eof_received or not self.active),"
                       " result + self.in_window_sofar == ghost('sync_in_window_sofar') + n)",
                   "pending_credit_stays_at_or_below_threshold": "0 <= self.in_window_sofar and self.in_window_sofar <= self.in_window_threshold",
                   "credit_nonneg": "result >= 0",
               },
               ghost={"counted_total": "ghost('counted_total') + n"},
               returns="int", raises={})


def declare_c25(E):
    declare(E)
    E.declare_ghost(delivered="bytes")
    RA = {"OSError": "True", "TimeoutError": "True", "EOFError": "True", "SSHException": "True"}
    for name in ("send", "send_stderr"):
        E.contract(C + name, params={"s": "bytes"},
                   requires={"fits": "len(s) < 2**31"},
                   ensures={"progress_or_stream_closed": "0 <= result and result <= len(s)"},
                   ghost={"delivered": "ghost('delivered') + s[0:result]"},
                   returns="int", raises=dict(RA), modifies=[])
    for name in ("sendall", "sendall_stderr"):
        E.contract(C + name, params={"s": "bytes"},
                   requires={"fits": "len(s) < 2**31"},
                   ensures={"returns_only_after_every_byte_was_handed_over": "ghost('delivered') == old(ghost('delivered')) + s"},
                   loops={0: dict(inv=["ghost('delivered') + s == old(ghost('delivered')) + old(s)", "len(s) < 2**31"],
                                  variant="len(s)", havoc_ghosts=["delivered"], vars={"sent": "int"})},
                   raises=dict(RA), returns="none")
