"""Contracts for pipelined SFTP writes (C29): every write request's status is read (and converted into an exception when
the server refused it) no later than close()"""
F = "paramiko.sftp_file.SFTPFile."


def declare(E):
    from contracts import message, specs
    message.declare(E)
    E.auto_opaque = True
    E.declare_ghost(pending="int")
    E.declare_class("paramiko.sftp_file.SFTPFile", {
        "sftp": "opaque:Client", "handle": "bytes", "pipelined": "bool", "_reqs": "list[int]", "_realpos": "nat",
        "_closed": "bool", "MAX_REQUEST_SIZE": "const:32768"})
    E.opaque_attrs = dict(getattr(E, "opaque_attrs", {}), Client={"sock": "opaque:ChanSock"})
    E.contract("ChanSock.recv_ready", argnames=["self"], returns="bool")
    E.contract("binascii.hexlify", argnames=["data"], returns="bytes", ensures=["len(result) == 2 * len(data)", "utf8ok(result)"])
    E.contract("paramiko.sftp_file.hexlify", argnames=["data"], returns="bytes", ensures=["utf8ok(result)"])
    # a request goes out: one more status outstanding; a status is read: one fewer (a refusal is raised as IOError)
    E.contract("Client._async_request", argnames=["self", "fileobj", "t", "a", "b", "c"], returns="int",
               ghost={"pending": "ghost('pending') + (1 if t == 6 else 0)"})
    E.contract("Client._read_response", argnames=["self", "waitfor"], returns="tuple[int,obj:Message]",
               ghost={"pending": "ghost('pending') - 1"},
               raises={"OSError": {"when": "True", "ghost": {"pending": "ghost('pending') - 1"}}, "SSHException": "True"})
    E.contract("Client._finish_responses", argnames=["self", "f"], returns="none", raises={"OSError": "True", "SSHException": "True"})
    E.contract("Client._request", argnames=["self", "t", "a", "b"], returns="tuple[int,obj:Message]",
               raises={"EOFError": "True", "OSError": "True", "SSHException": "True"})
    E.contract("Client._log", argnames=["self", "a", "b"], returns="none")
    QUEUE = "len(self._reqs) == ghost('pending') and ghost('pending') >= 0"
    # BufferedFile.close flushes the write buffer, which may issue further (pipelined) writes
    E.contract("paramiko.file.BufferedFile.close", returns="none",
               requires={"queue": QUEUE},
               ensures=[QUEUE, "self._closed"],
               modifies=["self._closed", "self._reqs", "ghost:pending"], raises={"OSError": "True", "SSHException": "True"})
    E.contract(F + "_write", params={"data": "bytes"},
               requires={"outstanding_statuses_are_the_queued_requests": QUEUE, "some_data": "len(data) >= 1"},
               ensures={"queue_still_matches": QUEUE,
                        "without_pipelining_every_status_is_read_before_returning": "implies(not self.pipelined, ghost('pending') == 0)",
                        "writes_at_most_one_request": "1 <= result and result <= len(data) and result <= 32768"},
               loops={0: dict(inv=[QUEUE], havoc_ghosts=["pending"], vars={"req": "int", "t": "int", "msg": "obj:Message"})},
               returns="int", raises={"OSError": "True", "SSHException": "True", "SFTPError": "True"})
    E.contract(F + "_close", params={"async_": "bool"},
               requires={"outstanding_statuses_are_the_queued_requests": QUEUE},
               ensures={"every_write_status_was_read_before_close_returns":
                        "implies(not async_ and not old(self._closed), ghost('pending') == 0)"},
               loops={0: dict(inv=[QUEUE], havoc_ghosts=["pending"], vars={"req": "int", "t": "int", "msg": "obj:Message"})},
               returns="none", raises={"OSError": "True", "SSHException": "True", "SFTPError": "True"})


def declare_transfer(E):
    """SFTPClient._transfer_with_callback: the writer receives exactly what the reader delivered, in order"""
    import z3
    from pyvc import ropes
    from pyvc.values import zint

    def chunk(I, env, sf):
        st = I.st
        src = st.ghost.get("tsrc")
        if src is None:
            src = I.fresh_of_type("bytes", "ghost.tsrc")
            st.ghost["tsrc"] = src
            st.ghost_init["tsrc"] = src
        k = st.fresh_int("chunk_len")
        st.assume(z3.And(k >= 0, k <= zint(env["n"].t), k <= zint(ropes.seq_len(src)),
                         z3.Implies(k == 0, zint(ropes.seq_len(src)) == 0)))
        return ropes.slice_norm(st, src, 0, k)
    E.declare_ghost(tsrc="bytes", tsink="bytes")
    E.contract("Reader.read", argnames=["self", "n"], returns=chunk, ghost={"tsrc": "ghost('tsrc')[len(result):]"},
               raises={"OSError": "True", "SSHException": "True"})
    E.contract("Writer.write", argnames=["self", "data"], returns="none", ghost={"tsink": "ghost('tsink') + data"},
               raises={"OSError": "True", "SSHException": "True"})
    E.contract("paramiko.sftp_client.SFTPClient._transfer_with_callback",
               params={"reader": "opaque:Reader", "writer": "opaque:Writer", "file_size": "int", "callback": "opt[callable]"},
               ensures={"everything_read_was_written_in_order_and_the_source_is_exhausted":
                        "ghost('tsink') == old(ghost('tsink')) + old(ghost('tsrc')) and len(ghost('tsrc')) == 0",
                        "returns_the_number_of_bytes_copied": "result == len(old(ghost('tsrc')))"},
               loops={0: dict(inv=["0 <= size and size <= len(old(ghost('tsrc')))"],
                              defs={"ghost:tsink": "old(ghost('tsink')) + old(ghost('tsrc'))[:size]", "ghost:tsrc": "old(ghost('tsrc'))[size:]"},
                              havoc_ghosts=["tsrc", "tsink"], vars={"data": "bytes"})},
               returns="int", raises={"OSError": "True", "SSHException": "True", "Exception": "True"})
    E.opaque_contracts["callable"] = dict(argnames=["self", "a", "b"], returns="none", raises={"Exception": "True"})
