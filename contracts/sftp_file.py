"""Contracts for pipelined SFTP writes (C29): every write request's status is read (and converted into an exception when
the server refused it) no later than close()"""
F = "paramiko.sftp_file.SFTPFile."


def declare(E):
    from contracts import message, specs
    message.declare(E)
    E.auto_opaque = True
    E.declare_ghost(pending="int")
    E.declare_class("paramiko.sftp_file.SFTPFile", {
        "sftp": "opaque:Client", "handle": "bytes", "pipelined": "bool", "_reqs": "list[int]", "_realpos": "nat",
        "_rbuffer": "bytes", "_pos": "nat",
        "_closed": "bool", "MAX_REQUEST_SIZE": "const:32768", "_saved_exception": "opt[opaque:Exc]"})
    E.opaque_attrs = dict(getattr(E, "opaque_attrs", {}), Client={"sock": "opaque:ChanSock", "_expecting": "opaque:Expecting"})
    E.opaque_exc = dict(getattr(E, "opaque_exc", {}), Exc="Exception")
    # a queued request that is no longer expected was answered while another response was waited for: the dispatch in
    # SFTPClient._read_response handed its status to this file's _async_response (writes are registered under their file)
    E.contract("Expecting.__contains__", argnames=["self", "req"], returns="bool",
               ghost={"pending": "ghost('pending') - (0 if result else 1)"})
    E.contract("ChanSock.recv_ready", argnames=["self"], returns="bool")
    E.contract("binascii.hexlify", argnames=["data"], returns="bytes", ensures=["len(result) == 2 * len(data)", "utf8ok(result)"])
    E.contract("paramiko.sftp_file.hexlify", argnames=["data"], returns="bytes", ensures=["utf8ok(result)"])
    # a request goes out: one more status outstanding; a status is read: one fewer (a refusal is raised as IOError)
    E.declare_ghost(this_file="int")
    E.contract("Client._async_request", argnames=["self", "fileobj", "t", "a", "b", "c"], returns="int",
               # a response that arrives while another one is waited for goes to the object it was registered under
               # (SFTPClient._read_response, verified below); registered under nothing, a refusal would be dropped
               requires={"write_requests_are_registered_under_their_file": "implies(t == 6, opaque_id(fileobj) == ghost('this_file'))"},
               ghost={"pending": "ghost('pending') + (1 if t == 6 else 0)"})
    E.contract("Client._read_response", argnames=["self", "waitfor"], returns="tuple[int,obj:Message]",
               ghost={"pending": "ghost('pending') - 1"},
               raises={"OSError": {"when": "True", "ghost": {"pending": "ghost('pending') - 1"}}, "SSHException": "True"})
    E.contract("Client._finish_responses", argnames=["self", "f"], returns="none", raises={"OSError": "True", "SSHException": "True"})
    E.contract("Client._request", argnames=["self", "t", "a", "b"], returns="tuple[int,obj:Message]",
               raises={"EOFError": "True", "OSError": "True", "SSHException": "True"})
    E.contract("Client._log", argnames=["self", "a", "b"], returns="none")
    QUEUE = "len(self._reqs) == ghost('pending') and ghost('pending') >= 0"
    # BufferedFile.close flushes the write buffer, which may issue further (pipelined) writes
    E.contract("paramiko.file.BufferedFile.close", returns="none",
               requires={"queue": QUEUE},
               ensures=[QUEUE, "self._closed"],
               modifies=["self._closed", "self._reqs", "ghost:pending"], raises={"OSError": "True", "SSHException": "True"})
    E.contract(F + "_write", params={"data": "bytes"},
               requires={"outstanding_statuses_are_the_queued_requests": QUEUE, "some_data": "len(data) >= 1",
                         "this_file": "ghost('this_file') == opaque_id(self)"},
               ensures={"queue_still_matches": QUEUE,
                        "without_pipelining_every_status_is_read_before_returning": "implies(not self.pipelined, ghost('pending') == 0)",
                        "writes_at_most_one_request": "1 <= result and result <= len(data) and result <= 32768"},
               loops={0: dict(inv=[QUEUE], havoc_ghosts=["pending"], vars={"req": "int", "t": "int", "msg": "obj:Message"})},
               returns="int", raises={"OSError": "True", "SSHException": "True", "SFTPError": "True"})
    E.contract(F + "_close", params={"async_": "bool"},
               requires={"outstanding_statuses_are_the_queued_requests": QUEUE, "this_file": "ghost('this_file') == opaque_id(self)"},
               ensures={"every_write_status_was_read_before_close_returns":
                        "implies(not async_ and not old(self._closed), ghost('pending') == 0)",
                        "a_refusal_saved_by_the_response_dispatch_was_raised":
                        "implies(not async_ and not old(self._closed), self._saved_exception is None)"},
               loops={0: dict(inv=[QUEUE], havoc_ghosts=["pending"], vars={"req": "int", "t": "int", "msg": "obj:Message"})},
               returns="none", raises={"OSError": "True", "SSHException": "True", "SFTPError": "True", "Exception": "True"})


def declare_status(E):
    """the response dispatch hands a write status that arrived out of turn to SFTPFile._async_response: a refusal is
    saved there and raised by the next _check_exception (close() at the latest)"""
    E.declare_ghost(refused="bool")
    E.contract("Client._convert_status", argnames=["self", "msg"], returns="none", ghost={"refused": "False"},
               raises={"OSError": {"when": "True", "ghost": {"refused": "True"}},
                       "EOFError": {"when": "True", "ghost": {"refused": "True"}}})
    E.contract(F + "_check_exception",
               ensures={"returns_only_if_nothing_was_saved": "old(self._saved_exception) is None and self._saved_exception is None"},
               returns="none",
               raises={"Exception": {"when": "old(self._saved_exception) is not None", "ensures": ["self._saved_exception is None"]}})


def declare_dispatch(E):
    """SFTPClient._read_response: every response taken off the wire is either returned to the caller waiting for it
    (a refusal converted into an exception) or handed to the object its request was registered under"""
    K = "paramiko.sftp_client.SFTPClient."
    E.declare_ghost(owed="int", last_owner="int", last_num="int")
    E.declare_class("paramiko.sftp_client.SFTPClient", {"_expecting": "opaque:ExpMap", "_lock": "opaque:Lock"})
    E.contract("paramiko.sftp.BaseSFTP._read_packet", returns="tuple[int,bytes]", requires=[], ensures=["len(result[1]) >= 4"],
               raises={"EOFError": "True", "OSError": "True", "SSHException": "True"})
    E.contract("paramiko.sftp.BaseSFTP._log", params={"level": "int", "msg": "str"}, returns="none")
    E.contract(K + "_log", params={"level": "int", "msg": "str"}, returns="none")
    E.contract(K + "_convert_status", params={"msg": "obj:Message"}, returns="none",
               raises={"OSError": "True", "EOFError": "True"})
    E.contract("ExpMap.__contains__", argnames=["self", "k"], returns="bool")
    # the owner a request was registered under: an object, or the class NoneType for "nobody".  Taking an owned
    # request out of the table creates the debt of delivering its response
    E.contract("ExpMap.__getitem__", argnames=["self", "k"], returns="union[opaque:Owner,class:NoneType]",
               ghost={"last_owner": "opaque_id(result)", "last_num": "k", "owed": "0 if opaque_id(result) == -2 else 1"})
    E.contract("ExpMap.__delitem__", argnames=["self", "k"], returns="none")
    E.contract("Owner._async_response", argnames=["self", "t", "msg", "num"], returns="none",
               requires={"handed_to_the_owner_of_this_very_request": "opaque_id(self) == ghost('last_owner') and num == ghost('last_num')"},
               ghost={"owed": "0"},
               raises={"SFTPError": {"when": "True", "ghost": {"owed": "0"}}, "Exception": {"when": "True", "ghost": {"owed": "0"}}})
    SETTLED = "ghost('owed') == 0"
    E.contract(K + "_read_response", params={"waitfor": "opt[int]"},
               requires={"nothing_owed_on_entry": SETTLED},
               ensures={"a_response_that_is_not_returned_was_handed_to_the_owner_of_its_request":
                        "implies(isnone(result[0]), ghost('owed') == 0)",
                        "returns_only_the_awaited_response": "implies(notnone(result[0]), notnone(waitfor) and ghost('last_num') == waitfor)"},
               loops={0: dict(inv=[SETTLED], havoc_ghosts=["owed", "last_owner", "last_num"],
                              vars={"t": "int", "data": "bytes", "msg": "obj:Message", "num": "int",
                                    "fileobj": "union[opaque:Owner,class:NoneType]"})},
               returns="tuple[opt[int],opt[obj:Message]]",
               raises={"SSHException": {"when": "True", "ensures": [SETTLED]}, "OSError": "True",
                       "EOFError": "True", "SFTPError": {"when": "True", "ensures": [SETTLED]},
                       "Exception": {"when": "True", "ensures": [SETTLED]}})


def declare_registration(E):
    """SFTPClient._async_request: the request is registered - under the object given, under the number returned - BEFORE it
    goes out on the wire; otherwise an answer taken off the wire by another thread in between is an 'unexpected response'
    and is dropped, and whoever waits for it waits forever"""
    from contracts import specs   # noqa: registers the message specification functions
    K = "paramiko.sftp_client.SFTPClient."
    E.declare_ghost(registrations="int", reg_num="int", reg_owner="int", sends="int")
    E.declare_class("paramiko.sftp_client.SFTPClient", {"_expecting": "opaque:ExpMap", "_lock": "opaque:Lock", "request_number": "nat"})
    E.contract("ExpMap.__setitem__", argnames=["self", "k", "v"], returns="none",
               ghost={"registrations": "ghost('registrations') + 1", "reg_num": "k", "reg_owner": "opaque_id(v)"})
    E.contract("paramiko.sftp.BaseSFTP._send_packet", params={"t": "int", "packet": "obj:Message"}, returns="none",
               requires={"the_request_is_registered_before_it_goes_out": "ghost('registrations') == 1"},
               ghost={"sends": "ghost('sends') + 1"},
               raises={"OSError": "True", "EOFError": "True", "SSHException": "True"})
    E.contract(K + "_async_request", params={"fileobj": "union[opaque:Owner,class:NoneType]", "t": "int", "args": "tuple[bytes,int,bytes]"},
               requires={"counting_from_here": "ghost('registrations') == 0 and ghost('sends') == 0", "room": "self.request_number < 2**32"},
               ensures={"registered_once_under_the_number_returned_and_the_object_given":
                        "ghost('registrations') == 1 and ghost('reg_num') == result and ghost('reg_owner') == opaque_id(fileobj)",
                        "sent_once": "ghost('sends') == 1",
                        "numbers_are_not_reused": "self.request_number == old(self.request_number) + 1 and result == old(self.request_number)"},
               returns="int", raises={"OSError": "True", "EOFError": "True", "SSHException": "True", "struct.error": "True"})


def declare_transfer(E):
    """SFTPClient._transfer_with_callback: the writer receives exactly what the reader delivered, in order"""
    import z3
    from pyvc import ropes
    from pyvc.values import zint

    def chunk(I, env, sf):
        st = I.st
        src = st.ghost.get("tsrc")
        if src is None:
            src = I.fresh_of_type("bytes", "ghost.tsrc")
            st.ghost["tsrc"] = src
            st.ghost_init["tsrc"] = src
        k = st.fresh_int("chunk_len")
        st.assume(z3.And(k >= 0, k <= zint(env["n"].t), k <= zint(ropes.seq_len(src)),
                         z3.Implies(k == 0, zint(ropes.seq_len(src)) == 0)))
        return ropes.slice_norm(st, src, 0, k)
    E.declare_ghost(tsrc="bytes", tsink="bytes")
    E.contract("Reader.read", argnames=["self", "n"], returns=chunk, ghost={"tsrc": "ghost('tsrc')[len(result):]"},
               raises={"OSError": "True", "SSHException": "True"})
    E.contract("Writer.write", argnames=["self", "data"], returns="none", ghost={"tsink": "ghost('tsink') + data"},
               raises={"OSError": "True", "SSHException": "True"})
    E.contract("paramiko.sftp_client.SFTPClient._transfer_with_callback",
               params={"reader": "opaque:Reader", "writer": "opaque:Writer", "file_size": "int", "callback": "opt[callable]"},
               ensures={"everything_read_was_written_in_order_and_the_source_is_exhausted":
                        "ghost('tsink') == old(ghost('tsink')) + old(ghost('tsrc')) and len(ghost('tsrc')) == 0",
                        "returns_the_number_of_bytes_copied": "result == len(old(ghost('tsrc')))"},
               loops={0: dict(inv=["0 <= size and size <= len(old(ghost('tsrc')))"],
                              defs={"ghost:tsink": "old(ghost('tsink')) + old(ghost('tsrc'))[:size]", "ghost:tsrc": "old(ghost('tsrc'))[size:]"},
                              havoc_ghosts=["tsrc", "tsink"], vars={"data": "bytes"})},
               returns="int", raises={"OSError": "True", "SSHException": "True", "Exception": "True"})
    E.opaque_contracts["callable"] = dict(argnames=["self", "a", "b"], returns="none", raises={"Exception": "True"})


def client_variants(E):
    """TARGET entries (own environments) for the client half of the request / response machinery: registration before
    sending (_async_request) and the dispatch loop (_read_response). Shared by C29 and C30."""
    from contracts import message as _m
    out = []
    for name, decl, qn in (("registration", declare_registration, "paramiko.sftp_client.SFTPClient._async_request"),
                           ("dispatch", declare_dispatch, "paramiko.sftp_client.SFTPClient._read_response")):
        E4 = type(E)()
        _m.declare(E4)
        decl(E4)
        out.append((qn, name, dict(E4.contracts[qn], **{
            "+replace": True, "+contracts": {k: v for k, v in E4.contracts.items() if k != qn},
            "+fields": {c: dict(d["fields"]) for c, d in E4.classdecl.items()},
            "+engine": {"ghost_types": dict(E.ghost_types, **E4.ghost_types), "inline_ok": set(E4.inline_ok) | set(E.inline_ok)}})))
    return out
