"""Contracts for paramiko/sftp_server.py"""
S = "paramiko.sftp_server.SFTPServer."
TRUNC = "(ghost('fs_content')[0:n] if n <= len(ghost('fs_content')) else ghost('fs_content') + bytes(n - len(ghost('fs_content'))))"


def declare_fs(E):
    """abstract local file system for one file: ghost fs_content, plus a log of the metadata calls"""
    E.declare_ghost(fs_content="bytes", chmod_mode="int", chmod_calls="int", chown_uid="int", chown_gid="int",
                    chown_calls="int", utime_atime="int", utime_mtime="int", utime_calls="int", opened_path="str",
                    chmod_path="str", chown_path="str", utime_path="str")
    E.contract("builtins.open", argnames=["file", "mode"], returns="opaque:File",
               ghost={"fs_content": "(b'' if mode in ('w', 'w+', 'wb', 'wb+', 'w+b') else ghost('fs_content'))",
                      "opened_path": "file"},
               raises={"OSError": "True"})
    E.contract("File.__enter__", argnames=["self"], returns="expr:self")
    E.contract("File.__exit__", argnames=["self", "a", "b", "c"], returns="none")
    E.contract("File.truncate", argnames=["self", "n"], returns="int", requires=["n >= 0"],
               ghost={"fs_content": TRUNC}, raises={"OSError": "True"})
    E.contract("os.chmod", argnames=["path", "mode"], returns="none",
               ghost={"chmod_mode": "mode", "chmod_path": "path", "chmod_calls": "ghost('chmod_calls') + 1"}, raises={"OSError": "True"})
    E.contract("os.chown", argnames=["path", "uid", "gid"], returns="none",
               ghost={"chown_uid": "uid", "chown_gid": "gid", "chown_path": "path", "chown_calls": "ghost('chown_calls') + 1"},
               raises={"OSError": "True"})
    E.contract("os.utime", argnames=["path", "times"], returns="none",
               ghost={"utime_atime": "times[0]", "utime_mtime": "times[1]", "utime_path": "path",
                      "utime_calls": "ghost('utime_calls') + 1"}, raises={"OSError": "True"})


def declare_c31(E):
    declare_fs(E)
    E.declare_class("paramiko.sftp_attr.SFTPAttributes", {
        "_flags": "u32", "st_size": "u64", "st_uid": "u32", "st_gid": "u32", "st_mode": "u32",
        "st_atime": "u32", "st_mtime": "u32"})
    OLD = "old(ghost('fs_content'))"
    E.contract(S + "set_file_attr", params={"filename": "str", "attr": "obj:SFTPAttributes"},
               ensures={
                   "truncate_keeps_leading_bytes_and_zero_extends":
                       "implies(attr._flags & 1 != 0, ghost('fs_content') == (%s[0:attr.st_size] if attr.st_size <= len(%s)"
                       " else %s + bytes(attr.st_size - len(%s))) and ghost('opened_path') == filename)" % (OLD, OLD, OLD, OLD),
                   "content_untouched_without_size_flag": "implies(attr._flags & 1 == 0, ghost('fs_content') == %s)" % OLD,
                   "chmod_iff_permissions_flag":
                       "(ghost('chmod_calls') == old(ghost('chmod_calls')) + (1 if attr._flags & 4 != 0 else 0))"
                       " and implies(attr._flags & 4 != 0, ghost('chmod_mode') == attr.st_mode and ghost('chmod_path') == filename)",
                   "chown_iff_uidgid_flag":
                       "(ghost('chown_calls') == old(ghost('chown_calls')) + (1 if attr._flags & 2 != 0 else 0))"
                       " and implies(attr._flags & 2 != 0, ghost('chown_uid') == attr.st_uid and ghost('chown_gid') == attr.st_gid"
                       " and ghost('chown_path') == filename)",
                   "utime_iff_amtime_flag":
                       "(ghost('utime_calls') == old(ghost('utime_calls')) + (1 if attr._flags & 8 != 0 else 0))"
                       " and implies(attr._flags & 8 != 0, ghost('utime_atime') == attr.st_atime and ghost('utime_mtime') == attr.st_mtime"
                       " and ghost('utime_path') == filename)",
               },
               returns="none", raises={"OSError": "True"}, modifies=[])
