"""Contracts for paramiko/sftp_server.py"""
S = "paramiko.sftp_server.SFTPServer."
TRUNC = "(ghost('fs_content')[0:n] if n <= len(ghost('fs_content')) else ghost('fs_content') + bytes(n - len(ghost('fs_content'))))"


def declare_fs(E):
    """abstract local file system for one file: ghost fs_content, plus a log of the metadata calls"""
    E.declare_ghost(fs_content="bytes", chmod_mode="int", chmod_calls="int", chown_uid="int", chown_gid="int",
                    chown_calls="int", utime_atime="int", utime_mtime="int", utime_calls="int", opened_path="str",
                    chmod_path="str", chown_path="str", utime_path="str")
    E.contract("builtins.open", argnames=["file", "mode"], returns="opaque:File",
               ghost={"fs_content": "(b'' if mode in ('w', 'w+', 'wb', 'wb+', 'w+b') else ghost('fs_content'))",
                      "opened_path": "file"},
               raises={"OSError": "True"})
    E.contract("File.__enter__", argnames=["self"], returns="expr:self")
    E.contract("File.__exit__", argnames=["self", "a", "b", "c"], returns="none")
    E.contract("File.truncate", argnames=["self", "n"], returns="int", requires=["n >= 0"],
               ghost={"fs_content": TRUNC}, raises={"OSError": "True"})
    # the file's permission bits (all twelve: rwx for user/group/other plus setuid, setgid, sticky) as a ghost; os.stat
    # reports them, os.chmod sets them
    E.declare_ghost(fs_mode="int")
    E.opaque_attrs = dict(getattr(E, "opaque_attrs", {}), StatResult={"st_mode": "nat", "st_size": "nat"})
    E.contract("os.stat", argnames=["path"], returns="opaque:StatResult",
               ensures=["result.st_mode % 4096 == ghost('fs_mode')"], raises={"OSError": "True"})
    E.contract("os.chmod", argnames=["path", "mode"], returns="none",
               ghost={"chmod_mode": "mode", "chmod_path": "path", "chmod_calls": "ghost('chmod_calls') + 1", "fs_mode": "mode % 4096"},
               raises={"OSError": "True"})
    E.contract("os.chown", argnames=["path", "uid", "gid"], returns="none",
               ghost={"chown_uid": "uid", "chown_gid": "gid", "chown_path": "path", "chown_calls": "ghost('chown_calls') + 1"},
               raises={"OSError": "True"})
    E.contract("os.utime", argnames=["path", "times"], returns="none",
               ghost={"utime_atime": "times[0]", "utime_mtime": "times[1]", "utime_path": "path",
                      "utime_calls": "ghost('utime_calls') + 1"}, raises={"OSError": "True"})


def declare_c31(E):
    declare_fs(E)
    E.declare_class("paramiko.sftp_attr.SFTPAttributes", {
        "_flags": "u32", "st_size": "u64", "st_uid": "u32", "st_gid": "u32", "st_mode": "u32",
        "st_atime": "u32", "st_mtime": "u32"})
    OLD = "old(ghost('fs_content'))"
    E.contract(S + "set_file_attr", params={"filename": "str", "attr": "obj:SFTPAttributes"},
               requires={"mode_bits": "0 <= ghost('fs_mode') and ghost('fs_mode') < 4096"},
               ensures={
                   "truncate_keeps_leading_bytes_and_zero_extends":
                       "implies(attr._flags & 1 != 0, ghost('fs_content') == (%s[0:attr.st_size] if attr.st_size <= len(%s)"
                       " else %s + bytes(attr.st_size - len(%s))) and ghost('opened_path') == filename)" % (OLD, OLD, OLD, OLD),
                   "content_untouched_without_size_flag": "implies(attr._flags & 1 == 0, ghost('fs_content') == %s)" % OLD,
                   # stated over the file's resulting mode, not over the call: leaving out a chmod that would change nothing
                   # is fine, leaving out one that would change only setuid / setgid / sticky is not
                   "all_twelve_permission_bits_are_the_requested_ones_iff_permissions_flag":
                       "(ghost('fs_mode') == (attr.st_mode % 4096 if attr._flags & 4 != 0 else old(ghost('fs_mode'))))"
                       " and implies(ghost('chmod_calls') > old(ghost('chmod_calls')), ghost('chmod_mode') == attr.st_mode"
                       " and ghost('chmod_path') == filename and attr._flags & 4 != 0)",
                   "chown_iff_uidgid_flag":
                       "(ghost('chown_calls') == old(ghost('chown_calls')) + (1 if attr._flags & 2 != 0 else 0))"
                       " and implies(attr._flags & 2 != 0, ghost('chown_uid') == attr.st_uid and ghost('chown_gid') == attr.st_gid"
                       " and ghost('chown_path') == filename)",
                   "utime_iff_amtime_flag":
                       "(ghost('utime_calls') == old(ghost('utime_calls')) + (1 if attr._flags & 8 != 0 else 0))"
                       " and implies(attr._flags & 8 != 0, ghost('utime_atime') == attr.st_atime and ghost('utime_mtime') == attr.st_mtime"
                       " and ghost('utime_path') == filename)",
               },
               returns="none", raises={"OSError": "True"}, modifies=[])


# G(o) = hashes of the consecutive blocks from offset o to the end of the range (specification function, see specs.py)
G = "fn('block_hashes_from', 'bytes', hash_id(alg), ghost('fcontent'), %s, block_size, start + length)"


def declare_c32(E):
    """check-file: concatenation of the hash of each consecutive block of the requested range"""
    from contracts import message
    message.declare(E)
    message.light_readers(E)
    E.contract("paramiko.message.Message.get_list", requires={}, returns="tuple[str]", raises={"UnicodeDecodeError": "True"},
               ensures=["0 <= self.packet.tell() and self.packet.tell() <= len(self.packet.getvalue())"],
               modifies=["self.packet.pos"])
    E.declare_ghost(fcontent="bytes", hashed="bytes", hash_alg="int", resp_count="int", resp_type="int", resp_payload="bytes",
                    resp_status="int")
    E.declare_class("paramiko.sftp_server.SFTPServer", {"file_table": "opaque:FileTable", "folder_table": "opaque:FileTable",
                                                        "server": "opaque:SFTPSI", "next_handle": "int"})
    E.declare_class("paramiko.sftp_attr.SFTPAttributes", {"st_size": "nat", "_flags": "u32"})
    E.contract("FileTable.__contains__", argnames=["self", "k"], returns="bool")
    E.contract("FileTable.__getitem__", argnames=["self", "k"], returns="opaque:Handle")
    E.contract("Handle.stat", argnames=["self"], returns="union[obj:SFTPAttributes,int]",
               ensures=["(result.st_size == len(ghost('fcontent'))) if not isint(result) else True"])
    E.contract("Handle.read", argnames=["self", "offset", "length"], returns="union[bytes,int]",
               ensures=["(len(result) <= length and len(result) <= len(ghost('fcontent')) - offset"
                        " and result == ghost('fcontent')[offset:offset + len(result)]"
                        " and implies(offset < len(ghost('fcontent')) and length > 0, len(result) >= 1)) if isbytes(result) else True"],
               requires=["offset >= 0"])
    for h, algid in (("_hashlib.openssl_sha1", 1), ("_hashlib.openssl_md5", 2)):
        E.contract(h, argnames=[], returns="opaque:Hash", ghost={"hashed": "b''", "hash_alg": str(algid)})
    E.contract("Hash.update", argnames=["self", "data"], returns="none", ghost={"hashed": "ghost('hashed') + data"})
    E.contract("Hash.digest", argnames=["self"], returns="bytes",
               ensures=["result == fn('digest', 'bytes', ghost('hash_alg'), ghost('hashed'))"])
    E.contract(S + "_send_status", params={"request_number": "int", "code": "int", "desc": "opt[str]"}, returns="none",
               ghost={"resp_count": "ghost('resp_count') + 1", "resp_type": "101", "resp_status": "code"}, raises={}, modifies=[])
    E.contract("paramiko.sftp.BaseSFTP._send_packet", params={"t": "int", "packet": "union[obj:Message,bytes]"}, returns="none",
               ghost={"resp_count": "ghost('resp_count') + 1", "resp_type": "t",
                      "resp_payload": "packet if isbytes(packet) else packet.packet.getvalue()"}, raises={}, modifies=[])
    inner = [
        "0 <= count and count <= blocklen and blocklen >= 1",
        "chunklen == (blocklen if blocklen <= 65536 else 65536)",
        "start <= offset - count and offset <= start + length and start + length <= len(ghost('fcontent'))",
        "blocklen == (block_size if block_size <= start + length - (offset - count) else start + length - (offset - count))",
        "offset - count == _entry2_offset",        # block start = the offset at which the inner loop was entered
        "ghost('hashed') == ghost('fcontent')[offset - count:offset]",
        "sum_out + " + G % "offset - count" + " == " + G % "start",
        "block_size >= 256 and length >= 0 and start >= 0",
    ]
    outer = [
        "start <= offset and offset <= start + length and (length == 0 or start + length <= len(ghost('fcontent')))",
        "sum_out + " + G % "offset" + " == " + G % "start",
        "block_size >= 256 and length >= 0 and start >= 0",
    ]
    E.contract(S + "_check_file", params={"request_number": "u32", "msg": "obj:Message"},
               requires={"msg_pos": "0 <= msg.packet.tell() and msg.packet.tell() <= len(msg.packet.getvalue())"},
               ensures={
                   "exactly_one_response": "ghost('resp_count') == old(ghost('resp_count')) + 1",
                   "reply_is_hashes_of_consecutive_blocks_of_the_range_clamped_at_EOF":
                       "implies(ghost('resp_type') == 201,"
                       " local('block_size', 0) >= 256 and (local('length', 0) == 0 or local('start', 0) + local('length', 0) <= len(ghost('fcontent')))"
                       " and ghost('resp_payload') == pack32(request_number) + pack32(10) + b'check-file'"
                       " + pack32(len(utf8enc(local('algname', '')))) + utf8enc(local('algname', ''))"
                       " + fn('block_hashes_from', 'bytes', hash_id(local('alg')), ghost('fcontent'), local('start', 0),"
                       "      local('block_size', 0), local('start', 0) + local('length', 0)))",
               },
               loops={
                   1: dict(inv=outer, variant="start + length - offset", havoc_ghosts=["hashed"],
                           vars={"blocklen": "int", "chunklen": "int", "count": "int", "hash_obj": "opaque:Hash", "data": "union[bytes,int]"}),
                   2: dict(inv=inner, variant="blocklen - count", havoc_ghosts=["hashed"], vars={"data": "union[bytes,int]"}),
               },
               returns="none", raises={"UnicodeDecodeError": "True", "struct.error": "True"}, modifies=["msg.packet.pos"])


ALLOWED = ("(ghost('resp_type') == 101"
           " or (ghost('resp_type') == 102 and (t == 3 or t == 11))"            # HANDLE for OPEN / OPENDIR
           " or (ghost('resp_type') == 103 and t == 5)"                         # DATA for READ
           " or (ghost('resp_type') == 104 and (t == 12 or t == 19 or t == 16))"  # NAME for READDIR / READLINK / REALPATH
           " or (ghost('resp_type') == 105 and (t == 17 or t == 7 or t == 8))"  # ATTRS for STAT / LSTAT / FSTAT
           " or (ghost('resp_type') == 201 and t == 200))")                     # EXTENDED_REPLY for EXTENDED


def declare_c30(E):
    from contracts import message
    message.declare(E)
    message.light_readers(E)
    E.declare_ghost(resp_count="int", resp_type="int", resp_id="int")
    E.declare_class("paramiko.sftp_server.SFTPServer", {"file_table": "opaque:FileTable", "folder_table": "opaque:FileTable",
                                                        "server": "opaque:SFTPSI", "next_handle": "int"})
    E.declare_class("paramiko.sftp_attr.SFTPAttributes", {})
    ANY = {"Exception": "True"}
    E.contract("FileTable.__contains__", argnames=["self", "k"], returns="bool")
    E.contract("FileTable.__getitem__", argnames=["self", "k"], returns="opaque:Handle")
    E.contract("FileTable.__delitem__", argnames=["self", "k"], returns="none")
    for n, ret in (("close", "none"), ("read", "union[bytes,int]"), ("write", "int"), ("stat", "union[obj:SFTPAttributes,int]"),
                   ("chattr", "int")):
        E.contract("Handle." + n, argnames=["self", "a", "b"], returns=ret, raises=dict(ANY))
    for n, ret in (("open", "opaque:HandleOrCode"), ("remove", "int"), ("rename", "int"), ("mkdir", "int"), ("rmdir", "int"),
                   ("stat", "union[obj:SFTPAttributes,int]"), ("lstat", "union[obj:SFTPAttributes,int]"), ("chattr", "int"),
                   ("readlink", "union[str,int]"), ("symlink", "int"), ("canonicalize", "str"), ("posix_rename", "int"),
                   ("list_folder", "opaque:ListOrCode")):
        E.contract("SFTPSI." + n, argnames=["self", "a", "b", "c"], returns=ret, raises=dict(ANY))
    E.contract("paramiko.sftp_attr.SFTPAttributes._from_msg", returns="obj:SFTPAttributes", raises={"UnicodeDecodeError": "True"},
               params={"msg": "obj:Message"}, modifies=["msg.packet.pos"],
               ensures=["0 <= msg.packet.tell() and msg.packet.tell() <= len(msg.packet.getvalue())"])
    E.contract(S + "_convert_pflags", returns="int", modifies=[])
    E.inline("paramiko.sftp_attr.SFTPAttributes.__init__")

    def responder(name, types, raises=None, **kw):
        kinds = " if ".join([])  # (readability)
        if len(types) == 1:
            rt = str(types[0])
        else:
            rt = "(%d if fn('%s_ok', 'bool', request_number, ghost('resp_count')) else %d)" % (types[1], name, types[0])
        E.contract(S + name, returns="none",
                   ghost={"resp_count": "ghost('resp_count') + 1", "resp_type": rt, "resp_id": "request_number"},
                   raises=raises if raises is not None else {"Exception": "True"}, modifies=[], **kw)
    responder("_send_status", [101], raises={"Exception": "True"})      # e.g. struct.error for a code outside uint32
    responder("_response", [0], raises={"Exception": "True"})
    E.contracts[S + "_response"]["ghost"]["resp_type"] = "t"
    responder("_send_handle_response", [101, 102])
    responder("_open_folder", [101, 102])
    responder("_read_folder", [101, 104])
    # _check_file calls the user's handle (stat / read), so anything may escape it; nothing has been sent when it does
    responder("_check_file", [101, 201], raises={"Exception": "True"})
    E.contract(S + "_process", params={"t": "u8", "request_number": "u32", "msg": "obj:Message"},
               requires={"msg_pos": "0 <= msg.packet.tell() and msg.packet.tell() <= len(msg.packet.getvalue())"},
               ensures={"exactly_one_response": "ghost('resp_count') == old(ghost('resp_count')) + 1",
                        "same_request_id": "ghost('resp_id') == request_number",
                        "response_type_valid_for_the_request": ALLOWED},
               # an escaping exception must leave the request unanswered: start_subsystem then sends the one STATUS(FAILURE)
               raises={"Exception": "ghost('resp_count') == old(ghost('resp_count'))"},
               returns="none", modifies=None)


def c30_check_file_contract(E):
    """_check_file against its own body in the C30 environment (the user's handle may return anything or raise):
    one response of type STATUS or EXTENDED_REPLY carrying the request id on normal return, none when it raises.
    The response counter is havocked at both loop heads and carried by an invariant, so a response sent from an
    iteration that goes round again is seen.  What the reply contains, and termination, are C32's."""
    for h in ("_hashlib.openssl_sha1", "_hashlib.openssl_md5"):
        E.contract(h, argnames=[], returns="opaque:Hash")
    E.contract("Hash.update", argnames=["self", "data"], returns="none")
    E.contract("Hash.digest", argnames=["self"], returns="bytes")
    E.declare_class("paramiko.sftp_attr.SFTPAttributes", {"st_size": "int"})     # whatever size the handle reports
    silent = "ghost('resp_count') == old(ghost('resp_count'))"
    return dict(params={"request_number": "u32", "msg": "obj:Message"},
                requires={"msg_pos": "0 <= msg.packet.tell() and msg.packet.tell() <= len(msg.packet.getvalue())"},
                ensures={"exactly_one_response": "ghost('resp_count') == old(ghost('resp_count')) + 1",
                         "status_or_extended_reply": "ghost('resp_type') == 101 or ghost('resp_type') == 201",
                         "same_request_id": "ghost('resp_id') == request_number"},
                loops={1: dict(inv=[silent], havoc_ghosts=["resp_count"],
                               vars={"blocklen": "int", "chunklen": "int", "count": "int", "hash_obj": "opaque:Hash",
                                     "data": "union[bytes,int]"}),
                       2: dict(inv=[silent], havoc_ghosts=["resp_count"], vars={"data": "union[bytes,int]"})},
                returns="none", raises={"Exception": silent}, modifies=["msg.packet.pos"], ghost=None)


def declare_c30_helpers(E):
    """the responders themselves, against the packet actually handed to _send_packet"""
    E.declare_ghost(resp_payload="bytes")
    E.contract("paramiko.sftp.BaseSFTP._send_packet", params={"t": "int", "packet": "union[obj:Message,bytes]"}, returns="none",
               ghost={"resp_count": "ghost('resp_count') + 1", "resp_type": "t",
                      "resp_payload": "packet if isbytes(packet) else packet.packet.getvalue()",
                      # the id a response carries is, by definition, its first uint32
                      "resp_id": "unpack32((packet if isbytes(packet) else packet.packet.getvalue())[0:4])"},
               raises={}, modifies=[])
    one = {"one_packet": "ghost('resp_count') == old(ghost('resp_count')) + 1",
           "type_as_given": "ghost('resp_type') == t",
           "carries_request_id_first": "ghost('resp_payload')[0:4] == pack32(request_number)"}
    E.contract(S + "_response[status]", params={})   # placeholder names for variants (see props/C30)
    E.contracts.pop(S + "_response[status]")
    base = dict(ensures=one, returns="none", modifies=[], raises={"struct.error": "True"})
    return base
