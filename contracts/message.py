"""Contracts for paramiko/message.py and the util helpers it uses"""

MSG = "paramiko.message.Message."


def declare(E):
    E.declare_class("paramiko.message.Message", {"packet": "bytesio", "seqno": "int"})
    # leaf helpers whose real AST is executed in place (DESIGN section 1)
    E.inline("paramiko.common.byte_ord", "paramiko.common.byte_chr", "paramiko.common.byte_mask",
             "paramiko.util.clamp_value", "paramiko.util.b", "paramiko.util.u", "paramiko.util.asbytes",
             "paramiko.message.Message.asbytes", "paramiko.message.Message.__init__",
             "paramiko.message.Message.__bytes__")
