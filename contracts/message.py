"""Contracts for paramiko/message.py and the util helpers it uses.

Abstract state of a Message: buf = self.packet.getvalue(), pos = self.packet.tell().
Writers require the write position to be at the end of the buffer (true for every message built with Message()
and add_*; a Message(content) is only read)."""

MSG = "paramiko.message.Message."
BUF = "self.packet.getvalue()"
POS = "self.packet.tell()"
OBUF = "old(self.packet.getvalue())"
OPOS = "old(self.packet.tell())"
AT_END = {"write_pos_at_end": "%s == len(%s)" % (POS, BUF)}


def appended(enc):
    return {"appended": "%s == %s + %s" % (BUF, OBUF, enc), "pos_at_end": "%s == len(%s)" % (POS, BUF)}


def reader(n, value_clause, extra=None):
    """contract pieces of a reader that consumes n bytes when they are available"""
    d = {"buffer_unchanged": "%s == %s" % (BUF, OBUF)}
    d.update(value_clause)
    if extra:
        d.update(extra)
    return d


def declare(E, with_contracts=True):
    E.declare_class("paramiko.message.Message", {"packet": "bytesio", "seqno": "int"})
    # leaf helpers whose real AST is executed in place (DESIGN section 1)
    E.inline("paramiko.common.byte_ord", "paramiko.common.byte_chr", "paramiko.common.byte_mask",
             "paramiko.util.clamp_value", "paramiko.util.b", "paramiko.util.u", "paramiko.util.asbytes",
             "paramiko.message.Message.asbytes", "paramiko.message.Message.__init__",
             "paramiko.message.Message.__bytes__")
    if not with_contracts:
        return
    POS_OK = {"pos_in_buffer": "0 <= %s and %s <= len(%s)" % (POS, POS, BUF)}
    avail = "(len(%s) - %s)" % (OBUF, OPOS)

    # ---------------- writers (behaviour: buffer gets the encoding appended; position stays at the end)
    def writer(name, params, enc, extra_requires=None, raises=None, extra_ensures=None):
        req = dict(AT_END)
        req.update(extra_requires or {})
        ens = {"pos_at_end": "%s == len(%s)" % (POS, BUF)}
        ens.update(extra_ensures or {})
        E.contract(MSG + name, params=params, requires=req, ensures=ens,
                   cases=[dict(name="appended", when="True",
                               post={"self.packet.buf": "%s + %s" % (BUF, enc),
                                     "self.packet.pos": "len(%s) + len(%s)" % (BUF, enc)})],
                   modifies=["self.packet.buf", "self.packet.pos"], returns="self", raises=raises or {})

    writer("add_bytes", {"b": "bytes"}, "b")
    writer("add_byte", {"b": "bytes"}, "b")
    writer("add_boolean", {"b": "bool"}, "(b'\\x01' if b else b'\\x00')")
    writer("add_int", {"n": "int"}, "pack32(n)", extra_ensures={"in_range": "0 <= n and n < 2**32"},
           raises={"struct.error": {"when": "not (0 <= n and n < 2**32)", "ensures": ["%s == %s" % (BUF, OBUF)]}})
    writer("add_int64", {"n": "int"}, "pack64(n)", extra_ensures={"in_range": "0 <= n and n < 2**64"},
           raises={"struct.error": {"when": "not (0 <= n and n < 2**64)", "ensures": ["%s == %s" % (BUF, OBUF)]}})
    writer("add_string", {"s": "union[bytes,str]"}, "pack32(len(asbytes_spec(s))) + asbytes_spec(s)",
           extra_ensures={"length_fits": "len(asbytes_spec(s)) < 2**32"},
           raises={"struct.error": "len(asbytes_spec(s)) >= 2**32"})
    writer("add_mpint", {"z": "int"}, "pack32(len(mpint_spec(z))) + mpint_spec(z)",
           extra_ensures={"zero_is_empty_string": "implies(z == 0, len(mpint_spec(z)) == 0)"},
           raises={"struct.error": "len(mpint_spec(z)) >= 2**32"})

    # ---------------- readers
    avail = "(len(%s) - %s)" % (BUF, POS)          # evaluated in the pre-state inside cases
    oavail = "(len(%s) - %s)" % (OBUF, OPOS)
    ROK = {"buffer_unchanged": "%s == %s" % (BUF, OBUF), "pos_ok": "0 <= %s and %s <= len(%s)" % (POS, POS, BUF)}

    def reader(name, params, cases, returns, extra_ensures=None, raises=None):
        ens = dict(ROK)
        ens.update(extra_ensures or {})
        E.contract(MSG + name, params=params, requires=POS_OK, ensures=ens, cases=cases,
                   modifies=["self.packet.pos"], returns=returns, raises=raises or {})

    reader("get_bytes", {"n": "int"}, [
        dict(name="enough", when="0 <= n and n <= %s" % avail,
             result="%s[%s:%s + n]" % (BUF, POS, POS), post={"self.packet.pos": "%s + n" % POS}),
        dict(name="short_padded", when="n > %s and n < 2**20" % avail,
             result="%s[%s:] + bytes(n - %s)" % (BUF, POS, avail), post={"self.packet.pos": "len(%s)" % BUF}),
        dict(name="short_unpadded", when="n > %s and n >= 2**20" % avail,
             result="%s[%s:]" % (BUF, POS), post={"self.packet.pos": "len(%s)" % BUF}),
        dict(name="negative_reads_rest", when="n < 0",
             result="%s[%s:]" % (BUF, POS), post={"self.packet.pos": "len(%s)" % BUF}),
    ], "bytes")
    reader("get_byte", {}, [
        dict(name="enough", when="%s >= 1" % avail, result="%s[%s:%s + 1]" % (BUF, POS, POS),
             post={"self.packet.pos": "%s + 1" % POS}),
        dict(name="exhausted", when="%s < 1" % avail, result="b'\\x00'"),
    ], "bytes")
    reader("get_boolean", {}, [
        dict(name="enough", when="%s >= 1" % avail, result="%s[%s] != 0" % (BUF, POS),
             post={"self.packet.pos": "%s + 1" % POS}),
        dict(name="exhausted", when="%s < 1" % avail, result="False"),
    ], "bool")
    reader("get_int", {}, [
        dict(name="enough", when="%s >= 4" % avail, result="unpack32(%s[%s:%s + 4])" % (BUF, POS, POS),
             post={"self.packet.pos": "%s + 4" % POS}),
    ], "int", extra_ensures={"range": "0 <= result and result < 2**32"})
    reader("get_int64", {}, [
        dict(name="enough", when="%s >= 8" % avail, result="unpack64(%s[%s:%s + 8])" % (BUF, POS, POS),
             post={"self.packet.pos": "%s + 8" % POS}),
    ], "int", extra_ensures={"range": "0 <= result and result < 2**64"})
    LEN = "unpack32(%s[%s:%s + 4])" % (BUF, POS, POS)
    WF = "%s >= 4 and %s <= %s - 4" % (avail, LEN, avail)
    BODY = "%s[%s + 4:%s + 4 + %s]" % (BUF, POS, POS, LEN)
    for name in ("get_string", "get_binary"):
        reader(name, {}, [dict(name="well_formed", when=WF, result=BODY, post={"self.packet.pos": "%s + 4 + %s" % (POS, LEN)})],
               "bytes")
    OLEN = "unpack32(%s[%s:%s + 4])" % (OBUF, OPOS, OPOS)
    OBODY = "%s[%s + 4:%s + 4 + %s]" % (OBUF, OPOS, OPOS, OLEN)
    reader("get_text", {}, [dict(name="well_formed", when=WF + " and utf8ok(%s)" % BODY, result="utf8dec(%s)" % BODY,
                                 post={"self.packet.pos": "%s + 4 + %s" % (POS, LEN)})],
           "str",
           # documented behaviour is to return text; non-UTF-8 peer bytes make it raise (C38's business)
           raises={"UnicodeDecodeError": "not (%s >= 4 and %s <= %s - 4 and utf8ok(%s))" % (oavail, OLEN, oavail, OBODY)})
    E.contract(MSG + "get_so_far", requires=POS_OK, modifies=["self.packet.pos"],
               ensures=dict(ROK, pos_unchanged="%s == %s" % (POS, OPOS)),
               cases=[dict(name="prefix", when="True", result="%s[0:%s]" % (BUF, POS))],
               returns="bytes", raises={})
    E.contract(MSG + "get_remainder", requires=POS_OK, modifies=["self.packet.pos"],
               ensures=dict(ROK, pos_unchanged="%s == %s" % (POS, OPOS)),
               cases=[dict(name="suffix", when="True", result="%s[%s:]" % (BUF, POS))],
               returns="bytes", raises={})
    E.contract(MSG + "rewind", modifies=["self.packet.pos"],
               ensures={"pos_zero": "%s == 0" % POS, "buffer_unchanged": "%s == %s" % (BUF, OBUF)},
               returns="none", raises={})


def declare_mpint(E):
    """mpint layer.  deflate_long / inflate_long: contract = what the code computes, stated against the
    specification functions mpint_spec / tcval (assumed here; see props/C39 for the bounded stand-in)."""
    E.contract("paramiko.util.deflate_long", params={"n": "int", "add_sign_padding": "bool"}, returns="bytes",
               ensures=["implies(add_sign_padding, result == (b'\\x00' if n == 0 else mpint_spec(n)))", "len(result) >= 1"],
               modifies=[], raises={})
    E.contract("paramiko.util.inflate_long", params={"s": "bytes", "always_positive": "bool"}, returns="int",
               ensures=["implies(not always_positive, result == tcval(s))"], modifies=[], raises={})
    avail = "(len(%s) - %s)" % (BUF, POS)
    LEN = "unpack32(%s[%s:%s + 4])" % (BUF, POS, POS)
    WF = "%s >= 4 and %s <= %s - 4" % (avail, LEN, avail)
    BODY = "%s[%s + 4:%s + 4 + %s]" % (BUF, POS, POS, LEN)
    E.contract(MSG + "add_adaptive_int", params={"n": "nat"}, requires=AT_END,
               ensures={"pos_at_end": "%s == len(%s)" % (POS, BUF)},
               cases=[dict(name="small_as_uint32", when="n < 0xff000000",
                           post={"self.packet.buf": "%s + pack32(n)" % BUF, "self.packet.pos": "len(%s) + 4" % BUF}),
                      dict(name="large_as_marker_plus_mpint", when="n >= 0xff000000",
                           post={"self.packet.buf": "%s + b'\\xff' + pack32(len(mpint_spec(n))) + mpint_spec(n)" % BUF,
                                 "self.packet.pos": "len(%s) + 5 + len(mpint_spec(n))" % BUF})],
               modifies=["self.packet.buf", "self.packet.pos"], returns="self",
               raises={"struct.error": "n >= 0xff000000 and len(mpint_spec(n)) >= 2**32"})
    ALEN = "unpack32(%s[%s + 1:%s + 5])" % (BUF, POS, POS)
    E.contract(MSG + "get_adaptive_int", requires={"pos_in_buffer": "0 <= %s and %s <= len(%s)" % (POS, POS, BUF)},
               ensures={"buffer_unchanged": "%s == %s" % (BUF, OBUF)},
               cases=[dict(name="uint32", when="%s >= 4 and %s[%s] != 0xff" % (avail, BUF, POS),
                           result="unpack32(%s[%s:%s + 4])" % (BUF, POS, POS), post={"self.packet.pos": "%s + 4" % POS}),
                      dict(name="marker_then_mpint",
                           when="%s >= 5 and %s[%s] == 0xff and %s <= %s - 5" % (avail, BUF, POS, ALEN, avail),
                           result="tcval(%s[%s + 5:%s + 5 + %s])" % (BUF, POS, POS, ALEN),
                           post={"self.packet.pos": "%s + 5 + %s" % (POS, ALEN)})],
               modifies=["self.packet.pos"], returns="int", raises={})
    E.contract(MSG + "get_mpint", requires={"pos_in_buffer": "0 <= %s and %s <= len(%s)" % (POS, POS, BUF)},
               ensures={"buffer_unchanged": "%s == %s" % (BUF, OBUF), "pos_ok": "0 <= %s and %s <= len(%s)" % (POS, POS, BUF)},
               cases=[dict(name="well_formed", when=WF, result="tcval(%s)" % BODY,
                           post={"self.packet.pos": "%s + 4 + %s" % (POS, LEN)})],
               modifies=["self.packet.pos"], returns="int", raises={})


def light_readers(E, keep=()):
    """readers with no behaviour cases: the value read from an arbitrary peer message is unconstrained (used where the
    property does not depend on the message contents, to avoid a case split per field)"""
    POSOK = "0 <= %s and %s <= len(%s)" % (POS, POS, BUF)
    for name, ret in (("get_text", "str"), ("get_string", "bytes"), ("get_binary", "bytes"), ("get_int", "u32"),
                      ("get_boolean", "bool"), ("get_byte", "bytes"), ("get_int64", "u64"), ("get_mpint", "int"),
                      ("get_list", "opaque:StrList")):
        if name in keep:
            continue
        E.contract(MSG + name, requires={"pos_in_buffer": POSOK}, ensures={"pos_ok": POSOK},
                   modifies=["self.packet.pos"], returns=ret,
                   raises={"UnicodeDecodeError": "True"} if name in ("get_text", "get_list") else {})
