"""Lemma programs for C40: configurations shaped as SSHConfig.parse builds them (a leading Host * block, then Host /
Match blocks), the real get_hostnames and _lookup bodies executed in place."""


def hostnames_total(first_is_host, second_is_host, h1, h2, h3):
    from paramiko.config import SSHConfig
    c = SSHConfig()
    c._config.append({"host": ["*"], "config": {}})
    if first_is_host:
        c._config.append({"host": [h1, h2], "config": {}})
    else:
        c._config.append({"matches": [{"type": "all", "negate": False}], "config": {}})
    if second_is_host:
        c._config.append({"host": [h3], "config": {}})
    else:
        c._config.append({"matches": [{"type": "all", "negate": False}], "config": {}})
    hosts = c.get_hostnames()          # must not raise for any parseable config
    assert "*" in hosts
    if first_is_host:
        assert h1 in hosts
        assert h2 in hosts
    if second_is_host:
        assert h3 in hosts


def lookup_first_obtained_value(hostname, p1, p2, u1, u2, port2, id1, id2, id3):
    from paramiko.config import SSHConfig
    c = SSHConfig()
    pat0, pat1, pat2 = ["*"], [p1], [p2]
    c._config.append({"host": pat0, "config": {}})
    c._config.append({"host": pat1, "config": {"user": u1, "identityfile": [id1, id2]}})
    c._config.append({"host": pat2, "config": {"user": u2, "port": port2, "identityfile": [id2, id3]}})
    r = c._lookup(hostname)
    a1 = c._pattern_matches(pat1, hostname)
    a2 = c._pattern_matches(pat2, hostname)
    # each option comes from the first block (in file order) that applies
    if a1:
        assert r["user"] == u1
    elif a2:
        assert r["user"] == u2
    else:
        assert "user" not in r
    if a2:
        assert r["port"] == port2
    else:
        assert "port" not in r
    # IdentityFile accumulates across applying blocks, in order, without duplicates
    if a1 and a2:
        if id3 == id1 or id3 == id2:
            assert r["identityfile"] == ([id1, id2] if id1 != id2 or True else [id1])
        else:
            assert r["identityfile"] == [id1, id2, id3]
    elif a1:
        assert r["identityfile"] == [id1, id2]
    elif a2:
        assert r["identityfile"] == [id2, id3]
    else:
        assert "identityfile" not in r
    # the stored configuration is not modified by a lookup
    assert c._config[1]["config"]["identityfile"] == [id1, id2]


def lookup_identityfile_repeated_within_a_block(hostname, p1, p2, id1, id2, id3):
    from paramiko.config import SSHConfig
    c = SSHConfig()
    pat0, pat1, pat2 = ["*"], [p1], [p2]
    c._config.append({"host": pat0, "config": {}})
    c._config.append({"host": pat1, "config": {"identityfile": [id1]}})
    c._config.append({"host": pat2, "config": {"identityfile": [id2, id3, id2]}})      # a value repeated inside one block
    r = c._lookup(hostname)
    a1 = c._pattern_matches(pat1, hostname)
    a2 = c._pattern_matches(pat2, hostname)
    if a1 and a2:
        # accumulated across blocks without duplicates
        if id2 == id1:
            assert r["identityfile"] == ([id1] if id3 == id1 else [id1, id3])
        elif id3 == id1 or id3 == id2:
            assert r["identityfile"] == [id1, id2]
        else:
            assert r["identityfile"] == [id1, id2, id3]
