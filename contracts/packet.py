"""Contracts for paramiko/packet.py"""

P = "paramiko.packet.Packetizer."
M = "_Packetizer__"


def declare(E):
    E.declare_class("paramiko.packet.Packetizer", {
        M + "block_size_out": "int", M + "block_size_in": "int",
        M + "mac_size_out": "int", M + "mac_size_in": "int",
        M + "etm_out": "bool", M + "etm_in": "bool", M + "aead_out": "bool", M + "aead_in": "bool",
        M + "sdctr_out": "bool",
        M + "block_engine_out": "opt[opaque:CipherCtx]", M + "block_engine_in": "opt[opaque:CipherCtx]",
        M + "mac_engine_out": "opt[opaque:HashCtor]", M + "mac_engine_in": "opt[opaque:HashCtor]",
        M + "mac_key_out": "bytes", M + "mac_key_in": "bytes",
        M + "iv_out": "opt[bytes]", M + "iv_in": "opt[bytes]",
        M + "compress_engine_out": "opt[opaque:Compressor]", M + "compress_engine_in": "opt[opaque:Compressor]",
        M + "sequence_number_out": "u32", M + "sequence_number_in": "u32",
        M + "sent_bytes": "nat", M + "sent_packets": "nat",
        M + "received_bytes": "nat", M + "received_packets": "nat",
        M + "received_bytes_overflow": "nat", M + "received_packets_overflow": "nat",
        M + "need_rekey": "bool", M + "dump_packets": "bool", M + "closed": "bool",
        M + "write_lock": "opaque:RLock", M + "logger": "opt[opaque:Logger]",
        M + "remainder": "bytes", M + "socket": "opaque:Socket",
        M + "keepalive_interval": "int", M + "keepalive_last": "float", M + "keepalive_callback": "opt[callable]",
        M + "timer": "opt[opaque:Timer]", M + "handshake_complete": "bool", M + "timer_expired": "bool",
        M + "init_count": "int",
        "_initial_kex_done": "bool",
        "REKEY_PACKETS": "int[1,]", "REKEY_BYTES": "int[1,]",
        "REKEY_PACKETS_OVERFLOW_MAX": "int[1,]", "REKEY_BYTES_OVERFLOW_MAX": "int[1,]",
    })

    # ---- C03: framing and padding, for every payload length and every block size in [8, 252]
    E.contract(P + "_build_packet",
               params={"payload": "bytes"},
               requires={
                   "bsize_range": "8 <= self._Packetizer__block_size_out <= 252",
                   "payload_fits": "len(payload) < 2**32 - 300",
               },
               ensures={
                   "padding_4_255": "4 <= result[4] and result[4] <= 255",
                   "length_field": "unpack32(result[0:4]) == len(result) - 4",
                   "total_length": "len(result) == 5 + len(payload) + result[4]",
                   "payload_intact": "result[5:5 + len(payload)] == payload",
                   "block_multiple": "(len(result) - (4 if (self._Packetizer__etm_out or self._Packetizer__aead_out) else 0))"
                                     " % self._Packetizer__block_size_out == 0",
                   "min_padding_block": "result[4] < self._Packetizer__block_size_out + 4",
               },
               returns="bytes", modifies=[], raises={})


def declare_send(E):
    """send_message: what reaches the wire (ghost 'wire') for one message"""
    E.declare_ghost(wire="bytes", last_packet_len="int")
    # external collaborators (assumed contracts, DESIGN section 4)
    E.contract("CipherCtx.update", argnames=["self", "data"], returns="bytes",
               ensures=["len(result) == len(data)"])
    E.contract("CipherCtx.encrypt", argnames=["self", "iv", "data", "aad"], returns="bytes",
               ensures=["len(result) == len(data) + 16"])
    E.opaque_contracts["Compressor"] = dict(argnames=["self", "data"], returns="bytes", ensures=["len(result) >= 1"])
    E.contract("paramiko.packet.compute_hmac", params={"key": "bytes", "message": "bytes", "digest_class": "opaque:HashCtor"},
               returns="bytes",
               ensures=["len(result) == fn('digest_size', 'int', digest_class)",
                        "result == fn('hmac', 'bytes', key, message, digest_class)"])
    E.contract("paramiko.util.format_binary", returns="opaque:Lines")
    E.contract(P + "_inc_iv_counter", returns="bytes", requires=["len(iv) == 12"], ensures=["len(result) == 12"])
    E.contract(P + "write_all", returns="none",
               ghost={"wire": "ghost('wire') + out"},
               raises={"EOFError": "True", "OSError": "True"})
    E.contract(P + "_trigger_rekey", inline=True)
    E.contract(P + "send_message",
               params={"data": "obj:Message"},
               requires={
                   "nonempty": "len(data.packet.getvalue()) >= 1",
                   "fits": "len(data.packet.getvalue()) < 2**32 - 300",
                   "bsize_range": "8 <= self._Packetizer__block_size_out <= 252",
                   "mac_size_le_digest": "implies(notnone(self._Packetizer__block_engine_out) and not self._Packetizer__aead_out,"
                                         " notnone(self._Packetizer__mac_engine_out) and 0 <= self._Packetizer__mac_size_out"
                                         " and self._Packetizer__mac_size_out <= fn('digest_size', 'int', self._Packetizer__mac_engine_out))",
                   "aead_iv": "implies(self._Packetizer__aead_out, notnone(self._Packetizer__iv_out) and len(self._Packetizer__iv_out) == 12"
                              " and self._Packetizer__mac_size_out == 16 and notnone(self._Packetizer__block_engine_out))",
                   "no_compression": "isnone(self._Packetizer__compress_engine_out)",
                   "modes_exclusive": "not (self._Packetizer__etm_out and self._Packetizer__aead_out)",
               },
               ensures={
                   # bytes put on the wire by this call
                   "mac_or_tag_length": "len(ghost('wire')) - len(old(ghost('wire'))) == ghost('last_packet_len')"
                                        " + (old(self._Packetizer__mac_size_out) if notnone(old(self._Packetizer__block_engine_out)) else 0)",
                   "seqno_incremented": "self._Packetizer__sequence_number_out == (old(self._Packetizer__sequence_number_out) + 1) % 2**32",
               },
               returns="none",
               raises={"EOFError": "True", "OSError": "True",
                       "SSHException": "not self._initial_kex_done and old(self._Packetizer__sequence_number_out) == 2**32 - 1"})
    # _build_packet as a callee also records the plaintext packet length in ghost state
    c = E.contracts[P + "_build_packet"]
    c["ghost"] = {"last_packet_len": "len(result)"}
    # callers need lengths and layout, not the (nonlinear) block arithmetic
    c["caller_ensures"] = ["padding_4_255", "length_field", "total_length", "payload_intact"]
