"""Contracts for paramiko/packet.py"""

P = "paramiko.packet.Packetizer."
M = "_Packetizer__"


def declare(E):
    E.declare_class("paramiko.packet.Packetizer", {
        M + "block_size_out": "int", M + "block_size_in": "int",
        M + "mac_size_out": "int", M + "mac_size_in": "int",
        M + "etm_out": "bool", M + "etm_in": "bool", M + "aead_out": "bool", M + "aead_in": "bool",
        M + "sdctr_out": "bool",
        M + "block_engine_out": "opt[opaque:CipherCtx]", M + "block_engine_in": "opt[opaque:CipherCtx]",
        M + "mac_engine_out": "opt[opaque:HashCtor]", M + "mac_engine_in": "opt[opaque:HashCtor]",
        M + "mac_key_out": "bytes", M + "mac_key_in": "bytes",
        M + "iv_out": "opt[bytes]", M + "iv_in": "opt[bytes]",
        M + "compress_engine_out": "opt[opaque:Compressor]", M + "compress_engine_in": "opt[opaque:Compressor]",
        M + "sequence_number_out": "u32", M + "sequence_number_in": "u32",
        M + "sent_bytes": "nat", M + "sent_packets": "nat",
        M + "received_bytes": "nat", M + "received_packets": "nat",
        M + "received_bytes_overflow": "nat", M + "received_packets_overflow": "nat",
        M + "need_rekey": "bool", M + "dump_packets": "bool", M + "closed": "bool",
        M + "write_lock": "opaque:RLock", M + "logger": "opt[opaque:Logger]",
        M + "remainder": "bytes", M + "socket": "opaque:Socket",
        M + "keepalive_interval": "int", M + "keepalive_last": "float", M + "keepalive_callback": "opt[callable]",
        M + "timer": "opt[opaque:Timer]", M + "handshake_complete": "bool", M + "timer_expired": "bool",
        M + "init_count": "int",
        "_initial_kex_done": "bool",
        "REKEY_PACKETS": "int[1,]", "REKEY_BYTES": "int[1,]",
        "REKEY_PACKETS_OVERFLOW_MAX": "int[1,]", "REKEY_BYTES_OVERFLOW_MAX": "int[1,]",
    })

    # ---- C03: framing and padding, for every payload length and every block size in [8, 252]
    E.contract(P + "_build_packet",
               params={"payload": "bytes"},
               requires={
                   "bsize_range": "8 <= self._Packetizer__block_size_out <= 252",
                   "payload_fits": "len(payload) < 2**32 - 300",
               },
               ensures={
                   "padding_4_255": "4 <= result[4] and result[4] <= 255",
                   "length_field": "unpack32(result[0:4]) == len(result) - 4",
                   "total_length": "len(result) == 5 + len(payload) + result[4]",
                   "payload_intact": "result[5:5 + len(payload)] == payload",
                   "block_multiple": "(len(result) - (4 if (self._Packetizer__etm_out or self._Packetizer__aead_out) else 0))"
                                     " % self._Packetizer__block_size_out == 0",
                   "min_padding_block": "result[4] < self._Packetizer__block_size_out + 4",
               },
               returns="bytes", modifies=[], raises={})
