"""Contracts for C06 (the part within reach): the client accepts a key-exchange reply only after the server's signature over
THIS exchange's hash verified under the host key it was shown; the session identifier is fixed by the first exchange"""
T = "paramiko.transport.Transport."


def declare(E):
    from contracts import sigalg, specs
    sigalg.declare_client(E)
    E.declare_ghost(sig_blob="bytes", parsed_from="bytes", parsed_id="int", verify_key_id="int", sig_msg="bytes")
    E.declare_class("paramiko.transport.Transport", {"K": "opt[int]", "session_id": "opt[bytes]"})
    # the host key class parses the blob it is given; verify_ssh_sig is called on that key object
    E.opaque_contracts["KeyClass"] = dict(argnames=["self", "msg"], returns="opt[opaque:PKey]",
                                          ghost={"parsed_from": "msg.packet.getvalue()",
                                                 "parsed_id": "opaque_id(result) if notnone(result) else -1"},
                                          raises={"SSHException": "True", "Exception": "True"})
    E.contract("PKey.verify_ssh_sig", argnames=["self", "data", "msg"], returns="bool",
               ghost={"verify_called": "True", "verify_result": "result", "sig_blob": "data", "verify_key_id": "opaque_id(self)",
                      "sig_msg": "msg.packet.getvalue()"},
               raises={"Exception": "True"})
    E.contract("PKey.asbytes", argnames=["self"], returns="bytes", ensures=["result == fn('key_bytes', 'bytes', opaque_id(self))"])
    c = E.contracts[T + "_verify_key"]
    c["ensures"] = dict(c["ensures"], **{
        "signature_checked_over_this_exchange_hash": "ghost('sig_blob') == self.H and ghost('sig_msg') == sig",
        "under_the_host_key_that_was_presented":
            "ghost('parsed_from') == host_key and ghost('verify_key_id') == ghost('parsed_id') and notnone(self.host_key)"
            " and opaque_id(self.host_key) == ghost('parsed_id')",
    })
    E.contract(T + "_set_K_H", params={"k": "int", "h": "bytes"},
               ensures={"secret_and_hash_stored": "self.K == k and self.H == h",
                        "session_identifier_fixed_by_the_first_exchange":
                            "self.session_id == (h if isnone(old(self.session_id)) else old(self.session_id))"},
               returns="none", raises={}, modifies=["self.K", "self.H", "self.session_id"])
