"""Contracts for private key file parsing (C37): whatever the file contains, loading fails with SSHException or
PasswordRequiredException, never with another exception type"""
P = "paramiko.pkey.PKey."
ALLOWED = {"SSHException": "True", "PasswordRequiredException": "True"}


def declare(E):
    from contracts import message, specs
    message.declare(E)
    E.auto_opaque = True
    E.inline("paramiko.util.b", "paramiko.util.u")
    # ---- the list of lines of the file: known only through len() and indexing (IndexError outside 0..len-1 / -len..-1)
    # (a text-mode file object over bytes that are not text raises UnicodeDecodeError from the read)
    E.contract("File.readlines", argnames=["self"], returns="opaque:Lines", raises={"UnicodeDecodeError": "True"})
    E.contract("Lines.__len__", argnames=["self"], returns="nat", ensures=["result == fn('nlines', 'int', opaque_id(self))"])
    E.contract("Lines.__getitem__", argnames=["self", "i"], returns="str",
               requires={"line_index_in_range": "-fn('nlines', 'int', opaque_id(self)) <= i and i < fn('nlines', 'int', opaque_id(self))"})
    E.contract("Lines.__getslice__", argnames=["self", "lo", "hi"], returns="opaque:Lines")
    E.opaque_iter = {"Lines": "str"}
    E.declare_class("paramiko.pkey.PKey", {"BEGIN_TAG": "opaque:Regex", "END_TAG": "opaque:Regex"})
    E.contract("Regex.match", argnames=["self", "s"], returns="opt[opaque:Match]")
    E.contract("Match.group", argnames=["self", "k"], returns="str")
    E.contract(P + "_read_private_key_pem", returns="bytes", raises=dict(ALLOWED), modifies=[])
    # ---- library calls with the exception classes they were observed to raise on malformed input (assumed from probing)
    E.contract("base64.decodebytes", argnames=["s"], returns="bytes", raises={"binascii.Error": "True"})
    E.contract("paramiko.pkey.decodebytes", argnames=["s"], returns="bytes", raises={"binascii.Error": "True"})
    E.contract("bcrypt.kdf", argnames=["password", "salt", "desired_key_bytes", "rounds", "ignore_few_rounds"], returns="bytes",
               ensures=["len(result) == desired_key_bytes"],
               # "rounds must be 1 or more", "password and salt must not be empty"
               raises={"ValueError": "rounds < 1 or len(salt) == 0 or len(password) == 0"})
    E.contract("cryptography.hazmat.primitives.ciphers.base.Cipher", constructor=True,
               argnames=["algorithm", "mode", "backend"], returns="opaque:CipherObj")
    E.contract("CipherObj.decryptor", argnames=["self"], returns="opaque:KeyDecryptor")
    E.contract("KeyDecryptor.update", argnames=["self", "data"], returns="bytes", ensures=["len(result) <= len(data)"],
               ghost={"dec_fed": "len(data)"})
    # CBC: "The length of the provided data is not a multiple of the block length"
    E.contract("KeyDecryptor.finalize", argnames=["self"], returns="bytes", raises={"ValueError": "ghost('dec_fed') % 16 != 0"},
               ensures=["len(result) <= 16"])
    E.declare_ghost(dec_fed="int")
    E.contract("paramiko.util.inflate_long", params={"s": "bytes", "always_positive": "bool"}, returns="int", modifies=[], raises={})
    E.contract("paramiko.pkey._unpad_openssh", params={"data": "bytes"},
               ensures={"a_prefix_of_the_input": "len(result) <= len(data) and result == data[:len(result)]"},
               loops={0: dict(inv=["padding_length <= 15 and padding_length >= 0"], vars={})},
               returns="bytes", raises={"SSHException": "True"}, modifies=[])
    for fmt in ("sssur", "ss", "su", "uusr"):
        pass
    E.contract(P + "_uint32_cstruct_unpack", params={"data": "bytes", "strformat": "str"},
               returns=_cstruct_result, raises={"SSHException": "True"}, modifies=[])
    E.contract(P + "_read_private_key_openssh", params={"lines": "opaque:Lines", "password": "opt[str]"},
               returns="bytes", raises=dict(ALLOWED), modifies=[])
    E.contract("str.join", argnames=["self", "xs"], returns="str")
    NL = "fn('nlines', 'int', opaque_id(lines))"
    E.contract(P + "_read_private_key", params={"tag": "str", "f": "opaque:File", "password": "opt[str]"},
               # (locals are referred to through local(name, default): a rewrite that drops one of them still verifies or fails
               # on its own merits instead of tripping over an unknown name)
               loops={0: dict(inv=["0 <= local('start', 0) and local('start', 0) <= %s - 1 and local('line_range', %s - 1) == %s - 1 and %s >= 1"
                                   % (NL, NL, NL, NL)],
                              vars={"m": "opt[opaque:Match]"}),
                      1: dict(inv=["0 <= local('end', 0) and local('end', 0) <= %s - 1 and local('line_range', %s - 1) == %s - 1 and %s >= 1"
                                   % (NL, NL, NL, NL)],
                              vars={"m": "opt[opaque:Match]"})},
               returns="tuple[int,bytes]", raises=dict(ALLOWED), modifies=[])


def _cstruct_result(I, env, sf):
    """_uint32_cstruct_unpack as a callee: one value per format letter (s, r: bytes; i, u: unsigned int)"""
    from pyvc import ropes
    from pyvc.values import VTuple
    fmt = ropes.conc_value(env["strformat"])
    out = []
    for ch in fmt:
        out.append(I.fresh_of_type("bytes" if ch in "sr" else ("u32" if ch == "u" else "nat"), "cstruct." + ch))
        if ch == "r":
            break
    return VTuple(out)


def own_cstruct(fmt):
    return dict(params={"data": "bytes", "strformat": "const:%r" % fmt}, returns="tuple[%s]" % ",".join("int" for _ in fmt),
                raises={"SSHException": "True"}, modifies=[])


ED = "paramiko.ed25519key.Ed25519Key."
# what the OpenSSH-format parser of Ed25519Key can raise on arbitrary bytes besides the documented classes (own-body
# contract: every class is accounted for; its caller must turn the internal ones into SSHException)
ED_INTERNAL = {"ValueError": "True", "AssertionError": "True", "UnicodeDecodeError": "True", "TypeError": "True"}


def declare_ed25519(E):
    declare(E)
    from contracts import message
    message.light_readers(E)
    E.contract("paramiko.message.Message.get_bytes", params={"n": "int"}, returns="bytes", modifies=["self.packet.pos"], raises={})
    E.declare_class("paramiko.ed25519key.Ed25519Key", {"name": "str"})
    E.contract("nacl.signing.SigningKey", constructor=True, argnames=["seed"], returns="opaque:NaclSigningKey",
               raises={"ValueError": "len(seed) != 32", "TypeError": "False"})
    E.opaque_attrs = {"NaclSigningKey": {"verify_key": "opaque:NaclVerifyKey"}}
    E.contract("NaclVerifyKey.encode", argnames=["self"], returns="bytes")
    E.contract("bcrypt.kdf", argnames=["password", "salt", "desired_key_bytes", "rounds", "ignore_few_rounds"], returns="bytes",
               ensures=["len(result) == desired_key_bytes"],
               raises={"ValueError": "True"})
    E.contract(ED + "_parse_signing_key_data", params={"data": "bytes", "password": "opt[str]"},
               returns="opaque:NaclSigningKey", raises=dict(ALLOWED, **ED_INTERNAL), modifies=[],
               loops={0: dict(inv=["True"], vars={"pubkey": "obj:Message"}), 1: dict(inv=["True"], vars={"public": "bytes", "key_data": "bytes"})})
    E.contract(ED + "__init__::part[parse-key-file]",
               fragment=dict(first="if filename or file_obj", last="if filename or file_obj"),
               params={"self": "obj:Ed25519Key", "filename": "opt[str]", "file_obj": "opt[opaque:File]", "data": "bytes",
                       "password": "opt[str]", "signing_key": "opt[opaque:NaclSigningKey]"},
               returns="none", raises=dict(ALLOWED), modifies=[])
    # the statement that reads the file (the whole if / elif chain over msg, filename, file_obj), for the file-loading cases:
    # Ed25519Key opens the file itself in text mode, so a byte that is not text raises UnicodeDecodeError inside the read
    E.contract("builtins.open", argnames=["file", "mode"], returns="opaque:TextFile", raises={"OSError": "True"})
    E.contract("TextFile.__enter__", argnames=["self"], returns="expr:self")
    E.contract("TextFile.__exit__", argnames=["self", "a", "b", "c"], returns="none")
    E.contract(ED + "__init__::part[read-key-file]",
               fragment=dict(first="if msg is not None", last="if msg is not None"),
               params={"self": "obj:Ed25519Key", "msg": "opt[obj:Message]", "filename": "opt[str]", "file_obj": "opt[opaque:TextFile]",
                       "password": "opt[str]", "verifying_key": "opt[opaque:NaclVerifyKey]"},
               requires={"a_key_file_is_being_loaded": "isnone(msg)"},
               returns="none", raises=dict(ALLOWED, OSError="True"), modifies=[])


def declare_decode(E):
    """RSAKey / ECDSAKey._decode_key: whatever (format, bytes) pair the file parsers hand over - numbers that do not fit
    together, a key of another type inside the block - the failure is an SSHException.  Library behaviour assumed from
    probing: load_der_private_key returns a key of whatever type the DER holds, or raises ValueError / TypeError /
    UnsupportedAlgorithm; RSAPrivateNumbers(...).private_key() raises ValueError for inconsistent numbers."""
    from contracts import message
    message.declare(E)
    E.auto_opaque = True
    R = "paramiko.rsakey.RSAKey."
    C = "paramiko.ecdsakey.ECDSAKey."
    RA_LIB = {"ValueError": "True", "TypeError": "True", "UnsupportedAlgorithm": "True"}
    E.declare_class("paramiko.rsakey.RSAKey", {"key": "opt[opaque:AnyPriv]"})
    E.declare_class("paramiko.ecdsakey.ECDSAKey", {"signing_key": "opt[opaque:AnyPriv]", "verifying_key": "opt[opaque:AnyPub]",
                                                    "ecdsa_curve": "opt[opaque:CurveInfo]"})
    # a key object of a type only known at run time: ghost lib_key_kind says which (0 RSA, 1 EC, 2 something else)
    E.declare_ghost(lib_key_kind="int")
    for mod in ("paramiko.rsakey", "paramiko.ecdsakey"):
        E.contract(mod + ".serialization.load_der_private_key", argnames=["data", "password", "backend"], returns="opaque:AnyPriv",
                   raises=dict(RA_LIB))
    E.contract("cryptography.hazmat.primitives.serialization.load_der_private_key", argnames=["data", "password", "backend"],
               returns="opaque:AnyPriv", raises=dict(RA_LIB))
    E.contract(R + "_uint32_cstruct_unpack", params={"data": "bytes", "strformat": "str"}, returns="tuple[int,int,int,int,int,int]",
               raises={"SSHException": "True"}, modifies=[])
    E.contract("paramiko.pkey.PKey._got_bad_key_format_id", params={"id_": "int"}, returns="none", noreturn=True, raises={"SSHException": "True"}, modifies=[])
    E.contract(R + "_got_bad_key_format_id", params={"id_": "int"}, returns="none", noreturn=True, raises={"SSHException": "True"}, modifies=[])
    E.contract(C + "_got_bad_key_format_id", params={"id_": "int"}, returns="none", noreturn=True, raises={"SSHException": "True"}, modifies=[])
    E.contract("cryptography.hazmat.primitives.asymmetric.rsa.RSAPublicNumbers", argnames=["e", "n"], returns="opaque:RsaPubNums",
               constructor=True, raises={"TypeError": "True"})
    E.contract("cryptography.hazmat.primitives.asymmetric.rsa.RSAPrivateNumbers",
               argnames=["p", "q", "d", "dmp1", "dmq1", "iqmp", "public_numbers"], returns="opaque:RsaPrivNums", constructor=True,
               raises={"TypeError": "True"})
    E.contract("RsaPrivNums.private_key", argnames=["self", "backend"], returns="opaque:AnyPriv",
               raises={"ValueError": "True", "TypeError": "True"})
    E.contract("paramiko.rsakey.default_backend", argnames=[], returns="opaque:Backend")
    E.contract("paramiko.ecdsakey.default_backend", argnames=[], returns="opaque:Backend")
    E.contract(R + "_decode_key", params={"data": "tuple[int,bytes]"}, returns="none",
               ensures={"a_key_is_installed": "notnone(self.key)"},
               raises={"SSHException": "True"})


def own_read_file():
    """PKey._read_private_key_file in its own environment: the text-mode read may raise UnicodeDecodeError (a file that is
    not text); what comes out is SSHException / PasswordRequiredException, or OSError for a file that cannot be read"""
    P = "paramiko.pkey.PKey."
    cs = {
        "builtins.open": dict(argnames=["file", "mode"], returns="opaque:TextFile", raises={"OSError": "True"}),
        "TextFile.__enter__": dict(argnames=["self"], returns="expr:self"),
        "TextFile.__exit__": dict(argnames=["self", "a", "b", "c"], returns="none"),
        P + "_read_private_key": dict(params={"tag": "str", "f": "opaque:TextFile", "password": "opt[str]"}, returns="tuple[int,bytes]",
                                      raises={"SSHException": "True", "PasswordRequiredException": "True", "UnicodeDecodeError": "True"},
                                      modifies=[]),
    }
    return {"+replace": True, "params": {"tag": "str", "filename": "str", "password": "opt[str]"}, "returns": "tuple[int,bytes]",
            "raises": {"SSHException": "True", "PasswordRequiredException": "True", "OSError": "True"}, "modifies": [],
            "+contracts": cs, "+engine": {"auto_opaque": True}}


def own_pem_decrypt():
    """the decryption part of PKey._read_private_key_pem (statement range from the cipher-table lookups to the unpadding) in
    its own environment: the salt string comes from the file's DEK-Info header and the ciphertext from its body, so neither
    need be well-formed.  Library behaviour assumed from probing: unhexlify raises binascii.Error (a ValueError) for odd
    length / non-hex digits; Cipher(alg(key), mode(salt)) raises ValueError for a salt of the wrong size; the CBC decryptor's
    finalize raises ValueError when the data was not a whole number of blocks; the PKCS7 unpadder raises ValueError."""
    P = "paramiko.pkey.PKey."
    VE = {"ValueError": "True"}

    def entry(I, env, sf):
        from pyvc import ropes
        from pyvc.values import VOpaque
        k = ropes.conc_value(env["k"])
        if k == "keysize":
            return I.fresh_of_type("nat", "cipher_table.keysize")
        return VOpaque({"cipher": "CipherAlg", "mode": "CipherMode"}.get(k, "CipherTableValue"), I.st.fresh_int("cipher_table_entry"))
    cs = {
        "CipherTable.__getitem__": dict(argnames=["self", "k"], returns="opaque:CipherEntry"),
        "CipherEntry.__getitem__": dict(argnames=["self", "k"], returns=entry),
        "paramiko.pkey.unhexlify": dict(argnames=["s"], returns="bytes", raises={"binascii.Error": "True"}),
        "binascii.unhexlify": dict(argnames=["s"], returns="bytes", raises={"binascii.Error": "True"}),
        "paramiko.util.generate_key_bytes": dict(argnames=["hash_alg", "salt", "key", "nbytes"], returns="bytes", modifies=[]),
        "cryptography.hazmat.primitives.ciphers.base.Cipher": dict(constructor=True, argnames=["algorithm", "mode", "backend"],
                                                                    returns="opaque:CipherObj", raises=dict(VE)),
        "CipherObj.decryptor": dict(argnames=["self"], returns="opaque:KeyDecryptor"),
        "KeyDecryptor.update": dict(argnames=["self", "data"], returns="bytes", raises=dict(VE)),
        "KeyDecryptor.finalize": dict(argnames=["self"], returns="bytes", raises=dict(VE)),
        "cryptography.hazmat.primitives.padding.PKCS7": dict(constructor=True, argnames=["block_size"], returns="opaque:Padding"),
        "Padding.unpadder": dict(argnames=["self"], returns="opaque:Unpadder"),
        "Unpadder.update": dict(argnames=["self", "data"], returns="bytes", raises=dict(VE)),
        "Unpadder.finalize": dict(argnames=["self"], returns="bytes", raises=dict(VE)),
    }
    return {"+replace": True,
            "fragment": dict(first='cipher = self._CIPHER_TABLE[encryption_type]["cipher"]', last="return unpadder"),
            "params": {"self": "obj:paramiko.pkey.PKey", "encryption_type": "str", "saltstr": "str", "password": "str", "data": "bytes"},
            "returns": "bytes", "raises": {"SSHException": "True"}, "modifies": [],
            "+contracts": cs, "+fields": {"paramiko.pkey.PKey": {"_CIPHER_TABLE": "opaque:CipherTable"}},
            "+engine": {"auto_opaque": True, "opaque_contracts": {
                "CipherAlg": dict(argnames=["self", "key"], returns="opaque:AlgObj", raises=dict(VE)),
                "CipherMode": dict(argnames=["self", "iv"], returns="opaque:ModeObj", raises=dict(VE)),
                "lib:PKCS7": dict(argnames=["self", "block_size"], returns="opaque:Padding")}}}
