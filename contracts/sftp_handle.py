"""Contracts for the server side of an open SFTP file (C27): SFTPHandle.read / write keep their own idea of the position
of the underlying Python file object (`__tell`) so as to seek only when needed; the representation invariant is

    TELL:  self.__tell is None  or  self.__tell == the file object's real position

and given it, read(offset, n) returns the file's bytes at `offset` and write(offset, data) puts data at `offset` (at the end
of the file in append mode).  The file object is abstract: ghost SFILE is the content, ghost ospos the real position."""
H = "paramiko.sftp_handle.SFTPHandle."
TELL = "(True if isnone(self._SFTPHandle__tell) else self._SFTPHandle__tell == ghost('ospos'))"
APPEND = "(self._SFTPHandle__flags // 1024) % 2 == 1"        # os.O_APPEND == 0o2000 == 1024 on Linux


def _ghost(I, name, ty):
    st = I.st
    v = st.ghost.get(name)
    if v is None:
        v = I.fresh_of_type(ty, "ghost." + name)
        st.ghost[name] = v
        st.ghost_init[name] = v
    return v


def declare(E):
    import z3
    from pyvc import ropes
    from pyvc.values import zint
    E.auto_opaque = True
    E.declare_ghost(SFILE="bytes", ospos="int", append_fd="bool")
    E.declare_class("paramiko.sftp_handle.SFTPHandle", {
        "_SFTPHandle__tell": "opt[int]", "_SFTPHandle__flags": "nat", "readfile": "maybe[opaque:PyFile]",
        "writefile": "maybe[opaque:PyFile]"})
    E.contract("PyFile.tell", argnames=["self"], returns="int", ensures=["result == ghost('ospos')"], raises={"OSError": "True"})
    E.contract("PyFile.seek", argnames=["self", "off"], returns="int", ghost={"ospos": "off"},
               raises={"OSError": {"when": "True", "ghost": {"ospos": "ghost('ospos')"}}})

    def os_read(I, env, sf):
        st = I.st
        src = _ghost(I, "SFILE", "bytes")
        pos = zint(_ghost(I, "ospos", "int").t)
        n = zint(ropes.seq_len(src))
        k = st.fresh_int("os_read_len")
        size = zint(env["n"].t)
        st.assume(z3.And(k >= 0, k <= size, z3.Implies(pos <= n, pos + k <= n), z3.Implies(pos > n, k == 0),
                         z3.Implies(z3.And(pos < n, size > 0), k >= 1)))
        if st.proves(k == 0):
            return ropes.slice_norm(st, src, 0, 0)
        if not st.decide(k >= 1):
            return ropes.slice_norm(st, src, 0, 0)
        st.assume(z3.And(pos >= 0, pos + k <= n))
        return ropes.slice_norm(st, src, pos, pos + k)
    E.contract("PyFile.read", argnames=["self", "n"], returns=os_read, requires=["ghost('ospos') >= 0"],
               ghost={"ospos": "ghost('ospos') + len(result)"},
               raises={"OSError": "True"})
    # a file descriptor opened with O_APPEND writes at the end of the file, wherever the position was
    WPOS = "(len(ghost('SFILE')) if ghost('append_fd') else ghost('ospos'))"
    E.contract("PyFile.write", argnames=["self", "data"], returns="int",
               requires=["0 <= %s and %s <= len(ghost('SFILE'))" % (WPOS, WPOS)],
               ghost={"SFILE": "ghost('SFILE')[:%s] + data + ghost('SFILE')[%s + len(data):]" % (WPOS, WPOS),
                      "ospos": "%s + len(data)" % WPOS},
               raises={"OSError": "True"})
    E.contract("PyFile.flush", argnames=["self"], returns="none", raises={"OSError": "True"})
    E.contract("paramiko.sftp_server.SFTPServer.convert_errno", argnames=["e"], returns="int", ensures=["result >= 1"])
    # a new handle knows nothing about where its file object stands (a file opened for appending starts at its end): the
    # invariant can only be established by knowing nothing
    E.contract(H + "__init__", params={"flags": "nat"},
               ensures={"a_new_handle_assumes_no_position": TELL,
                        "the_open_flags_are_kept": "self._SFTPHandle__flags == flags"},
               returns="none", raises={})
    E.contract(H + "read", params={"offset": "nat", "length": "nat"},
               requires={"the_handles_idea_of_the_position_is_the_real_one": TELL},
               ensures={"the_files_bytes_at_the_requested_offset":
                        "True if isint(result) else (len(result) <= length and (True if len(result) == 0 else"
                        " result == ghost('SFILE')[offset:offset + len(result)]))",
                        "nothing_only_at_or_past_the_end": "True if isint(result) else (len(result) >= 1 or length == 0 or offset >= len(ghost('SFILE')))",
                        "the_handles_idea_of_the_position_is_the_real_one": TELL},
               returns="union[bytes,int]", raises={})
    E.contract(H + "write", params={"offset": "nat", "data": "bytes"},
               requires={"the_handles_idea_of_the_position_is_the_real_one": TELL,
                         "append_flag_matches_the_descriptor": "iff(ghost('append_fd'), %s)" % APPEND,
                         "within_the_file": "offset <= len(ghost('SFILE'))"},
               ensures={"data_lands_at_the_offset_or_at_the_end_in_append_mode":
                        "implies(result == 0, ghost('SFILE') == ((old(ghost('SFILE')) + data) if %s else"
                        " (old(ghost('SFILE'))[:offset] + data + old(ghost('SFILE'))[offset + len(data):])))" % APPEND,
                        "the_handles_idea_of_the_position_is_the_real_one": TELL},
               returns="int", raises={})
