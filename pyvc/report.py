"""Verdicts, replay, known findings, evidence, exit code."""
import json
import os
import re
import sys
import time
from . import smt
from .driver import VERIF, load_known, load_baseline, native
from .extract import repo_root


def safe(name):
    return re.sub(r"[^A-Za-z0-9_.#()-]+", "_", name)[:150]


def concretise(r):
    """solver model -> plain inputs dict"""
    mv = r.get("model") or {}
    out = {}
    for k, v in mv.items():
        if isinstance(v, str):
            if v in ("True", "False"):
                out[k] = (v == "True")
            else:
                try:
                    out[k] = int(v)
                except ValueError:
                    out[k] = v
        else:
            out[k] = v
    for ch in r.get("choices") or []:
        out[ch["name"]] = ch["value"]
    return out


def write_replay(pid, name, payload):
    d = os.path.join(VERIF, "replays", pid)
    os.makedirs(d, exist_ok=True)
    p = os.path.join(d, safe(name) + ".json")
    with open(p, "w") as f:
        json.dump(payload, f, indent=1, default=str)
    return p


def replay_file(pid, path):
    payload = json.load(open(path))
    h = payload.get("harness")
    if not h:
        print("replay file carries no native harness (obligation %s): solver output only" % payload.get("obligation"))
        print(json.dumps(payload.get("solver"), indent=1)[:2000])
        return 1
    res = native(h, payload.get("inputs", {}))
    print(json.dumps(res, indent=1))
    if res.get("violates"):
        print("VIOLATION property=%s replay=%s" % (pid, path))
        return 1
    return 0


def finish(run, args):
    pid = run.pid
    mod = run.mod
    agg = run.summarise()
    known = [k for k in load_known() if isinstance(k, dict) and k.get("property") == pid]
    baseline = load_baseline(pid)
    base_names = set(baseline["discharged"]) if baseline else None
    lines = []
    violations = []
    undecided = []
    known_hits = []
    faults = list(run.unsupported)
    nobl = len(agg)
    ndis = sum(1 for a in agg.values() if a["verdict"] == "discharged")
    by_name = {}
    for r in run.results:
        by_name.setdefault(r["name"], []).append(r)

    import hashlib
    src = run.E.src

    def mod_sha(modname):
        t = src.module_src.get(modname)
        return hashlib.sha256(t.encode() if isinstance(t, str) else (t or b"")).hexdigest()[:16] if t is not None else None
    cur_sources = {m: mod_sha(m) for m in sorted(src.module_src)}
    base_sources = (baseline or {}).get("sources") or {}

    def same_source_as_baseline(obname):
        """the module the obligation's function lives in is byte-identical to the one the baseline was written from
        (obligation names start with the function's qualified name)"""
        mods = [m for m in cur_sources if obname.startswith(m + ".") or obname.startswith("lemma::")]
        mods = [m for m in mods if not obname.startswith("lemma::")] or []
        if not mods:
            return False
        m = max(mods, key=len)
        return base_sources.get(m) is not None and base_sources.get(m) == cur_sources.get(m)

    for name, a in sorted(agg.items()):
        if a["verdict"] == "discharged":
            continue
        if a["verdict"] == "error":
            faults.append("solver error on %s: %s" % (name, [r.get("reason") for r in by_name[name] if r["verdict"] == "error"][:1]))
            continue
        insts = [r for r in by_name[name] if r["verdict"] != "unsat"]
        sat = [r for r in insts if r["verdict"] == "sat"]
        cand = [r for r in insts if r["verdict"] == "candidate" or (r["verdict"] == "unknown" and r.get("model") is not None)]
        kf = [k for k in known if k.get("obligation") == name]
        rep = sat[0] if sat else (cand[0] if cand else insts[0])
        inputs = concretise(rep)
        harness = pick(getattr(mod, "REPLAY", {}), name)
        payload = dict(property=pid, obligation=name, tree=repo_root(),
                       solver=dict(verdict=rep["verdict"], backend=rep.get("backend"), reason=rep.get("reason"),
                                   secs=rep.get("secs"), model=rep.get("model"), cvc5=rep.get("cvc5")),
                       inputs=inputs, harness=harness, path=rep.get("path"))
        if kf:
            # a listed finding: its stored witness must still reproduce natively
            k = kf[0]
            ok = True
            if k.get("witness"):
                res = native(k["witness"]["harness"], k["witness"].get("args", {}))
                ok = bool(res.get("violates"))
                payload["native"] = res
            if ok:
                known_hits.append((k, name))
                continue
        if sat or cand:
            native_res = None
            if harness:
                native_res = native(harness, inputs)
                payload["native"] = native_res
                if not native_res.get("violates") and pick(getattr(mod, "SEARCH", {}), name):
                    sres = native(pick(mod.SEARCH, name), dict(seed=run.seed, around=inputs))
                    payload["native_search"] = sres
                    if sres.get("violates"):
                        native_res = sres
            path = write_replay(pid, name, payload)
            reproduced = bool(native_res and native_res.get("violates"))
            fragile = (not sat) and baseline is not None and any(
                b in ("z3", "cvc5") for b in (baseline.get("backends", {}).get(name) or []))
            changed_repr = sorted(getattr(run.E, "auto_fields", ()))
            if (not sat) and (not reproduced) and base_names is not None and name in base_names and same_source_as_baseline(name):
                # a candidate model (decidable weakening satisfiable, full query not decided even with the extended budget)
                # for an obligation that was DISCHARGED on byte-identical source: the verification condition is the same
                # formula as then, so this is the solver's budget, not the code
                undecided.append((name, "not re-established within the solver budget; discharged at baseline on identical source"))
            elif changed_repr and not reproduced:
                # the class has fields the contracts do not know (its representation was changed): the abstraction in the
                # contract no longer describes the object, so a failed proof without a natively reproduced input is not
                # evidence of a defect
                undecided.append((name, "representation changed (%s): contract needs updating; no failing input reproduced" % "; ".join(changed_repr)[:160]))
            elif fragile and not reproduced:
                # on the reference tree this obligation needed the quantified stage (solver-time dependent): a
                # candidate model without native confirmation is reported as undecided, not as a violation
                undecided.append((name, "candidate model on an obligation that needed the quantified stage at baseline"))
            else:
                violations.append((name, path, reproduced))
            continue
        # open without any model: bare timeout / unknown
        reason = "; ".join(sorted(set(str(r.get("reason")) for r in insts)))[:200]
        sres = None
        if pick(getattr(mod, "SEARCH", {}), name):
            h = pick(mod.SEARCH, name)
            sres = native(h, dict(seed=run.seed, around={}))
            payload["native_search"] = sres
            payload["harness"] = h
            if sres.get("violates"):
                payload["inputs"] = sres.get("inputs", {})
                path = write_replay(pid, name, payload)
                violations.append((name, path, True))
                continue
        undecided.append((name, reason))

    # code outside the verified subset (only ever on a changed tree: the reference tree has no such fault): the contracts
    # cannot speak about it, so nothing is proved or refuted by the verifier; the property's native replay battery is run
    # on the real code as a labelled stand-in, and only an input that actually fails there is reported
    if run.unsupported and not violations:
        # the harness paired with the function the fault names (longest key of the replay / search maps occurring in the
        # fault text), else the property's default battery
        hs = []
        for f in run.unsupported:
            for table in (getattr(mod, "REPLAY", {}), getattr(mod, "SEARCH", {})):
                # every harness whose key occurs in the fault text (most specific first), then the default battery
                keys = sorted((k for k in table if k != "*" and k in f), key=len, reverse=True)
                for h in [table[k] for k in keys] + ([table["*"]] if "*" in table else []):
                    if h not in hs:
                        hs.append(h)
        for h in hs:
            res = native(h, dict(seed=run.seed), timeout=600)
            if res.get("violates") and not res.get("timed_out"):
                name = "outside-verified-subset::" + safe(run.unsupported[0])[:100]
                payload = dict(property=pid, obligation=name, tree=repo_root(), harness=h, inputs=dict(seed=run.seed), native=res,
                               solver=dict(verdict="n/a", reason="function outside the verified subset (%s); the property's native "
                                           "battery fails on this tree" % "; ".join(run.unsupported)[:400]))
                path = write_replay(pid, name, payload)
                violations.append((name, path, True))
                break

    # bounded stand-ins (never counted as discharged obligations): native checks of assumed contracts
    bounded_runs = []
    for entry in getattr(mod, "BOUNDED", []):
        h, what = entry[0], entry[1]
        if len(entry) > 2 and entry[2] != run.tier:
            continue            # a stand-in registered for one tier only
        res = native(h, dict(seed=run.seed, tier=run.tier), timeout=1800 if run.tier == "thorough" else 300)
        bounded_runs.append(dict(harness=h, what=what, evaluations=res.get("evaluations"), ok=not res.get("violates"),
                                 error=res.get("error")))
        if res.get("error"):
            faults.append("bounded stand-in %s: %s" % (h, res["error"][-300:]))
        elif res.get("violates"):
            payload = dict(property=pid, obligation="bounded::" + h, tree=repo_root(), harness=h,
                           inputs=dict(seed=run.seed, tier=run.tier), native=res,
                           solver=dict(verdict="n/a", reason="bounded native check of an assumed contract failed"))
            path = write_replay(pid, "bounded::" + h, payload)
            violations.append(("bounded::" + h, path, True))
    # thorough tier: every native harness the property registers (replay / search maps) is also run once on the tree as it
    # is - a labelled bounded stand-in over the scenarios the obligations were paired with; witnesses of listed known
    # findings are left out (they are expected to fail and are replayed where their obligation is met)
    if run.tier == "thorough":
        done = set(b["harness"] for b in bounded_runs)
        skip = set(k["witness"]["harness"] for k in load_known() if isinstance(k, dict) and k.get("witness"))
        hs = []
        for table in (getattr(mod, "REPLAY", {}), getattr(mod, "SEARCH", {})):
            for h in table.values():
                if h not in done and h not in skip and h not in hs:
                    hs.append(h)
        for h in hs:
            res = native(h, dict(seed=run.seed, tier=run.tier), timeout=1800)
            bounded_runs.append(dict(harness=h, what="native scenarios paired with this property's obligations (thorough tier)",
                                     evaluations=res.get("evaluations"), ok=not res.get("violates"), error=res.get("error")))
            if res.get("error"):
                faults.append("bounded stand-in %s: %s" % (h, res["error"][-300:]))
            elif res.get("violates") and not res.get("timed_out"):
                payload = dict(property=pid, obligation="bounded::" + h, tree=repo_root(), harness=h,
                               inputs=dict(seed=run.seed, tier=run.tier), native=res,
                               solver=dict(verdict="n/a", reason="native scenario battery failed on this tree"))
                path = write_replay(pid, "bounded::" + h, payload)
                violations.append(("bounded::" + h, path, True))
    run.bounded_runs = bounded_runs

    # vacuity guards
    if nobl == 0:
        faults.append("zero obligations generated")
    for f in run.functions:
        if f["complete_paths"] == 0:
            faults.append("no complete path through %s" % f["qualname"])

    wall = time.time() - run.t0
    ev = evidence(run, agg, violations, undecided, known_hits, faults, wall, args)
    # evidence about /repo itself goes to evidence/; runs against a scratch tree (VERIF_REPO) must not overwrite it
    evdir = os.path.join(VERIF, "evidence") if os.path.realpath(repo_root()) == "/repo" else os.path.join(VERIF, "replays", "_scratch_evidence")
    os.makedirs(evdir, exist_ok=True)
    with open(os.path.join(evdir, pid + ".json"), "w") as f:
        json.dump(ev, f, indent=1, default=str)
    if args.write_baseline:
        os.makedirs(os.path.join(VERIF, "baseline"), exist_ok=True)
        with open(os.path.join(VERIF, "baseline", pid + ".json"), "w") as f:
            json.dump(dict(property=pid, discharged=sorted(n for n, a in agg.items() if a["verdict"] == "discharged"),
                           backends={n: a["backends"] for n, a in sorted(agg.items())},
                           sources={m: h for m, h in cur_sources.items() if any(n.startswith(m + ".") for n in agg)}), f, indent=1)
    if getattr(args, "v", False):
        for name, a in sorted(agg.items()):
            print("  %-11s %6.2fs x%-3d %s %s" % (a["verdict"], a["secs"], a["instances"], ",".join(a["backends"]), name))
    print("%s: %d obligations, %d discharged, %d paths, %.1fs" % (pid, nobl, ndis, run.paths, wall))
    for k, name in known_hits:
        print("KNOWN-FINDING: property=%s %s [%s]" % (pid, k.get("what"), name))
    if faults:
        for f in faults:
            print("CHECKER-FAULT: %s" % f)
        if not violations:
            return 3 if any("zero obligations" in f or "solver error" in f for f in faults) else 2
    for name, path, reproduced in violations:
        tail = "" if reproduced else " no-failing-input-found"
        print("FAILED-OBLIGATION %s" % name)
        print("VIOLATION property=%s replay=%s%s" % (pid, path, tail))
    if violations:
        return 1
    if undecided:
        for name, reason in undecided:
            print("UNDECIDED %s (%s)" % (name, reason))
        return 2
    return 0


def obl_key(name):
    return name


def pick(table, name):
    """harness registered under the longest key that is a substring of the obligation name ('*' = default)"""
    best = None
    for k, v in table.items():
        if k != "*" and k in name and (best is None or len(k) > len(best[0])):
            best = (k, v)
    return best[1] if best else table.get("*")


def evidence(run, agg, violations, undecided, known_hits, faults, wall, args):
    E = run.E
    nobl = len(agg)
    ndis = sum(1 for a in agg.values() if a["verdict"] == "discharged")
    backends = {}
    secs = {}
    for r in run.results:
        b = r.get("backend", "?")
        backends[b] = backends.get(b, 0) + 1
        secs[b] = secs.get(b, 0.0) + float(r.get("secs", 0.0))
    samples = []
    for r in run.results:
        if r.get("_smt2") and len(samples) < 3:
            txt = r["_smt2"]
            asserts = [l for l in txt.splitlines() if l.startswith("(assert") and "forall" not in l]
            samples.append(dict(obligation=r["name"], verdict=r["verdict"], backend=r.get("backend"),
                                secs=round(r.get("secs", 0), 4), axioms=r.get("axioms"),
                                hypotheses_and_negated_goal=[a[:300] for a in asserts[-6:]]))
    mod = run.mod
    trusted = sorted(set(list(getattr(mod, "TRUSTED", [])) +
                         ["intrinsic model: " + t for t in sorted(E.trusted_used)] +
                         ["assumed contract (callee not verified in this property): " + c
                          for c in sorted(E.contracts_used - set(t if isinstance(t, str) else t[0] for t in run.targets))]))
    assumptions = list(getattr(mod, "ASSUMPTIONS", [])) + [
        "Python ints are mathematical integers (exact); bytes/str are sequences over an axiomatised sort "
        "(len/at/cat/slice with triggers, extensionality)",
        "the symbolic executor's reading of the Python subset (DESIGN 3.2), incl. evaluation order",
        "z3 5.1 / cvc5 1.0.3 soundness",
    ]
    # a run that meets a listed known finding has NOT proved the property: it is recorded at level "other"
    level = "other" if known_hits else "proof"
    explanation = ("%d of %d obligations discharged; the remaining %d fail on the real code and are listed known findings "
                   "(each re-confirmed by replaying its stored native witness in this run): %s. The property does not hold "
                   "on this tree; the check exits 0 only because the failure is the listed one." % (
                       ndis, nobl, len(known_hits), "; ".join(n for _, n in known_hits))) if known_hits else (
        "all %d obligations generated from the current source were discharged" % nobl)
    ev = dict(
        property_id=run.pid, tier=run.tier, seed=run.seed, level=level,
        coverage=dict(
            obligations=nobl, discharged=ndis, explanation=explanation,
            obligation_instances=len(run.results),
            checker_cmd="./check %s --tier %s" % (run.pid, run.tier),
            trusted_base=trusted,
            backends=backends, solver_seconds={k: round(v, 3) for k, v in secs.items()},
            functions_under_contract=run.functions,
            paths=run.paths, complete_paths=run.complete_paths,
            samples=samples or [dict(note="all obligations were closed syntactically by the rope normaliser")],
            undecided=[n for n, _ in undecided],
            failed=[n for n, _, _ in violations],
            known_findings=[dict(obligation=n, what=k.get("what")) for k, n in known_hits],
            bounded=sorted(E.bounded) + ["%s: %s (%s evaluations, %s)" % (b["harness"], b["what"], b["evaluations"], "ok" if b["ok"] else "FAILED")
                                         for b in getattr(run, "bounded_runs", [])],
            argued=list(getattr(mod, "ARGUED", [])),
            extraction_drops="comments, docstrings, decorators %s; logging calls are effect-free after their "
                             "arguments are evaluated" % sorted(E.decorators_seen),
            repo=repo_root(),
            faults=faults,
        ),
        assumptions=assumptions,
        wall_s=round(wall, 2),
        violations=len(violations),
    )
    return ev
