"""Symbolic executor of pyvc: walks the *real* AST of a paramiko function, forks on symbolic branches
(decision-vector re-execution), cuts loops with invariants, applies callee contracts, and produces
named proof obligations (hypotheses => goal) for the SMT layer."""
import ast
import z3
from . import smt
from .values import *  # noqa
from .values import Unsupported, V, VInt, VBool, VNone, NONE, VFloat, Seg, VSeq, VTuple, VRef, VFunc, VClass, \
    VModule, VOpaque, VExc, HeapObj, is_conc, zint, zbool, simp
from .extract import dec

FEAS_MS = 1500


import os as _os
_FORKLOG = {} if _os.environ.get("PYVC_FORKLOG") else None


class PathEnd(Exception):
    pass


class ReturnSig(Exception):
    def __init__(self, value):
        self.value = value


class BreakSig(Exception):
    pass


class ContinueSig(Exception):
    pass


class PyExc(Exception):
    """a Python exception raised by the code under analysis"""

    def __init__(self, exc, site=""):
        self.exc = exc  # VExc
        self.site = site


class Path:
    def __init__(self, prefix):
        self.trace = list(prefix)
        self.ptr = 0
        self.alts = []

    def replaying(self):
        return self.ptr < len(self.trace)

    def next(self):
        v = self.trace[self.ptr]
        self.ptr += 1
        return v

    def record(self, v, alternatives=()):
        base = self.trace[:self.ptr]
        for a in alternatives:
            self.alts.append(base + [a])
        self.trace.append(v)
        self.ptr += 1


class Frame:
    def __init__(self, finfo, locals_, module, cls):
        self.finfo = finfo
        self.locals = locals_
        self.module = module
        self.cls = cls
        self.spec = False
        self.old_heap = None      # snapshot for old(...)
        self.closure = None       # enclosing frame for nested functions
        self.in_old = False
        self.old_ghost = None
        self.entry_locals = None
        self.entry_heap = None
        self.current_exc = None


class State:
    def __init__(self, engine, path):
        self.engine = engine
        self.path = path
        self.pc = []
        self.solver = z3.Solver()          # quantifier-free facts only: branch feasibility, rope decisions
        self.solver.set("timeout", FEAS_MS)
        self.qsolver = None                # all facts, created when the first quantified fact is assumed
        self.heap = {}
        self.next_ref = 1
        self.counter = {}
        self.obligations = []
        self.ghost = {}
        self.ghost_init = {}
        self.held = {}
        self.defs = {}     # symbol name -> list of defining facts (constants)
        self.inputs = []   # descriptors of input symbols, for counterexamples
        self.notes = []
        self.depth = 0
        self.steps = 0
        self.events = []   # ghost event log (meta-level list)

    # ---- symbols ----
    def fresh_name(self, hint):
        k = self.counter.get(hint, 0)
        self.counter[hint] = k + 1
        return hint if k == 0 else "%s!%d" % (hint, k)

    def fresh_int(self, hint):
        return z3.Int(self.fresh_name(hint))

    def fresh_bool(self, hint):
        return z3.Bool(self.fresh_name(hint))

    def fresh_seq(self, hint):
        return z3.Const(self.fresh_name(hint), smt.Seq)

    # ---- path condition ----
    def assume(self, c):
        c = simp(c)
        if c is True:
            return
        if c is False:
            raise PathEnd()
        self.pc.append(c)
        if smt._has_quant(c):
            if self.qsolver is None:
                self.qsolver = z3.Solver()
                self.qsolver.set("timeout", 4000)
                for h in self.pc[:-1]:
                    self.qsolver.add(h)
            self.qsolver.add(c)
        else:
            self.solver.add(c)
            if self.qsolver is not None:
                self.qsolver.add(c)

    def check_sat(self, extra=None):
        r = self.solver.check(*([extra] if extra is not None else []))
        return r

    def feasible(self):
        return self.check_sat() != z3.unsat

    def proves(self, c):
        c = simp(c)
        if c is True:
            return True
        if c is False:
            return False
        return self.check_sat(z3.Not(c)) == z3.unsat

    def decide(self, c, forced_ok=True):
        """branch on boolean term c; forks the path when both outcomes are feasible"""
        c = simp(c)
        if c is True or c is False:
            return c
        p = self.path
        if p.replaying():
            v = p.next()
            self.assume(c if v else z3.Not(c))
            return v
        rt = self.check_sat(c)
        rf = self.check_sat(z3.Not(c))
        if rt == z3.unsat and rf == z3.unsat:
            raise PathEnd()
        if rf == z3.unsat:
            p.record(True)
            self.assume(c)
            return True
        if rt == z3.unsat:
            p.record(False)
            self.assume(z3.Not(c))
            return False
        p.record(True, alternatives=[False])
        if _FORKLOG is not None:
            _FORKLOG[str(c)[:120].replace("\n", " ")] = _FORKLOG.get(str(c)[:120].replace("\n", " "), 0) + 1
        self.assume(c)
        return True

    def choose(self, n):
        """non-deterministic choice among n alternatives (no feasibility test here)"""
        p = self.path
        if p.replaying():
            return p.next()
        p.record(0, alternatives=list(range(1, n)))
        if _FORKLOG is not None:
            import traceback as _tb
            k = "choose(%d) at %s" % (n, " < ".join("%s:%d" % (f.name, f.lineno) for f in _tb.extract_stack(limit=5)[:-1][::-1]))
            _FORKLOG[k] = _FORKLOG.get(k, 0) + 1
        return 0

    # ---- obligations ----
    def oblige(self, name, goal, kind="explicit"):
        goal = simp(goal)
        if goal is True:
            self.obligations.append(dict(name=name, trivial=True, backend="syntactic", secs=0.0))
            return
        goal = zbool(goal)
        import time as _t
        t0 = _t.time()
        full = self.qsolver if (self.qsolver is not None) else self.solver
        if full.check(z3.Not(goal)) == z3.unsat:
            # closed by the path solver itself: quantifier-free hypotheses only (no axioms were needed)
            self.obligations.append(dict(name=name, trivial=True, backend="z3-path", secs=_t.time() - t0))
            self.assume(goal)
            return
        self.obligations.append(dict(name=name, hyps=list(self.pc), goal=goal, defs=dict(self.defs),
                                     inputs=list(self.inputs), trivial=False, kind=kind))
        # continue under the assumption that it holds (standard)
        self.assume(goal)

    # ---- heap ----
    def alloc(self, cls, kind="obj"):
        r = self.next_ref
        self.next_ref += 1
        self.heap[r] = HeapObj(cls, kind)
        return VRef(r)

    def snapshot(self):
        snap = {}
        for r, o in self.heap.items():
            d = dict(o.fields)
            dd = o.data
            if isinstance(dd, list):
                dd = list(dd)
            elif isinstance(dd, dict):
                dd = dict(dd)
            snap[r] = (d, dd)
        return snap
