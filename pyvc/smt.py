"""SMT layer of pyvc: theory of sequences (axiomatised, Dafny/Boogie style), byte lemmas,
axiom slicing by cone of influence, and discharge of obligations on a process pool
(z3 first, /usr/bin/cvc5 on what z3 leaves open).

Runs under python3-vt (z3-solver 5.1).  Nothing here looks at paramiko.
"""
import os
import re
import subprocess
import tempfile
import time
import z3

Int = z3.IntSort()
Bool = z3.BoolSort()
Seq = z3.DeclareSort("BSeq")

slen = z3.Function("s_len", Seq, Int)
sat_ = z3.Function("s_at", Seq, Int, Int)
scat = z3.Function("scat", Seq, Seq, Seq)
sslice = z3.Function("sslice", Seq, Int, Int, Seq)
sempty = z3.Const("sempty", Seq)
sunit = z3.Function("sunit", Int, Seq)
srep = z3.Function("srep", Int, Int, Seq)
seqeq = z3.Function("seqeq", Seq, Seq, Bool)
sdiff = z3.Function("sdiff", Seq, Seq, Int)
pack32 = z3.Function("pack32", Int, Seq)
unpack32 = z3.Function("unpack32", Seq, Int)
pack64 = z3.Function("pack64", Int, Seq)
unpack64 = z3.Function("unpack64", Seq, Int)
# byte-level bit operations kept uninterpreted; facts are attached per use site
bxor = z3.Function("bxor", Int, Int, Int)
bor = z3.Function("bor", Int, Int, Int)
band = z3.Function("band", Int, Int, Int)
pow2 = z3.Function("pow2", Int, Int)
# big-endian Horner accumulator over a byte sequence: bacc(a, s)
bacc = z3.Function("bacc", Int, Seq, Int)
# utf-8
utf8enc = z3.Function("utf8enc", Seq, Seq)
utf8dec = z3.Function("utf8dec", Seq, Seq)
utf8ok = z3.Function("utf8ok", Seq, Bool)

_s, _a, _b = z3.Consts("s_ a_ b_", Seq)
_i, _j, _lo, _hi, _n, _x, _y = z3.Ints("i_ j_ lo_ hi_ n_ x_ y_")


def _fa(vs, body, pats):
    return z3.ForAll(vs, body, patterns=pats)


# name -> (trigger symbol names, axiom). An axiom is included in a query when one of its
# trigger symbols occurs in the query (computed to a fixed point, since an axiom can
# mention further symbols).
AXIOMS = {
    "len_nonneg": (["s_len"], _fa([_s], slen(_s) >= 0, [slen(_s)])),
    "cat_len": (["scat"], _fa([_a, _b], slen(scat(_a, _b)) == slen(_a) + slen(_b), [scat(_a, _b)])),
    "cat_at": (["scat"], _fa([_a, _b, _i],
                            z3.Implies(z3.And(0 <= _i, _i < slen(_a) + slen(_b)),
                                       sat_(scat(_a, _b), _i) ==
                                       z3.If(_i < slen(_a), sat_(_a, _i), sat_(_b, _i - slen(_a)))),
                            [sat_(scat(_a, _b), _i)])),
    "slice_len": (["sslice"], _fa([_s, _lo, _hi],
                                  z3.Implies(z3.And(0 <= _lo, _lo <= _hi, _hi <= slen(_s)),
                                             slen(sslice(_s, _lo, _hi)) == _hi - _lo),
                                  [sslice(_s, _lo, _hi)])),
    "slice_at": (["sslice"], _fa([_s, _lo, _hi, _i],
                                 z3.Implies(z3.And(0 <= _lo, _lo <= _hi, _hi <= slen(_s), 0 <= _i, _i < _hi - _lo),
                                            sat_(sslice(_s, _lo, _hi), _i) == sat_(_s, _lo + _i)),
                                 [sat_(sslice(_s, _lo, _hi), _i)])),
    "slice_full": (["sslice"], _fa([_s, _lo, _hi], z3.Implies(z3.And(_lo == 0, _hi == slen(_s)), sslice(_s, _lo, _hi) == _s),
                                   [sslice(_s, _lo, _hi)])),
    "empty_len": (["sempty"], slen(sempty) == 0),
    "unit": (["sunit"], _fa([_x], z3.And(slen(sunit(_x)) == 1, sat_(sunit(_x), 0) == _x), [sunit(_x)])),
    "rep_len": (["srep"], _fa([_x, _n], z3.Implies(_n >= 0, slen(srep(_x, _n)) == _n), [srep(_x, _n)])),
    "rep_at": (["srep"], _fa([_x, _n, _i], z3.Implies(z3.And(0 <= _i, _i < _n), sat_(srep(_x, _n), _i) == _x),
                             [sat_(srep(_x, _n), _i)])),
    "seqeq_def": (["seqeq"], _fa([_a, _b], seqeq(_a, _b) == (_a == _b), [seqeq(_a, _b)])),
    "ext": (["seqeq"], _fa([_a, _b],
                           z3.Or(_a == _b, slen(_a) != slen(_b),
                                 z3.And(0 <= sdiff(_a, _b), sdiff(_a, _b) < slen(_a),
                                        sat_(_a, sdiff(_a, _b)) != sat_(_b, sdiff(_a, _b)))),
                           [seqeq(_a, _b)])),
    "pack32_len": (["pack32"], _fa([_n], slen(pack32(_n)) == 4, [pack32(_n)])),
    "pack32_inv": (["pack32"], _fa([_n], z3.Implies(z3.And(0 <= _n, _n < 2 ** 32), unpack32(pack32(_n)) == _n),
                                  [pack32(_n)])),
    "pack32_digits": (["pack32"], _fa([_n], z3.Implies(z3.And(0 <= _n, _n < 2 ** 32), z3.And(
        sat_(pack32(_n), 0) == _n / (2 ** 24),
        sat_(pack32(_n), 1) == (_n / (2 ** 16)) % 256,
        sat_(pack32(_n), 2) == (_n / (2 ** 8)) % 256,
        sat_(pack32(_n), 3) == _n % 256)), [pack32(_n)])),
    "unpack32_rng": (["unpack32"], _fa([_s], z3.And(0 <= unpack32(_s), unpack32(_s) < 2 ** 32), [unpack32(_s)])),
    "unpack32_inv": (["unpack32"], _fa([_s], z3.Implies(slen(_s) == 4, pack32(unpack32(_s)) == _s), [unpack32(_s)])),
    "unpack32_digits": (["unpack32"], _fa([_s], z3.Implies(
        z3.And(slen(_s) == 4, 0 <= sat_(_s, 0), sat_(_s, 0) < 256, 0 <= sat_(_s, 1), sat_(_s, 1) < 256,
               0 <= sat_(_s, 2), sat_(_s, 2) < 256, 0 <= sat_(_s, 3), sat_(_s, 3) < 256),
        unpack32(_s) == sat_(_s, 0) * 2 ** 24 + sat_(_s, 1) * 2 ** 16 + sat_(_s, 2) * 2 ** 8 + sat_(_s, 3)),
        [unpack32(_s)])),
    "pack64_len": (["pack64"], _fa([_n], slen(pack64(_n)) == 8, [pack64(_n)])),
    "pack64_inv": (["pack64"], _fa([_n], z3.Implies(z3.And(0 <= _n, _n < 2 ** 64), unpack64(pack64(_n)) == _n),
                                  [pack64(_n)])),
    "unpack64_rng": (["unpack64"], _fa([_s], z3.And(0 <= unpack64(_s), unpack64(_s) < 2 ** 64), [unpack64(_s)])),
    "unpack64_inv": (["unpack64"], _fa([_s], z3.Implies(slen(_s) == 8, pack64(unpack64(_s)) == _s), [unpack64(_s)])),
    "pow2_0": (["pow2"], pow2(0) == 1),
    "pow2_step": (["pow2"], _fa([_n], z3.Implies(_n >= 0, z3.And(pow2(_n + 1) == 2 * pow2(_n), pow2(_n) >= 1)), [pow2(_n)])),
    "utf8_dec_enc": (["utf8enc"], _fa([_s], z3.And(utf8ok(utf8enc(_s)), utf8dec(utf8enc(_s)) == _s), [utf8enc(_s)])),
    "utf8_enc_dec": (["utf8dec"], _fa([_s], z3.Implies(utf8ok(_s), utf8enc(utf8dec(_s)) == _s), [utf8dec(_s)])),
}

_SYMS_CACHE = {}


def symbols_of(e, acc=None):
    """names of uninterpreted function symbols occurring in expression e"""
    if acc is None:
        acc = set()
    seen = set()
    stack = [e]
    while stack:
        t = stack.pop()
        k = t.get_id()
        if k in seen:
            continue
        seen.add(k)
        if z3.is_quantifier(t):
            stack.append(t.body())
            continue
        if z3.is_app(t):
            d = t.decl()
            if d.kind() == z3.Z3_OP_UNINTERPRETED:
                acc.add(d.name())
            stack.extend(t.children())
    return acc


def axioms_for(exprs, extra_axioms=()):
    """axiom slicing: the axioms whose trigger symbols occur in the cone of influence"""
    syms = set()
    for e in exprs:
        symbols_of(e, syms)
    for e in extra_axioms:
        symbols_of(e, syms)
    chosen = {}
    changed = True
    while changed:
        changed = False
        for name, (trigs, ax) in AXIOMS.items():
            if name in chosen:
                continue
            if any(t in syms for t in trigs):
                chosen[name] = ax
                if name not in _SYMS_CACHE:
                    _SYMS_CACHE[name] = symbols_of(ax)
                new = _SYMS_CACHE[name] - syms
                if new:
                    syms |= new
                changed = True
    return chosen


def to_smt2(hyps, goal, extra_axioms=(), slicing=True):
    """SMT-LIB2 text of the query  axioms /\\ hyps /\\ not goal  (unsat = discharged)"""
    s = z3.Solver()
    exprs = list(hyps) + [goal]
    axs = axioms_for(exprs, extra_axioms) if slicing else {k: v[1] for k, v in AXIOMS.items()}
    for name in sorted(axs):
        s.add(axs[name])
    for e in extra_axioms:
        s.add(e)
    for h in hyps:
        s.add(h)
    s.add(z3.Not(goal))
    return s.to_smt2(), sorted(axs)


def _subterms(exprs):
    seen = {}
    stack = list(exprs)
    while stack:
        t = stack.pop()
        k = t.get_id()
        if k in seen:
            continue
        if z3.is_quantifier(t):
            continue   # terms under binders are not ground
        seen[k] = t
        if z3.is_app(t):
            stack.extend(t.children())
    return list(seen.values())


def ground_instances(exprs, rounds=4):
    """quantifier-free instances of the sequence axioms for the ground terms that occur (hand-rolled,
    bounded E-matching).  Every instance is a consequence of AXIOMS, so  unsat  of the ground query is a
    proof, and  sat  yields a genuine model of a decidable weakening (candidate counterexample)."""
    out = {}
    cur = list(exprs)
    for _ in range(rounds):
        new = []
        for t in _subterms(cur):
            if not z3.is_app(t):
                continue
            n = t.decl().name() if t.decl().kind() == z3.Z3_OP_UNINTERPRETED else None
            if n is None:
                continue
            inst = []
            a = t.children()
            if n == "s_len":
                inst.append(t >= 0)
                x = a[0]
                xn = x.decl().name() if z3.is_app(x) and x.decl().kind() == z3.Z3_OP_UNINTERPRETED else None
                xa = x.children() if z3.is_app(x) else []
                if xn == "scat":
                    inst.append(t == slen(xa[0]) + slen(xa[1]))
                elif xn == "sslice":
                    inst.append(z3.Implies(z3.And(0 <= xa[1], xa[1] <= xa[2], xa[2] <= slen(xa[0])), t == xa[2] - xa[1]))
                elif xn == "pack32":
                    inst.append(t == 4)
                elif xn == "pack64":
                    inst.append(t == 8)
                elif xn == "sunit":
                    inst.append(t == 1)
                elif xn == "srep":
                    inst.append(z3.Implies(xa[1] >= 0, t == xa[1]))
                elif xn == "sempty":
                    inst.append(t == 0)
            elif n in ("scat", "sslice", "pack32", "pack64", "sunit", "srep"):
                inst.append(slen(t) >= 0)
                if n == "scat":
                    inst.append(slen(t) == slen(a[0]) + slen(a[1]))
                elif n == "sslice":
                    inst.append(z3.Implies(z3.And(0 <= a[1], a[1] <= a[2], a[2] <= slen(a[0])), slen(t) == a[2] - a[1]))
                    inst.append(z3.Implies(z3.And(a[1] == 0, a[2] == slen(a[0])), t == a[0]))
                elif n == "pack32":
                    inst.append(slen(t) == 4)
                    inst.append(z3.Implies(z3.And(0 <= a[0], a[0] < 2 ** 32), unpack32(t) == a[0]))
                elif n == "pack64":
                    inst.append(slen(t) == 8)
                    inst.append(z3.Implies(z3.And(0 <= a[0], a[0] < 2 ** 64), unpack64(t) == a[0]))
                elif n == "sunit":
                    inst.append(z3.And(slen(t) == 1, sat_(t, 0) == a[0]))
                elif n == "srep":
                    inst.append(z3.Implies(a[1] >= 0, slen(t) == a[1]))
            elif n == "unpack32":
                inst.append(z3.And(0 <= t, t < 2 ** 32))
                inst.append(z3.Implies(slen(a[0]) == 4, pack32(t) == a[0]))
            elif n == "unpack64":
                inst.append(z3.And(0 <= t, t < 2 ** 64))
                inst.append(z3.Implies(slen(a[0]) == 8, pack64(t) == a[0]))
            elif n == "s_at":
                x, i = a
                xn = x.decl().name() if z3.is_app(x) and x.decl().kind() == z3.Z3_OP_UNINTERPRETED else None
                xa = x.children() if z3.is_app(x) else []
                if xn == "scat":
                    inst.append(z3.Implies(z3.And(0 <= i, i < slen(xa[0]) + slen(xa[1])),
                                           t == z3.If(i < slen(xa[0]), sat_(xa[0], i), sat_(xa[1], i - slen(xa[0])))))
                elif xn == "sslice":
                    inst.append(z3.Implies(z3.And(0 <= xa[1], xa[1] <= xa[2], xa[2] <= slen(xa[0]), 0 <= i, i < xa[2] - xa[1]),
                                           t == sat_(xa[0], xa[1] + i)))
                elif xn == "srep":
                    inst.append(z3.Implies(z3.And(0 <= i, i < xa[1]), t == xa[0]))
                elif xn == "sunit":
                    inst.append(z3.Implies(i == 0, t == xa[0]))
                elif xn == "pack32":
                    nn = xa[0]
                    inst.append(z3.Implies(z3.And(0 <= nn, nn < 2 ** 32), z3.And(
                        z3.Implies(i == 0, t == nn / (2 ** 24)), z3.Implies(i == 1, t == (nn / (2 ** 16)) % 256),
                        z3.Implies(i == 2, t == (nn / (2 ** 8)) % 256), z3.Implies(i == 3, t == nn % 256))))
            elif n == "seqeq":
                inst.append(t == (a[0] == a[1]))
                inst.append(z3.Implies(t, slen(a[0]) == slen(a[1])))
                # extensionality with its skolem witness (ground): unequal sequences differ in length or at sdiff(a,b)
                d = sdiff(a[0], a[1])
                inst.append(z3.Or(a[0] == a[1], slen(a[0]) != slen(a[1]),
                                  z3.And(0 <= d, d < slen(a[0]), sat_(a[0], d) != sat_(a[1], d))))
            elif n == "pow2":
                inst.append(z3.Implies(a[0] >= 0, t >= 1))
                inst.append(z3.Implies(a[0] == 0, t == 1))
            elif n == "utf8enc":
                inst.append(z3.And(utf8ok(t), utf8dec(t) == a[0]))
            elif n == "utf8dec":
                inst.append(z3.Implies(utf8ok(a[0]), utf8enc(t) == a[0]))
            for f in inst:
                k = f.get_id()
                if k not in out:
                    out[k] = f
                    new.append(f)
        if not new:
            break
        cur = new
    return list(out.values())


def to_smt2_ground(hyps, goal, extra_ground=()):
    """quantifier-free query: hyps /\\ ground axiom instances /\\ not goal.  Quantified hypotheses are dropped
    (weakening), so unsat is still a proof and sat a candidate model."""
    s = z3.Solver()
    qf = [h for h in hyps if not _has_quant(h)]
    neg = z3.Not(goal)
    exprs = qf + [neg]
    if _has_quant(neg):
        return None
    for f in ground_instances(exprs):
        s.add(f)
    for e in extra_ground:
        s.add(e)
    for h in qf:
        s.add(h)
    s.add(neg)
    return s.to_smt2()


_QFREE = set()      # ids of terms known to be quantifier free (terms are hash-consed; kept alive by the path conditions)
_QKEEP = []


def _has_quant(e):
    if e.get_id() in _QFREE:
        return False
    stack = [e]
    seen = set()
    while stack:
        t = stack.pop()
        i = t.get_id()
        if i in seen or i in _QFREE:
            continue
        seen.add(i)
        if z3.is_quantifier(t):
            return True
        if z3.is_app(t):
            stack.extend(t.children())
    if len(_QFREE) < 2000000:
        _QFREE.update(seen)
        _QKEEP.append(e)        # keep the term alive so that its id is not reused
    return False


def _model_values(m, wanted):
    """evaluate the 'wanted' descriptors in model m.  wanted: list of dicts
    {name, kind: int|bool|seq, smt: <sexpr of the term>} ; terms are re-parsed in the
    worker from declarations in the query, so we pass the term as smt text."""
    out = {}
    for w in wanted:
        try:
            t = w["_term"]
            if w["kind"] in ("int", "bool"):
                v = m.eval(t, model_completion=True)
                out[w["name"]] = str(v)
            elif w["kind"] == "seq":
                ln = m.eval(slen(t), model_completion=True)
                n = int(str(ln))
                n = max(0, min(n, 64))
                elems = []
                for i in range(n):
                    elems.append(int(str(m.eval(sat_(t, i), model_completion=True))))
                out[w["name"]] = {"len": int(str(ln)), "elems": elems}
        except Exception as ex:  # model evaluation is best effort
            out[w["name"]] = "?" + type(ex).__name__
    return out


def solve_smt2_z3(smt2, timeout_ms, wanted_sexprs=None):
    """returns (verdict, seconds, reason, modelvalues)"""
    t0 = time.time()
    ctx = z3.Context()
    s = z3.Solver(ctx=ctx)
    s.set("timeout", timeout_ms)
    text = smt2
    wl = wanted_sexprs or []
    s.from_string(text)
    r = s.check()
    dt = time.time() - t0
    if r == z3.unsat:
        return "unsat", dt, "", None
    reason = s.reason_unknown() if r == z3.unknown else ""
    mv = None
    if r == z3.sat or (r == z3.unknown and "incomplete" in reason):
        try:
            m = s.model()
            mv = {}
            if wl:
                # parse the wanted terms in the same context through a tiny extra query
                decls = "\n".join(l for l in text.splitlines() if l.startswith("(declare-"))
                terms = {}
                for w in wl:
                    try:
                        q = decls + "\n(assert (= %s %s))\n" % (w["sexpr"], w["sexpr"])
                        fs = z3.parse_smt2_string(q, ctx=ctx)
                        terms[w["name"]] = fs[0].arg(0)
                    except Exception:
                        pass
                if r == z3.sat:
                    # prefer a small model (short sequences, small integers) for replay
                    slen_c = z3.Function("s_len", z3.DeclareSort("BSeq", ctx), z3.IntSort(ctx))
                    for bound in (8, 64, 4096):
                        s.push()
                        for w in wl:
                            t = terms.get(w["name"])
                            if t is None:
                                continue
                            if w["kind"] == "seq":
                                s.add(slen_c(t) <= bound)
                            elif w["kind"] == "int":
                                s.add(t <= bound * bound, t >= -bound * bound)
                        s.set("timeout", 3000)
                        r2 = s.check()
                        if r2 == z3.sat:
                            m = s.model()
                            s.pop()
                            break
                        s.pop()
                for w in wl:
                    try:
                        term = terms[w["name"]]
                        if w["kind"] == "seq":
                            slen_c = z3.Function("s_len", z3.DeclareSort("BSeq", ctx), z3.IntSort(ctx))
                            sat_c = z3.Function("s_at", z3.DeclareSort("BSeq", ctx), z3.IntSort(ctx), z3.IntSort(ctx))
                            ln = m.eval(slen_c(term), model_completion=True)
                            n = int(str(ln))
                            elems = [int(str(m.eval(sat_c(term, z3.IntVal(i, ctx)), model_completion=True)))
                                     for i in range(max(0, min(n, 64)))]
                            mv[w["name"]] = {"len": n, "elems": elems}
                        else:
                            mv[w["name"]] = str(m.eval(term, model_completion=True))
                    except Exception as ex:
                        mv[w["name"]] = "?" + type(ex).__name__ + ":" + str(ex)[:80]
        except Exception as ex:
            mv = {"?": str(ex)[:100]}
    return ("sat" if r == z3.sat else "unknown"), dt, reason, mv


def solve_smt2_cvc5(smt2, timeout_s):
    t0 = time.time()
    text = smt2
    if "(set-logic" not in text:
        text = "(set-logic ALL)\n" + text
    with tempfile.NamedTemporaryFile("w", suffix=".smt2", delete=False) as f:
        f.write(text)
        path = f.name
    try:
        p = subprocess.run(["/usr/bin/cvc5", "--tlimit=%d" % int(timeout_s * 1000), path],
                           capture_output=True, text=True, timeout=timeout_s + 5)
        out = (p.stdout or "").strip().splitlines()
        v = out[0].strip() if out else "unknown"
        if v not in ("sat", "unsat", "unknown"):
            v = "unknown"
        reason = (p.stderr or "")[:200]
    except subprocess.TimeoutExpired:
        v, reason = "unknown", "timeout"
    finally:
        os.unlink(path)
    return v, time.time() - t0, reason


def discharge_one(job):
    """job: dict(name, smt2, wanted, z3_ms, cvc5_s, use_cvc5) -> result dict.  Runs in a worker."""
    res = {"name": job["name"], "backend": "z3", "verdict": None, "secs": 0.0, "reason": "", "model": None}
    try:
        ground = None
        if job.get("smt2_ground"):
            gv, gdt, greason, gmv = solve_smt2_z3(job["smt2_ground"], job.get("ground_ms", 5000), job.get("wanted"))
            ground = dict(verdict=gv, secs=gdt, reason=greason, model=gmv)
            res["ground"] = ground
            if gv == "unsat":
                res.update(verdict="unsat", backend="z3-ground", secs=gdt)
                return res
        v, dt, reason, mv = solve_smt2_z3(job["smt2"], job.get("z3_ms", 10000), job.get("wanted"))
        res.update(verdict=v, secs=dt + (ground["secs"] if ground else 0), reason=reason, model=mv)
        if v == "unknown" and job.get("use_cvc5", True):
            v2, dt2, r2 = solve_smt2_cvc5(job["smt2"], job.get("cvc5_s", 20))
            res["cvc5"] = {"verdict": v2, "secs": dt2, "reason": r2}
            if v2 == "unsat":
                res.update(verdict="unsat", backend="cvc5", secs=res["secs"] + dt2)
            elif v2 == "sat":
                res.update(verdict="sat", backend="cvc5", secs=res["secs"] + dt2)
            else:
                res["secs"] = res["secs"] + dt2
        elif job.get("recheck_cvc5"):
            v2, dt2, r2 = solve_smt2_cvc5(job["smt2"], job.get("cvc5_s", 20))
            res["cvc5"] = {"verdict": v2, "secs": dt2, "reason": r2}
        if res["verdict"] == "unknown":
            # nothing decided within the budget (a loaded machine is enough for that): one more attempt with six times the
            # time before the obligation is reported open / as a candidate
            v3, dt3, r3, mv3 = solve_smt2_z3(job["smt2"], 6 * job.get("z3_ms", 10000), job.get("wanted"))
            res["retry"] = {"verdict": v3, "secs": dt3}
            res["secs"] = res["secs"] + dt3
            if v3 in ("unsat", "sat"):
                res.update(verdict=v3, backend="z3", reason=r3, model=mv3 if v3 == "sat" else None)
        if res["verdict"] == "unknown" and ground and ground["verdict"] == "sat":
            # the decidable weakening has a model and the full theory could not exclude it
            res.update(verdict="candidate", model=ground["model"],
                       reason="ground model; full query: %s" % (reason or "unknown"))
    except Exception as ex:
        res.update(verdict="error", reason="%s: %s" % (type(ex).__name__, ex))
    return res


_REFUTED = None      # shared flags, one per obligation name (set before the pool forks)


def _discharge_shared(job):
    """an obligation is refuted as soon as one of its path instances is: the remaining instances of a name
    that already has a counter-model are not sent through the slow stages again (their verdict is 'skipped',
    which never counts as discharged).  A query shared by several names is skipped only if all are refuted."""
    ids = job.get("name_ids") or []
    if _REFUTED is not None and ids and all(_REFUTED[i] for i in ids):
        return {"name": job["name"], "backend": "none", "verdict": "skipped", "secs": 0.0,
                "reason": "another instance of this obligation already has a counter-model", "model": None}
    res = discharge_one(job)
    if _REFUTED is not None and res.get("verdict") in ("sat", "candidate"):
        for i in ids:
            _REFUTED[i] = 1
    return res


def discharge_all(jobs, procs=None):
    import multiprocessing as mp
    global _REFUTED
    if not jobs:
        return []
    procs = procs or min(16, os.cpu_count() or 4)
    ctx = mp.get_context("fork")
    names = {}
    for j in jobs:
        j["name_ids"] = [names.setdefault(n, len(names)) for n in (j.get("names") or [j["name"]])]
    _REFUTED = ctx.Array("b", max(1, len(names)), lock=False)
    try:
        if len(jobs) == 1 or procs == 1:
            return [_discharge_shared(j) for j in jobs]
        with ctx.Pool(min(procs, len(jobs))) as pool:
            return pool.map(_discharge_shared, jobs, chunksize=1)
    finally:
        _REFUTED = None
