"""Symbolic values of pyvc."""
import z3
from . import smt


class Unsupported(Exception):
    """the function uses something outside the supported subset: verdict undecided, never violation"""


class V:
    pass


def is_conc(t):
    return isinstance(t, (int, bool)) and not isinstance(t, z3.ExprRef)


def zint(t):
    if isinstance(t, bool):
        return z3.IntVal(1 if t else 0)
    if isinstance(t, int):
        return z3.IntVal(t)
    return t


def zbool(t):
    if isinstance(t, bool):
        return z3.BoolVal(t)
    return t


def simp(t):
    """light simplification; fold to python value when concrete"""
    if isinstance(t, z3.ExprRef):
        t = z3.simplify(t)
        if z3.is_int_value(t):
            return t.as_long()
        if z3.is_true(t):
            return True
        if z3.is_false(t):
            return False
    return t


class VInt(V):
    __slots__ = ("t",)

    def __init__(self, t):
        if isinstance(t, bool):
            t = int(t)
        self.t = t

    def __repr__(self):
        return "VInt(%s)" % (self.t,)


class VBool(V):
    __slots__ = ("t",)

    def __init__(self, t):
        self.t = t

    def __repr__(self):
        return "VBool(%s)" % (self.t,)


class VNone(V):
    def __repr__(self):
        return "VNone"


NONE = VNone()


class VFloat(V):
    """times and timeouts: a real-valued term"""
    __slots__ = ("t",)

    def __init__(self, t):
        self.t = t


class Seg:
    """segment of a rope.  kind: C const (tuple of ints) | A atom (z3 Seq term, length) |
    P32 / P64 packed big-endian int | U unit (one element) | R repeat (elem, count)"""
    __slots__ = ("kind", "a", "b")

    def __init__(self, kind, a, b=None):
        self.kind, self.a, self.b = kind, a, b

    def length(self):
        k = self.kind
        if k == "C":
            return len(self.a)
        if k == "A":
            return self.b
        if k == "P32":
            return 4
        if k == "P64":
            return 8
        if k == "U":
            return 1
        if k == "R":
            return self.b
        raise AssertionError(k)

    def __repr__(self):
        return "Seg(%s,%s,%s)" % (self.kind, self.a, self.b)


class VSeq(V):
    """bytes / str / bytearray value as a rope of segments"""
    __slots__ = ("segs", "pytype")

    def __init__(self, segs, pytype="bytes"):
        self.segs = [s for s in segs if not (s.kind == "C" and len(s.a) == 0)]
        self.pytype = pytype

    def __repr__(self):
        return "VSeq<%s>(%s)" % (self.pytype, self.segs)


class VTuple(V):
    __slots__ = ("items",)

    def __init__(self, items):
        self.items = list(items)

    def __repr__(self):
        return "VTuple(%s)" % (self.items,)


class VRef(V):
    """reference to a heap object (instance, list, dict, BytesIO ...)"""
    __slots__ = ("ref",)

    def __init__(self, ref):
        self.ref = ref

    def __repr__(self):
        return "VRef(%s)" % self.ref


class VFunc(V):
    """function / bound method / builtin reference"""
    __slots__ = ("qualname", "self", "closure")

    def __init__(self, qualname, self_=None, closure=None):
        self.qualname, self.self, self.closure = qualname, self_, closure

    def __repr__(self):
        return "VFunc(%s)" % self.qualname


class VClass(V):
    __slots__ = ("qualname",)

    def __init__(self, qualname):
        self.qualname = qualname

    def __repr__(self):
        return "VClass(%s)" % self.qualname


class VModule(V):
    __slots__ = ("name",)

    def __init__(self, name):
        self.name = name


class VOpaque(V):
    """value the engine knows nothing about except a tag and an identity term"""
    __slots__ = ("tag", "t")

    def __init__(self, tag, t=None):
        self.tag, self.t = tag, t

    def __repr__(self):
        return "VOpaque(%s)" % self.tag


class VExc(V):
    """exception instance"""
    __slots__ = ("cls", "args", "fields")

    def __init__(self, cls, args=(), fields=None):
        self.cls, self.args, self.fields = cls, list(args), fields or {}

    def __repr__(self):
        return "VExc(%s)" % self.cls


class HeapObj:
    __slots__ = ("cls", "fields", "init", "kind", "data", "hint")

    def __init__(self, cls, kind="obj"):
        self.cls = cls
        self.kind = kind  # obj | list | dict | bytesio
        self.fields = {}
        self.init = {}
        self.data = None
        self.hint = None


class LazyInit:
    """pre-state value of a field that was overwritten before anything read it: materialised (possibly forking on an
    optional type) only if a specification asks for old(field)"""
    def __init__(self, ty, hint):
        self.ty, self.hint = ty, hint
