"""Engine: source index + tables + contract registry; verifies one function against its contract by
exploring all paths of its real AST and collecting named obligations."""
import ast
import time
import traceback
import z3
from . import smt, ropes, specfuns
from .values import LazyInit, Unsupported, V, VInt, VBool, VNone, NONE, VFloat, Seg, VSeq, VTuple, VRef, VFunc, VClass, \
    VModule, VOpaque, VExc, HeapObj, is_conc, zint, zbool, simp
from .symexec import PathEnd, ReturnSig, BreakSig, ContinueSig, PyExc, Frame, State, Path
from .interp import Interp, mangle
from .extract import Source, load_tables, dec
from . import calls

PAR_SPLIT = 96
_PAR = None


def _explore_worker(work):
    E, finfo, c, max_paths, jobify = _PAR
    E.trusted_used, E.contracts_used, E.bounded, E.decorators_seen = set(), set(), set(), {}
    r = E._explore(finfo, c, list(work), max_paths, jobify)
    r["trusted_used"], r["contracts_used"], r["bounded"] = E.trusted_used, E.contracts_used, E.bounded
    r["decorators_seen"] = E.decorators_seen
    r["auto_fields"] = set(E.auto_fields)
    return r


BUILTIN_NAMES = {"len", "range", "enumerate", "isinstance", "issubclass", "type", "int", "bytes", "bytearray", "str",
                 "bool", "min", "max", "sorted", "list", "tuple", "dict", "getattr", "hasattr", "abs", "ord", "chr",
                 "repr", "filter", "zip", "any", "all", "print", "set", "sum", "map", "iter", "next", "open",
                 "setattr", "callable", "id", "hash", "reversed", "object", "super", "float", "memoryview", "pow"}
BUILTIN_TYPES = {"int", "bool", "bytes", "str", "list", "tuple", "dict", "bytearray", "float", "NoneType", "object",
                 "memoryview", "set"}

STDLIB = {
    "struct": {"pack": "f", "unpack": "f", "error": "c:struct.error"},
    "os": {"urandom": "f", "read": "f", "path": "m:os.path", "O_WRONLY": 1, "O_TRUNC": 512, "O_CREAT": 64, "open": "f",
           "O_APPEND": 1024, "O_RDWR": 2, "O_RDONLY": 0, "O_EXCL": 128,
           "fdopen": "f", "chmod": "f", "chown": "f", "utime": "f", "truncate": "f", "stat": "f", "getpid": "f",
           "fstat": "f", "SEEK_END": 2, "kill": "f"},
    "os.path": {"normpath": "f", "isabs": "f", "join": "f", "expanduser": "f", "exists": "f"},
    "time": {"time": "f", "sleep": "f"},
    "socket": {"timeout": "c:socket.timeout", "error": "c:socket.error", "gaierror": "c:socket.gaierror",
               "gethostname": "f", "getfqdn": "f", "getaddrinfo": "f"},
    "threading": {"Lock": "f", "RLock": "f", "Event": "f", "Condition": "f", "current_thread": "f", "Thread": "f",
                  "currentThread": "f"},
    "io": {"BytesIO": "c:io.BytesIO"},
    "binascii": {"hexlify": "f", "unhexlify": "f", "Error": "c:binascii.Error"},
    "hashlib": {"sha1": "f", "sha256": "f", "sha512": "f", "md5": "f", "sha384": "f"},
    "base64": {"b64encode": "f", "b64decode": "f", "encodebytes": "f", "decodebytes": "f", "binascii": "m:binascii"},
    "bcrypt": {"kdf": "f"},
    "weakref": {"proxy": "f", "ref": "f"},
    "sys": {"exc_info": "f", "maxsize": 2 ** 63 - 1, "platform": "linux"},
    "select": {"select": "f", "error": "c:OSError"},
    "errno": {"EAGAIN": 11, "EINTR": 4, "ENOENT": 2, "EACCES": 13},
    "stat": {},
    "getpass": {"getuser": "f"},
    "functools": {"wraps": "f"},
    "hmac": {"HMAC": "f"},
    "zlib": {},
    "signal": {"SIGTERM": 15},
    "shlex": {"split": "f"},
    "re": {},
    "fnmatch": {"fnmatch": "f"},
    "math": {},
    "traceback": {},
    "warnings": {"warn": "f"},
    "logging": {},
}


class Engine:
    def __init__(self, root=None):
        self.src = Source(root)
        self.tables = load_tables(self.src.root)
        self.contracts = {}
        self.classdecl = {}
        self.inline_ok = set()
        self.trusted_used = set()
        self.contracts_used = set()
        self.bounded = set()
        self.spec_names = specfuns.NAMES
        self.builtin_names = BUILTIN_NAMES
        self.ghost_types = {}
        self.monitors = {}
        self.current_target = None
        self.default_unroll = 0
        self.opaque_contracts = {}
        self._class_by_short = {}
        for qn in self.tables["classes"]:
            self._class_by_short.setdefault(qn.rsplit(".", 1)[-1], []).append(qn)
        self.decorators_seen = {}
        self.auto_fields = set()

    # ---- registry
    def contract(self, qualname, **c):
        self.contracts[qualname] = c
        return c

    def declare_ghost(self, **types):
        self.ghost_types.update(types)

    def declare_class(self, name, fields, open_=True, invariants=None, bases=None):
        qn = self.resolve_class(name) if name in self._class_by_short or "." in name else name
        d = self.classdecl.setdefault(qn, {"fields": {}, "open": open_, "invariants": []})
        d["fields"].update(fields)
        if invariants:
            d["invariants"].extend(invariants)
        if bases:
            d["bases"] = bases

    def inline(self, *qualnames):
        self.inline_ok.update(qualnames)

    def contract_of(self, qn):
        return self.contracts.get(qn)

    def opaque_call_contract(self, tag):
        return self.opaque_contracts.get(tag)

    # ---- classes
    def resolve_class(self, name):
        if name in self.tables["classes"]:
            return name
        c = self._class_by_short.get(name)
        if c:
            if len(c) == 1:
                return c[0]
            for q in c:
                if q.startswith("paramiko."):
                    return q
            return c[0]
        return name

    def canon_class(self, qn):
        if qn in self.tables["classes"]:
            return qn
        if qn.startswith("builtins."):
            return qn[9:]
        c = self._class_by_short.get(qn)
        if c and len(c) == 1 and "." not in qn:
            return c[0]
        alias = {"OSError": "OSError", "IOError": "OSError", "socket.error": "OSError", "EnvironmentError": "OSError",
                 "socket.timeout": "TimeoutError", "select.error": "OSError", "io.BytesIO": "io.BytesIO",
                 "_io.BytesIO": "io.BytesIO"}
        return alias.get(qn, qn)

    def canon_func(self, qn):
        return qn

    def class_info(self, qn):
        return self.tables["classes"].get(qn)

    def mro(self, qn):
        ci = self.tables["classes"].get(qn)
        if ci:
            return ci["mro"]
        d = self.classdecl.get(qn)
        if d and d.get("bases"):
            out = [qn]
            for b in d["bases"]:
                out.extend(self.mro(self.resolve_class(b)))
            return out
        return [qn]

    def find_attr(self, cls, name):
        for c in self.mro(cls):
            ci = self.tables["classes"].get(c)
            if ci and name in ci["attrs"]:
                return ci["attrs"][name]
        return None

    def field_type(self, cls, name):
        for c in self.mro(cls):
            d = self.classdecl.get(c)
            if d and name in d["fields"]:
                return d["fields"][name]
        return None

    def init_assigned_value(self, I, ref, cls, name):
        for c in self.mro(cls):
            fi = self.src.funcs.get(c + ".__init__")
            if fi is None:
                continue
            for n in ast.walk(fi.node):
                if isinstance(n, ast.Assign) and len(n.targets) == 1 and isinstance(n.targets[0], ast.Attribute) \
                        and isinstance(n.targets[0].value, ast.Name) and n.targets[0].value.id == "self" \
                        and n.targets[0].attr == name:
                    fr = Frame(fi, {"self": ref}, fi.module, fi.cls)
                    return I.eval(n.value, fr)
        raise Unsupported("no assignment to self.%s in %s.__init__" % (name, cls))

    def class_is_open(self, cls):
        return True

    def infer_field_type(self, cls, name):
        """type of an undeclared field, read off a literal initialiser `self.<name> = <constant>` in __init__"""
        for c in self.mro(cls):
            fi = self.src.funcs.get(c + ".__init__")
            if fi is None:
                continue
            for n in ast.walk(fi.node):
                if isinstance(n, ast.Assign) and len(n.targets) == 1 and isinstance(n.targets[0], ast.Attribute) \
                        and isinstance(n.targets[0].value, ast.Name) and n.targets[0].value.id == "self" \
                        and n.targets[0].attr == name and isinstance(n.value, ast.Constant):
                    v = n.value.value
                    if isinstance(v, bool):
                        return "bool"
                    if isinstance(v, int):
                        return "int"
                    if isinstance(v, bytes):
                        return "bytes"
                    if isinstance(v, str):
                        return "str"
                    if v is None:
                        return self._infer_optional_field(cls, name)
        return None

    def instance_assigned(self, cls, name):
        """does some method of the class (or a base) assign `self.<name> = ...`?  (cached)"""
        cache = self.__dict__.setdefault("_inst_assigned", {})
        key = (cls, name)
        if key not in cache:
            found = False
            for c in self.mro(cls):
                for qn, fi in self.src.funcs.items():
                    if not qn.startswith(c + ".") or "::" in qn:
                        continue
                    for n in ast.walk(fi.node):
                        if isinstance(n, (ast.Assign, ast.AugAssign)):
                            tg = n.targets if isinstance(n, ast.Assign) else [n.target]
                            if any(isinstance(t, ast.Attribute) and isinstance(t.value, ast.Name) and t.value.id == "self"
                                   and t.attr == name for t in tg):
                                found = True
                                break
                    if found:
                        break
                if found:
                    break
            cache[key] = found
        return cache[key]

    def _infer_optional_field(self, cls, name):
        """a field initialised to None: its other type is read off the other assignments `self.<name> = <expr>` in the
        class (arithmetic / len() / int literal -> int; bytes literal or slice of bytes -> bytes; True/False -> bool).
        Anything else stays untyped (the function is then outside the subset)."""
        kinds = set()
        for c in self.mro(cls):
            for qn, fi in self.src.funcs.items():
                if not qn.startswith(c + ".") or qn.endswith(".__init__"):
                    continue
                for n in ast.walk(fi.node):
                    if isinstance(n, ast.Assign) and len(n.targets) == 1 and isinstance(n.targets[0], ast.Attribute) \
                            and isinstance(n.targets[0].value, ast.Name) and n.targets[0].value.id == "self" \
                            and n.targets[0].attr == name:
                        v = n.value
                        if isinstance(v, ast.Constant) and v.value is None:
                            continue
                        if isinstance(v, ast.Constant) and isinstance(v.value, bool):
                            kinds.add("bool")
                        elif isinstance(v, ast.Constant) and isinstance(v.value, int):
                            kinds.add("int")
                        elif isinstance(v, ast.Constant) and isinstance(v.value, bytes):
                            kinds.add("bytes")
                        elif isinstance(v, ast.BinOp) and isinstance(v.op, (ast.Add, ast.Sub, ast.Mult)) and any(
                                isinstance(x, ast.Call) and isinstance(x.func, ast.Name) and x.func.id == "len" or
                                isinstance(x, ast.Constant) and isinstance(x.value, int) and not isinstance(x.value, bool)
                                for x in (v.left, v.right)):
                            kinds.add("int")
                        elif isinstance(v, ast.Call) and isinstance(v.func, ast.Name) and v.func.id in ("len", "int"):
                            kinds.add("int")
                        else:
                            kinds.add("?")
        if len(kinds) == 1 and "?" not in kinds:
            return "opt[%s]" % kinds.pop()
        return None

    def is_exception_name(self, name):
        name = self.canon_class(name)
        if name in self.tables["excs"]:
            return True
        ci = self.tables["classes"].get(name)
        if ci and "builtins.BaseException" in ci["mro"]:
            return True
        return False

    def exc_mro(self, name):
        name = self.canon_class(name)
        if name in self.tables["excs"]:
            return [self.canon_class(x) for x in self.tables["excs"][name]]
        ci = self.tables["classes"].get(name)
        if ci:
            return [self.canon_class(x) for x in ci["mro"]]
        raise Unsupported("unknown exception class %s" % name)

    def is_subclass(self, cls, base):
        base = self.canon_class(base)
        if base in self.tables["excs"]:
            # canonical name of the builtin (IOError -> OSError)
            base = self.canon_class(self.tables["excs"][base][0])
        return base in self.exc_mro(cls)

    def type_is(self, tn, clsname, v):
        c = self.canon_class(clsname)
        if c in BUILTIN_TYPES or tn in BUILTIN_TYPES:
            if c == "object":
                return True
            if c == "int":
                return tn in ("int", "bool")
            if c == "bytes":
                return tn == "bytes"
            if c == "bytearray":
                return tn == "bytearray"
            return tn == c
        if self.is_exception_name(tn) and self.is_exception_name(c):
            return self.is_subclass(tn, c)
        return c in [self.canon_class(x) for x in self.mro(self.canon_class(tn))]

    def exception_fields(self, I, ex, args, kwargs):
        pass

    # ---- globals
    def lookup_global(self, module, name):
        g = self.tables["modules"].get(module)
        if g is None:
            return None
        return g.get(name)

    def stdlib_attr(self, I, mod, name):
        m = STDLIB.get(mod)
        if m is None:
            if getattr(self, "auto_opaque", False) and not mod.startswith("paramiko"):
                return VOpaque("lib:" + name, None)
            raise Unsupported("module %s" % mod)
        if name not in m:
            return VFunc("%s.%s" % (mod, name))
        k = m[name]
        if k == "f":
            return VFunc("%s.%s" % (mod, name))
        if isinstance(k, int):
            return VInt(k)
        if isinstance(k, str) and k.startswith("c:"):
            return VClass(k[2:])
        if isinstance(k, str) and k.startswith("m:"):
            return VModule(k[2:])
        if isinstance(k, str):
            return ropes.const_seq(k)
        raise Unsupported("%s.%s" % (mod, name))

    def apply_decorator(self, I, deco, sub, finfo):
        self.decorators_seen.setdefault(deco, set()).add(finfo.qualname)
        if deco in ("property", "staticmethod", "classmethod") or deco.endswith(".setter"):
            return
        h = getattr(self, "decorator_hooks", {}).get(deco)
        if h:
            h(I, sub, finfo)
            return
        raise Unsupported("decorator %s on %s" % (deco, finfo.qualname))

    # ---- spec evaluation
    def eval_spec(self, I, expr, fr, extra_env):
        sf = Frame(fr.finfo, dict(extra_env), fr.module, fr.cls)
        sf.closure = fr
        sf.spec = True
        sf.old_heap = getattr(fr, "entry_heap", None)
        sf.old_locals = getattr(fr, "entry_locals", None)
        sf.old_ghost = getattr(fr, "entry_ghost", None)
        return self.eval_spec_in(I, expr, sf)

    def eval_spec_old(self, I, expr, fr, extra_env):
        """evaluate a specification expression entirely in the pre-state"""
        sf = Frame(fr.finfo, dict(extra_env), fr.module, fr.cls)
        sf.closure = fr
        sf.spec = True
        sf.old_heap = getattr(fr, "entry_heap", None)
        sf.old_ghost = getattr(fr, "entry_ghost", None)
        sf.in_old = True
        return self.eval_spec_in(I, expr, sf)

    def eval_spec_in(self, I, expr, sf):
        if callable(expr):
            return expr(I, sf)
        node = _parse(expr)
        return I.eval(node, sf)

    # ---- monitor hooks (ghost lock state)
    def lock_key(self, v):
        if isinstance(v, VOpaque) and v.t is not None:
            return str(v.t)
        return id(v)

    def on_acquire(self, I, lock, fr, site):
        k = self.lock_key(lock)
        I.st.held[k] = I.st.held.get(k, 0) + 1
        I.st.events.append(("acquire", k))
        for m in self.monitors.values():
            m.on_acquire(I, lock, fr, site)

    def on_release(self, I, lock, fr, site):
        k = self.lock_key(lock)
        for m in self.monitors.values():
            m.on_release(I, lock, fr, site)
        I.st.held[k] = I.st.held.get(k, 0) - 1
        I.st.events.append(("release", k))

    def on_wait(self, I, obj, timeout, fr, site):
        for m in self.monitors.values():
            m.on_wait(I, obj, timeout, fr, site)

    def on_field_write(self, I, ref, name, fr):
        for m in self.monitors.values():
            m.on_field_write(I, ref, name, fr)

    def on_field_read(self, I, ref, name, fr):
        for m in self.monitors.values():
            m.on_field_read(I, ref, name, fr)

    def is_held(self, I, lock):
        return I.st.held.get(self.lock_key(lock), 0) > 0

    # ---- verification of one function
    def verify_function(self, qualname, max_paths=4000, on_path=None, jobify=None):
        """-> dict(obligations=[...], paths=n, unsupported=[...], ended=...)"""
        finfo = self.src.funcs.get(qualname)
        if finfo is None and ("::loop#" in qualname or "::whole-loop#" in qualname):
            try:
                finfo = self.src.fragment(qualname, list((self.contract_of(qualname) or {}).get("params", {"self": 1}).keys()))
            except Exception as ex:
                return dict(obligations=[], paths=0, unsupported=["fragment %s: %s" % (qualname, ex)], finfo=None,
                            complete_paths=0)
        if finfo is None and "::part[" in qualname:
            cc = self.contract_of(qualname) or {}
            try:
                finfo = self.src.fragment_range(qualname, list((cc.get("params") or {"self": 1}).keys()), cc.get("fragment") or {})
            except Exception as ex:
                return dict(obligations=[], paths=0, unsupported=["fragment %s: %s" % (qualname, ex)], finfo=None,
                            complete_paths=0)
        if finfo is None:
            # a function the contracts are written against no longer exists: the tree was restructured; obligations of
            # its former callers that fail without a natively reproduced input are undecided, not violations
            self.auto_fields.add("function under contract no longer exists: %s" % qualname)
            return dict(obligations=[], paths=0, unsupported=["function %s not found in source" % qualname],
                        finfo=None, complete_paths=0)
        c = self.contract_of(qualname)
        if c is None:
            return dict(obligations=[], paths=0, unsupported=["no contract for %s" % qualname], finfo=finfo,
                        complete_paths=0)
        self.current_target = qualname
        res = self._explore(finfo, c, [[]], max_paths, jobify, split_at=PAR_SPLIT if jobify else None)
        if res.get("pending"):
            # many independent subtrees: explore them on a process pool (fork: the engine state is inherited)
            import multiprocessing as mp
            global _PAR
            _PAR = (self, finfo, c, max_paths, jobify)
            ctx = mp.get_context("fork")
            chunks = res.pop("pending")
            with ctx.Pool(min(16, len(chunks))) as pool:
                parts = pool.map(_explore_worker, chunks, chunksize=1)
            for p in parts:
                res["obligations"].extend(p["obligations"])
                res["paths"] += p["paths"]
                res["complete_paths"] += p["complete_paths"]
                for k, v in p["outcomes"].items():
                    res["outcomes"][k] = res["outcomes"].get(k, 0) + v
                for u in p["unsupported"]:
                    if u not in res["unsupported"]:
                        res["unsupported"].append(u)
                self.trusted_used.update(p["trusted_used"])
                self.contracts_used.update(p["contracts_used"])
                self.bounded.update(p["bounded"])
                self.auto_fields.update(p.get("auto_fields", ()))
                for k, v in p["decorators_seen"].items():
                    self.decorators_seen.setdefault(k, set()).update(v)
            if res["paths"] > max_paths:
                res["unsupported"].append("path limit %d exceeded in %s" % (max_paths, qualname))
        self.current_target = None
        unsupported, complete, outcomes = res["unsupported"], res["complete_paths"], res["outcomes"]
        if (c.get("ensures") or c.get("cases")) and not c.get("noreturn") and complete > 0 \
                and outcomes.get("normal", 0) == 0 and not unsupported:
            unsupported.append("%s: no path returns normally, so no postcondition was checked (vacuous)" % qualname)
        res["finfo"] = finfo
        return res

    def _explore(self, finfo, c, work, max_paths, jobify=None, split_at=None):
        qualname = finfo.qualname
        obligations = []
        unsupported = []
        npaths = 0
        complete = 0
        outcomes = {}
        pending = None
        while work:
            if split_at and npaths >= 150 and len(work) >= split_at:
                pending = work
                break
            # depth-first; after 150 paths switch to breadth-first to grow a balanced set of subtrees for the pool
            prefix = work.pop(0) if (split_at and npaths >= 150) else work.pop()
            npaths += 1
            if npaths > max_paths:
                unsupported.append("path limit %d exceeded in %s" % (max_paths, qualname))
                break
            path = Path(prefix)
            st = State(self, path)
            I = Interp(self, st)
            try:
                out = self.run_path(I, st, finfo, c)
                complete += 1
                outcomes[out] = outcomes.get(out, 0) + 1
            except PathEnd:
                import os as _os
                if _os.environ.get("PYVC_TRACE"):
                    traceback.print_exc(limit=-6)
            except Unsupported as u:
                import os as _os
                if _os.environ.get("PYVC_TRACE_FAULT"):
                    traceback.print_exc(limit=-8)
                msg = "%s: %s" % (qualname, u)
                if msg not in unsupported:
                    unsupported.append(msg)
            except RecursionError:
                unsupported.append("%s: recursion limit" % qualname)
            except (AttributeError, TypeError, KeyError, IndexError, NotImplementedError) as ex:
                # a construct the engine's models do not cover made the engine itself fail on this path: the function is
                # outside the verified subset (never a verdict by itself; report.py falls back to the labelled stand-ins)
                import os as _os
                if _os.environ.get("PYVC_TRACE_FAULT"):
                    traceback.print_exc(limit=-8)
                msg = "%s: engine model failed (%s: %s)" % (qualname, type(ex).__name__, str(ex)[:120])
                if msg not in unsupported:
                    unsupported.append(msg)
            for ob in st.obligations:
                ob["path"] = "%s" % ("".join(str(int(d)) for d in path.trace)[:60] or "-")
                if jobify is not None and not ob.get("trivial"):
                    ob = jobify(ob)
                obligations.append(ob)
            work.extend(path.alts)
        out = dict(obligations=obligations, paths=npaths, unsupported=unsupported, complete_paths=complete,
                   outcomes=outcomes)
        if pending:
            out["pending"] = [[p] for p in pending]
        return out

    def run_path(self, I, st, finfo, c):
        qualname = finfo.qualname
        fr = Frame(finfo, {}, finfo.module, finfo.cls)
        a = finfo.node.args
        ptypes = c.get("params") or {}
        names = [p.arg for p in a.posonlyargs + a.args + a.kwonlyargs]
        if a.vararg:
            names.append(a.vararg.arg)
        for p in names:
            ty = ptypes.get(p)
            if ty is None:
                if p == "self" and finfo.cls:
                    ty = "obj:" + finfo.cls
                else:
                    raise Unsupported("parameter %s of %s has no declared type" % (p, qualname))
            fr.locals[p] = I.fresh_of_type(ty, p)
        for g, ty in (c.get("ghosts") or {}).items():
            st.ghost[g] = I.fresh_of_type(ty, "ghost." + g)
            st.ghost_init[g] = st.ghost[g]
        for h in c.get("held") or []:
            lock = self.eval_spec(I, h, fr, {})
            st.held[self.lock_key(lock)] = 1
        pre_hook = c.get("pre_hook")
        if pre_hook:
            pre_hook(I, fr)
        for lab, r in calls.labelled(c.get("requires")):
            st.assume(zbool(I.truthy(self.eval_spec(I, r, fr, {}))))
        if not st.feasible():
            raise PathEnd()
        # definitional preconditions  target := value of expr  (each must be implied by a listed `requires` clause of the
        # form target == expr; keeps the rope structure of byte strings the function is about to take apart)
        for tgt, expr in (c.get("entry_defs") or {}).items():
            from .loops import _assign_def
            _assign_def(I, fr, tgt, self.eval_spec(I, expr, fr, {}))
        fr.entry_heap = st.snapshot()
        fr.entry_locals = dict(fr.locals)
        fr.entry_ghost = dict(st.ghost)
        st.entry_events = len(st.events)
        result = NONE
        outcome = "normal"
        try:
            for d in finfo.decorators:
                self.apply_decorator(I, d, fr, finfo)
            I.exec_block(finfo.node.body, fr)
        except ReturnSig as r:
            result = r.value
        except PyExc as pe:
            outcome = pe.exc.cls
            self.check_raise(I, st, fr, c, pe)
            return "raise:" + self.canon_class(outcome)
        except BreakSig:
            if "::loop#" not in qualname:
                raise Unsupported("break outside loop")
            st.ghost["loop_exit"] = ropes.const_seq("break")
        except ContinueSig:
            if "::loop#" not in qualname:
                raise Unsupported("continue outside loop")
            st.ghost["loop_exit"] = ropes.const_seq("continue")
        if "::loop#" in qualname and "loop_exit" not in st.ghost:
            st.ghost["loop_exit"] = ropes.const_seq("end")
        env = {"result": result}
        env.update({p: v for p, v in fr.entry_locals.items()})
        for lab, e in calls.labelled(c.get("ensures")):
            t = I.truthy(self.eval_spec(I, e, fr, env))
            st.oblige("%s::ensures(%s)" % (qualname, lab), t)
        # behaviours: guard (in the pre-state) => result / fields have the specified values
        for ci, case in enumerate(c.get("cases") or []):
            lab = case.get("name", "#%d" % ci)
            g = zbool(I.truthy(self.eval_spec_old(I, case["when"], fr, env)))
            if "result" in case:
                want = self.eval_spec_old(I, case["result"], fr, env)
                st.oblige("%s::case(%s).result" % (qualname, lab), z3.Implies(g, zbool(I.equal(result, want))))
            for lv, ex in (case.get("post") or {}).items():
                want = self.eval_spec_old(I, ex, fr, env)
                sfc = Frame(fr.finfo, dict(env), fr.module, fr.cls)
                sfc.closure = fr
                sfc.spec = True
                cur = calls.read_lvalue(I, lv, sfc)
                st.oblige("%s::case(%s).post(%s)" % (qualname, lab, lv), z3.Implies(g, zbool(I.equal(cur, want))))
        post = c.get("post_check")
        if post:
            post(I, fr, result)
        self.check_frame(I, st, fr, c)
        return "normal"

    def check_raise(self, I, st, fr, c, pe):
        alts = pe.exc.fields.pop("__alts", None) if isinstance(pe.exc.fields, dict) else None
        for other in alts or []:
            from .values import VExc as _VExc
            from .symexec import PyExc as _PyExc
            self.check_raise_one(I, st, fr, c, _PyExc(_VExc(other, []), pe.site))
        self.check_raise_one(I, st, fr, c, pe)

    def check_raise_one(self, I, st, fr, c, pe):
        qualname = fr.finfo.qualname
        raises = c.get("raises") or {}
        cls = pe.exc.cls
        for allowed, cond in raises.items():
            if self.is_subclass(cls, allowed):
                if isinstance(cond, dict):
                    conds = [cond.get("when", "True")] + list(cond.get("ensures", []))
                else:
                    conds = [cond]
                env = {"exc": pe.exc}
                env.update({p: v for p, v in fr.entry_locals.items()})
                for i, cd in enumerate(conds):
                    t = I.truthy(self.eval_spec(I, cd, fr, env))
                    st.oblige("%s::raises(%s)#%d" % (qualname, allowed, i), t)
                self.check_frame(I, st, fr, c, exceptional=True)
                return
        st.oblige("%s::no-raise(%s)::%s" % (qualname, self.canon_class(cls), pe.site), False, kind="no-raise")

    def check_frame(self, I, st, fr, c, exceptional=False):
        mods = c.get("modifies")
        if mods is None:
            return
        qualname = fr.finfo.qualname
        allowed = set()
        for m in mods:
            if m.startswith("ghost:"):
                continue
            base_s, name = m.rsplit(".", 1)
            try:
                # parameters named in a modifies clause denote the objects passed in, even if the body rebinds them
                base = self.eval_spec(I, base_s, fr, dict(fr.entry_locals or {}))
            except (Unsupported, PyExc):
                continue
            if isinstance(base, VRef):
                if name == "*":
                    allowed.add((base.ref, "*"))
                else:
                    allowed.add((base.ref, mangle(fr.cls, name)))
        entry = fr.entry_heap
        for ref, (fields0, data0) in entry.items():
            o = st.heap[ref]
            if (ref, "*") in allowed:
                continue
            for name, cur in o.fields.items():
                if (ref, name) in allowed:
                    continue
                before = fields0.get(name, o.init.get(name))
                if before is None or before is cur:
                    continue
                try:
                    same = False if isinstance(before, LazyInit) else I.equal(before, cur)
                except Unsupported:
                    same = False
                st.oblige("%s::frame(%s.%s)" % (qualname, o.cls.rsplit(".", 1)[-1], name), same, kind="frame")


_PARSE_CACHE = {}


def _parse(expr):
    n = _PARSE_CACHE.get(expr)
    if n is None:
        n = ast.parse(expr.strip(), mode="eval").body
        _PARSE_CACHE[expr] = n
    return n
