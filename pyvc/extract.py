"""Mechanical extraction: read the real sources under $VERIF_REPO/paramiko on every run, index every
FunctionDef by qualified name, label the syntactic sites (loops, calls, subscripts ...) with ordinals
(never line numbers).  What is dropped: comments, docstrings (skipped as expression statements that are
string constants), and decorators (the set of decorators actually seen is reported; only
property/staticmethod/classmethod/functools.wraps-style wrappers are accepted silently)."""
import ast
import hashlib
import json
import os
import subprocess

HERE = os.path.dirname(os.path.abspath(__file__))


def repo_root():
    return os.environ.get("VERIF_REPO", "/repo")


_LINES = {}


def _segment(src, node):
    """ast.get_source_segment without re-splitting the file for every function (it is quadratic in file size)"""
    key = id(src)
    ent = _LINES.get(key)
    if ent is None or ent[0] is not src:
        ent = (src, src.splitlines(keepends=True))
        _LINES[key] = ent
    lines = ent[1]
    try:
        l0, l1, c0, c1 = node.lineno - 1, node.end_lineno - 1, node.col_offset, node.end_col_offset
        if l0 == l1:
            return lines[l0].encode()[c0:c1].decode()
        first = lines[l0].encode()[c0:].decode()
        last = lines[l1].encode()[:c1].decode()
        return "".join([first] + lines[l0 + 1:l1] + [last])
    except Exception:
        return ast.get_source_segment(src, node) or ""


class FuncInfo:
    def __init__(self, qualname, module, cls, node, src, path):
        self.qualname, self.module, self.cls, self.node, self.path = qualname, module, cls, node, path
        seg = _segment(src, node)
        self.sha = hashlib.sha256(seg.encode()).hexdigest()
        self.nlines = (node.end_lineno or node.lineno) - node.lineno + 1
        self.decorators = [ast.unparse(d) for d in node.decorator_list]
        self.labels = {}
        self._label()

    def _label(self):
        """ordinal labels for sites, in source order"""
        counters = {}

        def bump(kind):
            k = counters.get(kind, 0)
            counters[kind] = k + 1
            return "%s#%d" % (kind, k)

        def name_of(e):
            if isinstance(e, ast.Name):
                return e.id
            if isinstance(e, ast.Attribute):
                return e.attr
            if isinstance(e, ast.Call):
                return name_of(e.func)
            if isinstance(e, ast.Subscript):
                return name_of(e.value)
            return type(e).__name__

        class Vis(ast.NodeVisitor):
            def generic_visit(v, node):
                if isinstance(node, (ast.While, ast.For)):
                    self.labels[id(node)] = bump("loop")
                elif isinstance(node, ast.Call):
                    self.labels[id(node)] = bump("call(%s)" % name_of(node.func))
                elif isinstance(node, ast.Subscript):
                    self.labels[id(node)] = bump("subscript(%s)" % name_of(node.value))
                elif isinstance(node, ast.Raise):
                    self.labels[id(node)] = bump("raise")
                elif isinstance(node, ast.Attribute):
                    self.labels[id(node)] = bump("attr(%s)" % node.attr)
                elif isinstance(node, ast.Assert):
                    self.labels[id(node)] = bump("assert")
                elif isinstance(node, ast.BinOp):
                    self.labels[id(node)] = bump("binop(%s)" % type(node.op).__name__)
                elif isinstance(node, ast.Return):
                    self.labels[id(node)] = bump("return")
                elif isinstance(node, (ast.FunctionDef, ast.ClassDef, ast.Lambda)) and node is not self.node:
                    if isinstance(node, ast.Lambda):
                        ast.NodeVisitor.generic_visit(v, node)
                    return  # nested definitions have their own labels
                ast.NodeVisitor.generic_visit(v, node)

        Vis().visit(self.node)

    def label(self, node):
        return self.labels.get(id(node), type(node).__name__)


class Source:
    def __init__(self, root=None):
        self.root = root or repo_root()
        self.funcs = {}
        self.classes = {}       # qualname -> ClassDef
        self.modules = {}       # module name -> ast.Module
        self.module_src = {}
        pkg = os.path.join(self.root, "paramiko")
        for fn in sorted(os.listdir(pkg)):
            if not fn.endswith(".py"):
                continue
            mod = "paramiko" if fn == "__init__.py" else "paramiko." + fn[:-3]
            path = os.path.join(pkg, fn)
            with open(path, encoding="utf-8") as f:
                src = f.read()
            try:
                tree = ast.parse(src)
            except SyntaxError:
                continue
            self.modules[mod] = tree
            self.module_src[mod] = src
            self._index(tree.body, mod, mod, None, src, path)

    def fragment(self, qualname, params):
        """loop body of a function as a pseudo-function: '<function qualname>::loop#k' (mechanical: the body
        statements are the very AST nodes of the real loop; labels keep the ordinals of the enclosing function)"""
        import copy
        fq, lab = qualname.split("::", 1)
        whole = lab.startswith("whole-")       # '<func>::whole-loop#k' = the loop statement itself, not just its body
        if whole:
            lab = lab[len("whole-"):]
        fi = self.funcs[fq]
        node = None
        for n in ast.walk(fi.node):
            if isinstance(n, (ast.While, ast.For)) and fi.labels.get(id(n)) == lab:
                node = n
                break
        if node is None:
            raise KeyError("no %s in %s" % (lab, fq))
        fn = ast.FunctionDef(name=fi.node.name, args=ast.arguments(
            posonlyargs=[], args=[ast.arg(arg=p) for p in params], vararg=None, kwonlyargs=[], kw_defaults=[],
            kwarg=None, defaults=[]), body=[node] if whole else node.body, decorator_list=[], lineno=node.lineno, col_offset=0)
        fr = copy.copy(fi)
        fr.qualname = qualname
        fr.node = fn
        fr.decorators = []
        seg = ast.get_source_segment(self.module_src[fi.module], node) or ""
        fr.sha = hashlib.sha256(seg.encode()).hexdigest()
        fr.nlines = (node.end_lineno or node.lineno) - node.lineno + 1
        self.funcs[qualname] = fr
        return fr

    def fragment_range(self, qualname, params, spec):
        """a run of consecutive statements of a function as a pseudo-function: '<function qualname>::part[<name>]'.
        spec = {first: text, last: text}: the run starts at the first statement (in any statement list of the function,
        source order) whose source contains `first` and ends at the last statement of the same list, at or after it,
        whose source contains `last`.  Mechanical: the statements are the real AST nodes; free variables are parameters."""
        import copy
        fq = qualname.split("::", 1)[0]
        fi = self.funcs[fq]
        lists = []
        for n in ast.walk(fi.node):
            for fld in ("body", "orelse", "finalbody"):
                b = getattr(n, fld, None)
                if isinstance(b, list) and b and isinstance(b[0], ast.stmt):
                    lists.append(b)
        src = self.module_src[fi.module]

        def first_match_size(b):
            for st in b:
                if spec["first"] in _segment(src, st):
                    return (st.end_lineno or st.lineno) - st.lineno
            return 10 ** 9
        # innermost statement list first: the one whose matching statement is the smallest
        lists.sort(key=lambda b: (first_match_size(b), b[0].lineno))
        for b in lists:
            texts = [_segment(src, st) for st in b]
            i = next((k for k, t in enumerate(texts) if spec["first"] in t), None)
            if i is None:
                continue
            js = [k for k, t in enumerate(texts) if k >= i and spec["last"] in t]
            if not js:
                continue
            stmts = b[i:js[-1] + 1]
            fn = ast.FunctionDef(name=fi.node.name, args=ast.arguments(
                posonlyargs=[], args=[ast.arg(arg=p) for p in params], vararg=None, kwonlyargs=[], kw_defaults=[],
                kwarg=None, defaults=[]), body=stmts, decorator_list=[], lineno=stmts[0].lineno, col_offset=0)
            fr = copy.copy(fi)
            fr.qualname = qualname
            fr.node = fn
            fr.decorators = []
            seg = "\n".join(texts[i:js[-1] + 1])
            fr.sha = hashlib.sha256(seg.encode()).hexdigest()
            fr.nlines = (stmts[-1].end_lineno or stmts[-1].lineno) - stmts[0].lineno + 1
            self.funcs[qualname] = fr
            return fr
        raise KeyError("statements %r .. %r not found in %s" % (spec["first"], spec["last"], fq))

    def add_file(self, path, mod):
        """index an extra file (lemma programs: clients of the contracts, not repository code)"""
        with open(path, encoding="utf-8") as f:
            src = f.read()
        tree = ast.parse(src)
        self.modules[mod] = tree
        self.module_src[mod] = src
        self._index(tree.body, mod, mod, None, src, path)

    def _index(self, body, prefix, mod, cls, src, path):
        for node in body:
            if isinstance(node, (ast.FunctionDef, ast.AsyncFunctionDef)):
                qn = prefix + "." + node.name
                self.funcs[qn] = FuncInfo(qn, mod, cls, node, src, path)
                self._index_nested(node, qn + ".<locals>", mod, cls, src, path)
            elif isinstance(node, ast.ClassDef):
                cq = prefix + "." + node.name
                self.classes[cq] = node
                self._index(node.body, cq, mod, cq, src, path)
            elif isinstance(node, (ast.If, ast.Try)):
                for sub in ast.iter_child_nodes(node):
                    pass
                # functions defined under module-level if/try
                for field in ("body", "orelse", "finalbody"):
                    self._index(getattr(node, field, []) or [], prefix, mod, cls, src, path)
                for h in getattr(node, "handlers", []) or []:
                    self._index(h.body, prefix, mod, cls, src, path)

    def _index_nested(self, fnode, prefix, mod, cls, src, path):
        for node in ast.walk(fnode):
            if node is fnode:
                continue
            if isinstance(node, ast.FunctionDef):
                qn = prefix + "." + node.name
                if qn not in self.funcs:
                    self.funcs[qn] = FuncInfo(qn, mod, cls, node, src, path)
            elif isinstance(node, ast.ClassDef):
                cq = prefix + "." + node.name
                self.classes[cq] = node
                for sub in node.body:
                    if isinstance(sub, ast.FunctionDef):
                        self.funcs[cq + "." + sub.name] = FuncInfo(cq + "." + sub.name, mod, cq, sub, src, path)


_TABLES = {}


def load_tables(root=None):
    root = root or repo_root()
    if root in _TABLES:
        return _TABLES[root]
    env = dict(os.environ)
    env["PYTHONPATH"] = root
    env.pop("PYTHONHOME", None)
    p = subprocess.run(["/venv/bin/python", os.path.join(HERE, "dump_tables.py")], capture_output=True,
                       text=True, env=env, cwd="/", timeout=120)
    if p.returncode != 0:
        raise RuntimeError("dump_tables failed: " + p.stderr[-2000:])
    t = json.loads(p.stdout)
    _TABLES[root] = t
    return t


def dec(e):
    """decode a table constant to a python value (classes/functions stay as dicts)"""
    k = e["k"]
    if k == "none":
        return None
    if k in ("bool", "float", "str"):
        return e["v"]
    if k == "int":
        return int(e["v"])
    if k == "bytes":
        return bytes(e["v"])
    if k == "tuple":
        return tuple(dec(x) for x in e["v"])
    if k == "list":
        return [dec(x) for x in e["v"]]
    if k == "set":
        return set(dec(x) for x in e["v"])
    if k == "dict":
        return {_hash(dec(a)): dec(b) for a, b in e["v"]}
    return e


def _hash(x):
    if isinstance(x, list):
        return tuple(x)
    if isinstance(x, dict):
        return repr(x)
    return x
