"""Specification-only vocabulary usable inside contract expressions."""
import ast
import z3
from . import smt, ropes
from .values import Unsupported, VInt, VBool, VNone, NONE, VSeq, VTuple, VRef, VFunc, VOpaque, VFloat, Seg, is_conc, zint, zbool, simp

NAMES = {"opaque_id", "slist", "isbool", "local", "old", "forall", "exists", "implies", "ite", "iff", "unpack32", "unpack64", "pack32", "pack64", "seq",
         "isnone", "notnone", "held", "ghost", "typeis", "at", "bacc", "pow2", "tc", "event_count", "events",
         "isbytes", "isstr", "isint", "asbytes_spec", "utf8enc", "utf8dec", "utf8ok", "slist", "fn", "setghost",
         "in_table", "fresh_eq"}

USER = {}    # name -> python callable(I, args, fr) registered by contract modules


def register(name):
    def deco(f):
        USER[name] = f
        NAMES.add(name)
        return f
    return deco


def _b(I, v):
    return zbool(I.truthy(v))


def call(I, name, args, kwargs, fr):
    st = I.st
    if name in USER:
        return USER[name](I, args, fr)
    if name == "old":
        raise Unsupported("old() must be handled by the evaluator")
    if name in ("forall", "exists"):
        lam = args[0]
        if not (isinstance(lam, tuple) and lam[0] == "lambda"):
            raise Unsupported("forall needs a lambda")
        node = lam[1]
        names = [a.arg for a in node.args.args]
        vs = [z3.Int(st.fresh_name("q_" + n)) for n in names]
        from .symexec import Frame
        sub = Frame(fr.finfo, {n: VInt(v) for n, v in zip(names, vs)}, fr.module, fr.cls)
        sub.closure = fr
        sub.spec = True
        sub.old_heap = fr.old_heap
        sub.in_old = getattr(fr, "in_old", False)
        n0 = len(st.pc)
        body = _b(I, I.eval(node.body, sub))
        # facts assumed while evaluating the body (ranges of at() terms) mention bound variables: drop them
        del st.pc[n0:]
        q = z3.ForAll(vs, body) if name == "forall" else z3.Exists(vs, body)
        return VBool(q)
    if name == "local":
        # value of a local variable of the function under verification at exit, or the default if unbound
        nm = ropes.conc_value(args[0])
        f = fr
        while f is not None:
            if not f.spec and nm in f.locals:
                return f.locals[nm]
            f = f.closure
        return args[1] if len(args) > 1 else NONE
    if name == "implies":
        return VBool(simp(z3.Implies(_b(I, args[0]), _b(I, args[1]))))
    if name == "iff":
        return VBool(simp(_b(I, args[0]) == _b(I, args[1])))
    if name == "ite":
        t = I.truthy(args[0])
        if is_conc(t):
            return args[1] if t else args[2]
        return I.ite(t, args[1], args[2])
    if name == "isnone":
        return VBool(isinstance(args[0], VNone))
    if name == "notnone":
        return VBool(not isinstance(args[0], VNone))
    if name == "isbytes":
        return VBool(isinstance(args[0], VSeq) and args[0].pytype != "str")
    if name == "isstr":
        return VBool(isinstance(args[0], VSeq) and args[0].pytype == "str")
    if name == "opaque_id":
        v = args[0]
        if isinstance(v, VOpaque) and v.t is not None:
            return VInt(v.t)
        from .values import VExc
        if isinstance(v, VExc):
            if "__id" not in v.fields:
                v.fields["__id"] = VInt(st.fresh_int("exc_id"))
            return v.fields["__id"]
        if isinstance(v, VRef):
            return VInt(v.ref)
        if isinstance(v, VNone):
            return VInt(-1)
        from .values import VClass
        if isinstance(v, VClass):
            return VInt(-2)     # a class object is no instance: distinct from every heap reference (refs are >= 0)
        raise Unsupported("opaque_id of %r" % (v,))
    if name == "slist":
        # list-of-int specification value: slist() empty, slist(x) singleton
        if not args:
            return VSeq([], "list")
        return VSeq([Seg("U", zint(args[0].t))], "list")
    if name == "isbool":
        return VBool(isinstance(args[0], VBool))
    if name == "isint":
        return VBool(isinstance(args[0], VInt))
    if name == "typeis":
        return VBool(I.type_name(args[0]) == ropes.conc_value(args[1]))
    if name == "unpack32":
        v = args[0]
        if len(v.segs) == 1 and v.segs[0].kind == "P32":
            return VInt(v.segs[0].a)
        c = ropes.conc_value(v)
        if c is not None and len(c) == 4:
            return VInt(int.from_bytes(c, "big"))
        return VInt(smt.unpack32(ropes.seq_term(st, v)))
    if name == "unpack64":
        v = args[0]
        if len(v.segs) == 1 and v.segs[0].kind == "P64":
            return VInt(v.segs[0].a)
        return VInt(smt.unpack64(ropes.seq_term(st, v)))
    if name in ("pack32", "pack64"):
        n = args[0].t
        lim = 2 ** 32 if name == "pack32" else 2 ** 64
        if (is_conc(n) and 0 <= n < lim) or (not is_conc(n) and st.proves(z3.And(zint(n) >= 0, zint(n) < lim))):
            return VSeq([Seg("P32" if name == "pack32" else "P64", n)], "bytes")
        f = smt.pack32 if name == "pack32" else smt.pack64
        return VSeq([Seg("A", f(zint(n)), 4 if name == "pack32" else 8)], "bytes")
    if name == "at":
        v, i = args
        if isinstance(v, VRef):
            v = st.heap[v.ref].data
        return VInt(ropes.index_norm(st, v, i.t)) if st.proves(z3.And(zint(i.t) >= 0, zint(i.t) < zint(ropes.seq_len(v)))) \
            else VInt(smt.sat_(ropes.seq_term(st, v), zint(i.t)))
    if name == "bacc":
        a, s = args
        return VInt(smt.bacc(zint(a.t), ropes.seq_term(st, s)))
    if name == "pow2":
        return VInt(smt.pow2(zint(args[0].t)))
    if name == "utf8enc":
        c = ropes.conc_value(args[0])
        if isinstance(c, str):
            try:
                return ropes.const_seq(c.encode("utf-8"))
            except UnicodeEncodeError:
                pass
        r = smt.utf8enc(ropes.seq_term(st, args[0]))
        st.assume(smt.slen(r) >= 0)
        return VSeq([Seg("A", r, smt.slen(r))], "bytes")
    if name == "utf8dec":
        r = smt.utf8dec(ropes.seq_term(st, args[0]))
        st.assume(smt.slen(r) >= 0)
        return VSeq([Seg("A", r, smt.slen(r))], "str")
    if name == "utf8ok":
        return VBool(smt.utf8ok(ropes.seq_term(st, args[0])))
    if name == "held":
        return VBool(I.E.is_held(I, args[0]))
    if name == "ghost":
        key = ropes.conc_value(args[0])
        if key not in st.ghost:
            ty = I.E.ghost_types.get(key)
            if ty is None:
                raise Unsupported("ghost %s undeclared" % key)
            st.ghost[key] = I.fresh_of_type(ty, "ghost." + key)
            st.ghost_init[key] = st.ghost[key]
        if fr.in_old:
            f = fr
            while f is not None:
                if f.old_ghost is not None and key in f.old_ghost:
                    return f.old_ghost[key]
                f = f.closure
            # not in the snapshot: the ghost was untouched before the snapshot, i.e. still its initial value
            if key not in st.ghost_init:
                # assigned (by a callee contract) without ever having been read: its initial value is arbitrary
                ty = I.E.ghost_types.get(key)
                if ty is None:
                    raise Unsupported("ghost %s undeclared" % key)
                st.ghost_init[key] = I.fresh_of_type(ty, "ghost.%s!init" % key)
            return st.ghost_init[key]
        return st.ghost[key]
    if name == "fn":
        # uninterpreted function application  fn("name", "ret", args...)
        fname = ropes.conc_value(args[0])
        ret = ropes.conc_value(args[1])
        zs, sorts = [], []
        for a in args[2:]:
            if isinstance(a, VInt):
                zs.append(zint(a.t)); sorts.append(smt.Int)
            elif isinstance(a, VBool):
                zs.append(zbool(a.t)); sorts.append(smt.Bool)
            elif isinstance(a, VSeq):
                zs.append(ropes.seq_term(st, a)); sorts.append(smt.Seq)
            elif isinstance(a, VRef):
                zs.append(z3.IntVal(a.ref)); sorts.append(smt.Int)
            elif isinstance(a, VOpaque):
                zs.append(a.t if a.t is not None else z3.IntVal(0)); sorts.append(smt.Int)
            elif isinstance(a, VNone):
                zs.append(z3.IntVal(-1)); sorts.append(smt.Int)
            else:
                raise Unsupported("fn arg %r" % (a,))
        rs = {"int": smt.Int, "bool": smt.Bool, "bytes": smt.Seq, "str": smt.Seq}[ret]
        f = z3.Function("uf_" + fname, *(sorts + [rs]))
        t = f(*zs) if zs else z3.Const("uf_" + fname, rs)
        if ret == "int":
            return VInt(t)
        if ret == "bool":
            return VBool(t)
        st.assume(smt.slen(t) >= 0)
        return VSeq([Seg("A", t, smt.slen(t))], ret)
    if name == "events":
        return VTuple(list(st.events))
    raise Unsupported("spec function %s" % name)
