"""Monitor rule (DESIGN 3.5).  For a class C whose lock L protects fields F with invariant I:
  (M1) every access to a field in F happens while L is held (obligation at each access),
  (M2) I is asserted at every release and at the start of every wait on a condition of L, and
       assumed - after havocking F, because another thread may have run - after every acquire and wait,
  sync ghosts `sync_<field>` hold the value each protected field had at the last synchronisation point.
Then I holds in every reachable state of every interleaving (threading.Lock/Condition trusted)."""
import z3
from .values import VRef, VOpaque, VInt, VBool, zbool, Unsupported


class Monitor:
    def __init__(self, E, cls, lock_field, fields, invariant, conditions=(), unlocked=None, ghosts=None):
        self.E = E
        self.cls = E.resolve_class(cls)
        self.lock_field = lock_field
        self.fields = list(fields)
        self.invariant = list(invariant)
        self.conditions = set(conditions)      # field names holding Condition objects bound to the lock
        self.unlocked = unlocked or {}        # qualname -> reason (accesses allowed without the lock)
        self.ghosts = ghosts or {}
        E.monitors[self.cls] = self
        for f in self.fields:
            E.ghost_types["sync_" + f] = E.field_type(self.cls, f) or "int"
        for g, ty in self.ghosts.items():
            E.ghost_types[g] = ty
            E.ghost_types["sync_" + g] = ty

    # ---- helpers
    def objects(self, I, lock):
        """heap objects of the monitored class whose lock is this lock value"""
        out = []
        for r, o in I.st.heap.items():
            if o.kind == "obj" and self.cls in I.E.mro(o.cls):
                lk = o.fields.get(self.lock_field)
                if lk is lock or (isinstance(lk, VOpaque) and isinstance(lock, VOpaque) and lk.t is not None
                                  and lock.t is not None and lk.t.eq(lock.t)):
                    out.append(VRef(r))
        return out

    def havoc(self, I, ref):
        st = I.st
        o = st.heap[ref.ref]
        for f in self.fields:
            ty = I.E.field_type(o.cls, f)
            if ty is None:
                raise Unsupported("monitored field %s has no declared type" % f)
            if f not in o.init and f not in o.fields:
                o.init[f] = I.fresh_of_type(ty, "%s.%s" % (I.obj_hint(ref), f))
            v = I.fresh_of_type(ty, "%s.%s!sync" % (I.obj_hint(ref), f))
            o.fields[f] = v
            st.ghost["sync_" + f] = v
        for g, ty in self.ghosts.items():
            if g not in st.ghost:
                st.ghost[g] = I.fresh_of_type(ty, "ghost." + g)
                st.ghost_init[g] = st.ghost[g]
            st.ghost[g] = I.fresh_of_type(ty, "ghost.%s!sync" % g)
            st.ghost["sync_" + g] = st.ghost[g]

    def inv_terms(self, I, ref, fr):
        out = []
        for i, e in enumerate(self.invariant):
            t = I.truthy(I.E.eval_spec(I, e, fr, {"self": ref}))
            out.append((i, t))
        return out

    def assume_inv(self, I, ref, fr):
        for i, t in self.inv_terms(I, ref, fr):
            I.st.assume(zbool(t))

    def assert_inv(self, I, ref, fr, where, site):
        q = fr.finfo.qualname if fr.finfo else "?"
        for i, t in self.inv_terms(I, ref, fr):
            I.st.oblige("%s::monitor(%s).inv#%d@%s::%s" % (q, self.cls.rsplit(".", 1)[-1], i, where, site), t, kind="monitor")

    # ---- hooks
    def on_acquire(self, I, lock, fr, site):
        k = I.E.lock_key(lock)
        if I.st.held.get(k, 0) != 1:     # re-entrant acquire: nothing new
            return
        for ref in self.objects(I, lock):
            self.havoc(I, ref)
            self.assume_inv(I, ref, fr)

    def on_release(self, I, lock, fr, site):
        k = I.E.lock_key(lock)
        if I.st.held.get(k, 0) != 1:
            return
        # ghost effects of the running function are committed at its linearisation point: the release
        top = I.E.contract_of(I.E.current_target) if I.E.current_target else None
        if top and top.get("on_release") and not I.callstack:
            newg = {g: I.E.eval_spec(I, e, fr, {}) for g, e in top["on_release"].items()}
            I.st.ghost.update(newg)
        for ref in self.objects(I, lock):
            self.assert_inv(I, ref, fr, "release", site)

    def on_wait(self, I, cond, timeout, fr, site):
        # cond is a Condition value stored in one of self.conditions of a monitored object
        for r, o in I.st.heap.items():
            if o.kind == "obj" and self.cls in I.E.mro(o.cls):
                for cf in self.conditions:
                    if o.fields.get(cf) is cond:
                        ref = VRef(r)
                        self.assert_inv(I, ref, fr, "wait", site)
                        self.havoc(I, ref)
                        self.assume_inv(I, ref, fr)

    def check_access(self, I, ref, name, fr, kind):
        if fr is None or fr.spec:
            return
        o = I.st.heap[ref.ref]
        if name not in self.fields or self.cls not in I.E.mro(o.cls):
            return
        lock = o.fields.get(self.lock_field)
        if lock is None:
            lock = I.get_field(ref, self.lock_field, None)
        if I.E.is_held(I, lock):
            return
        q = I.callstack[-1] if I.callstack else (fr.finfo.qualname if fr.finfo else "?")
        top = fr.finfo.qualname if fr.finfo else "?"
        if q in self.unlocked or top in self.unlocked:
            return
        I.st.oblige("%s::monitor(%s).lock-held@%s(%s)" % (top, self.cls.rsplit(".", 1)[-1], kind, name), False, kind="monitor")

    def on_field_write(self, I, ref, name, fr):
        self.check_access(I, ref, name, fr, "write")

    def on_field_read(self, I, ref, name, fr):
        self.check_access(I, ref, name, fr, "read")
