"""Rope operations on VSeq values: most byte-string algebra of paramiko (pack + concat + slice at known
boundaries) is resolved syntactically here, so that the obligations sent to the solver are mostly
quantifier-free.  When a boundary cannot be located under the path condition the rope is flattened
to a term of the axiomatised sequence sort."""
import z3
from . import smt
from .values import Seg, VSeq, VInt, is_conc, zint, simp, Unsupported


def seg_len(seg):
    return seg.length()


def seq_len(v):
    tot = 0
    for s in v.segs:
        tot = tot + zint(s.length()) if not (is_conc(tot) and is_conc(s.length())) else tot + s.length()
    return simp(tot)


def const_term(st, data):
    """z3 constant standing for a concrete byte/str sequence, with its defining facts"""
    if len(data) == 0:
        return smt.sempty
    name = "k!" + "_".join("%x" % b for b in data[:24]) + ("_n%d" % len(data) if len(data) > 24 else "")
    c = z3.Const(name, smt.Seq)
    if name not in st.defs:
        facts = [smt.slen(c) == len(data)]
        for i, b in enumerate(data[:256]):
            facts.append(smt.sat_(c, i) == b)
        st.defs[name] = facts
        # different constants are different values (lets the quantifier-free path solver see that
        # x == "a" and x == "b" exclude each other)
        syms = st.__dict__.setdefault("const_syms", {})
        for other, (oc, odata) in syms.items():
            if tuple(odata) != tuple(data):
                st.assume(c != oc)
        if len(data) > 0:
            st.assume(c != smt.sempty)
        syms[name] = (c, tuple(data))
    return c


def seg_term(st, seg):
    k = seg.kind
    if k == "C":
        return const_term(st, seg.a)
    if k == "A":
        return seg.a
    if k == "P32":
        return smt.pack32(zint(seg.a))
    if k == "P64":
        return smt.pack64(zint(seg.a))
    if k == "U":
        return smt.sunit(zint(seg.a))
    if k == "R":
        return smt.srep(zint(seg.a), zint(seg.b))
    raise AssertionError(k)


def seq_term(st, v):
    if not v.segs:
        return smt.sempty
    t = None
    for s in v.segs:
        x = seg_term(st, s)
        t = x if t is None else smt.scat(t, x)
    return t


def concat(a, b):
    segs = list(a.segs)
    for s in b.segs:
        if segs and segs[-1].kind == "C" and s.kind == "C":
            segs[-1] = Seg("C", tuple(segs[-1].a) + tuple(s.a))
        elif segs and segs[-1].kind == "A" and s.kind == "A" and _is_slice(segs[-1].a) and _is_slice(s.a) \
                and segs[-1].a.arg(0).eq(s.a.arg(0)) and _same_term(segs[-1].a.arg(2), s.a.arg(1)):
            # x[a:b] + x[b:c] = x[a:c]
            x, y = segs[-1], s
            ln = simp(zint(x.length()) + zint(y.length())) if not (is_conc(x.length()) and is_conc(y.length())) \
                else x.length() + y.length()
            segs[-1] = slice_seg(x.a.arg(0), x.a.arg(1), y.a.arg(2), ln)
        else:
            segs.append(s)
    pt = a.pytype
    if pt != b.pytype and "bytearray" in (a.pytype, b.pytype):
        pt = a.pytype
    return VSeq(segs, pt)


def const_seq(data, pytype="bytes"):
    if isinstance(data, str):
        return VSeq([Seg("C", tuple(ord(c) for c in data))], "str")
    return VSeq([Seg("C", tuple(data))], pytype)


def conc_value(v):
    """python bytes/str if the rope is fully concrete else None"""
    out = []
    for s in v.segs:
        if s.kind == "C":
            out.extend(s.a)
        elif s.kind == "U" and is_conc(s.a):
            out.append(s.a)
        elif s.kind == "R" and is_conc(s.a) and is_conc(s.b):
            out.extend([s.a] * s.b)
        elif s.kind == "P32" and is_conc(s.a):
            out.extend(s.a.to_bytes(4, "big"))
        elif s.kind == "P64" and is_conc(s.a):
            out.extend(s.a.to_bytes(8, "big"))
        else:
            return None
    if v.pytype == "str":
        return "".join(chr(c) for c in out)
    return bytes(out)


def subseg(st, seg, s, e):
    """sub-segment [s,e) of seg, with 0<=s<=e<=len(seg) known"""
    L = seg.length()
    s, e = simp(s), simp(e)
    if is_conc(s) and s == 0 and (e is L or (is_conc(e) and is_conc(L) and e == L) or
                                  (not is_conc(e) and not is_conc(L) and e.eq(L))):
        return seg
    k = seg.kind
    if is_conc(s) and is_conc(e):
        if s == e:
            return Seg("C", ())
        if k == "C":
            return Seg("C", tuple(seg.a[s:e]))
        if k == "U":
            return seg
        if k in ("P32", "P64") and is_conc(seg.a):
            n = 4 if k == "P32" else 8
            return Seg("C", tuple(seg.a.to_bytes(n, "big")[s:e]))
    if k == "R":
        return Seg("R", seg.a, simp(zint(e) - zint(s)))
    if k == "A" and _is_slice(seg.a):
        # slice of a slice: one slice of the underlying term (every sslice term built by this module is in range)
        base, a0 = seg.a.arg(0), seg.a.arg(1)
        return slice_seg(base, simp(a0 + zint(s)), simp(a0 + zint(e)), simp(zint(e) - zint(s)))
    return slice_seg(seg_term(st, seg), zint(s), zint(e), simp(zint(e) - zint(s)))


def _same_term(x, y):
    x, y = simp(x), simp(y)
    if is_conc(x) or is_conc(y):
        return is_conc(x) and is_conc(y) and x == y
    return x.eq(y)


def _is_slice(t):
    return z3.is_app(t) and t.decl().name() == "sslice" and t.num_args() == 3


def slice_seg(base, lo, hi, length):
    lo, hi = simp(lo), simp(hi)
    whole = smt.slen(base)
    if is_conc(lo) and lo == 0 and not is_conc(hi) and _same_term(hi, whole):
        return Seg("A", base, length)
    return Seg("A", smt.sslice(base, zint(lo), zint(hi)), length)


def flatten(st, v):
    """single-atom rope for v"""
    if len(v.segs) == 1 and v.segs[0].kind == "A":
        return v
    return VSeq([Seg("A", seq_term(st, v), seq_len(v))], v.pytype)


def slice_norm(st, v, lo, hi):
    """v[lo:hi] where 0 <= lo <= hi <= len(v) is already established"""
    lo, hi = simp(lo), simp(hi)
    if is_conc(lo) and is_conc(hi) and lo == hi:
        return VSeq([], v.pytype)
    res = []
    P = 0
    ok = True
    for seg in v.segs:
        L = seg.length()
        Q = simp(zint(P) + zint(L)) if not (is_conc(P) and is_conc(L)) else P + L
        zlo, zhi, zP, zQ = zint(lo), zint(hi), zint(P), zint(Q)
        if st.proves(zQ <= zlo) or st.proves(zhi <= zP):
            pass
        elif st.proves(zlo <= zP) and st.proves(zQ <= zhi):
            res.append(seg)
        else:
            if st.proves(zlo <= zP):
                s = 0
            elif st.proves(zlo >= zP):
                s = simp(zlo - zP)
            else:
                ok = False
                break
            if st.proves(zQ <= zhi):
                e = L
            elif st.proves(zhi <= zQ):
                e = simp(zhi - zP)
            else:
                ok = False
                break
            res.append(subseg(st, seg, s, e))
        P = Q
    if ok:
        return VSeq(res, v.pytype)
    f = flatten(st, v)
    return VSeq([subseg(st, f.segs[0], lo, hi)] if f.segs else [], v.pytype)


def index_norm(st, v, i):
    """element v[i] as int term, 0 <= i < len(v) already established"""
    i = simp(i)
    P = 0
    for seg in v.segs:
        L = seg.length()
        Q = simp(zint(P) + zint(L)) if not (is_conc(P) and is_conc(L)) else P + L
        if st.proves(z3.And(zint(P) <= zint(i), zint(i) < zint(Q))):
            off = simp(zint(i) - zint(P))
            return seg_index(st, seg, off, v.pytype)
        P = Q
    f = flatten(st, v)
    return seg_index(st, f.segs[0], i, v.pytype)


def seg_index(st, seg, off, pytype):
    k = seg.kind
    if k == "C" and is_conc(off):
        return seg.a[off]
    if k == "U":
        return seg.a
    if k == "R":
        return seg.a
    if k in ("P32", "P64") and is_conc(seg.a) and is_conc(off):
        return seg.a.to_bytes(4 if k == "P32" else 8, "big")[off]
    if k == "A" and _is_slice(seg.a):
        # element of a slice = element of the underlying term (in-range slices only are ever built here)
        t = smt.sat_(seg.a.arg(0), simp(seg.a.arg(1) + zint(off)))
    else:
        t = smt.sat_(seg_term(st, seg), zint(off))
    if pytype in ("bytes", "bytearray"):
        st.assume(z3.And(t >= 0, t < 256))
    else:
        st.assume(t >= 0)
    return t


def _same_len(st, la, lb):
    if is_conc(la) and is_conc(lb):
        return la == lb
    return st.proves(zint(la) == zint(lb))


def seg_eq(st, x, y):
    """equality of two segments of provably equal length -> bool | z3 Bool"""
    if x.kind == "C" and y.kind == "C":
        return tuple(x.a) == tuple(y.a)
    if x.kind == y.kind and x.kind in ("P32", "P64"):
        return simp(zint(x.a) == zint(y.a))
    if x.kind == y.kind == "U":
        return simp(zint(x.a) == zint(y.a))
    if x.kind == "A" and y.kind == "A" and x.a.eq(y.a):
        return True
    if x.kind == "U" and y.kind == "C" and len(y.a) == 1:
        return simp(zint(x.a) == y.a[0])
    if x.kind == "C" and y.kind == "U" and len(x.a) == 1:
        return simp(zint(y.a) == x.a[0])
    return smt.seqeq(seg_term(st, x), seg_term(st, y))


def seq_eq(st, a, b):
    """a == b -> bool | z3 Bool"""
    ca, cb = conc_value(a), conc_value(b)
    if ca is not None and cb is not None:
        return ca == cb
    la, lb = seq_len(a), seq_len(b)
    if is_conc(la) and is_conc(lb) and la != lb:
        return False
    if not (is_conc(la) and is_conc(lb)):
        if st.proves(zint(la) != zint(lb)):
            return False
    # structural alignment
    if len(a.segs) == len(b.segs) and all(_same_len(st, x.length(), y.length()) for x, y in zip(a.segs, b.segs)):
        parts = [seg_eq(st, x, y) for x, y in zip(a.segs, b.segs)]
        if all(p is True for p in parts):
            return True
        if any(p is False for p in parts):
            return False
        return simp(z3.And(*[p for p in parts if p is not True]))
    # a single element compared with a 1-byte constant (b != zero_byte etc.)
    if cb is not None and len(cb) == 1 and _same_len(st, la, 1):
        x = index_norm(st, a, 0)
        return simp(zint(x) == (cb[0] if isinstance(cb, bytes) else ord(cb)))
    if ca is not None and len(ca) == 1 and _same_len(st, lb, 1):
        x = index_norm(st, b, 0)
        return simp(zint(x) == (ca[0] if isinstance(ca, bytes) else ord(ca)))
    ta, tb = seq_term(st, a), seq_term(st, b)
    t = smt.seqeq(ta, tb)
    st.assume(t == (ta == tb))        # ground instance of the definition of seqeq
    return t
