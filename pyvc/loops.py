"""Loops: exact unrolling when the iteration space is concrete, otherwise the invariant cut
(entry / havoc / assume / one arbitrary iteration / preservation + variant)."""
import ast
import z3
from . import smt, ropes
from .values import LazyInit, Unsupported, VInt, VBool, VNone, NONE, VSeq, VTuple, VRef, VFunc, VOpaque, Seg, is_conc, zint, zbool, simp
from .symexec import PathEnd, ReturnSig, BreakSig, ContinueSig, PyExc

MUTATORS = {"append", "pop", "insert", "remove", "extend", "update", "clear", "sort", "reverse", "setdefault",
            "popitem", "add", "discard", "write", "seek", "read", "popleft", "appendleft"}


def loop_contract(I, node, fr):
    c = I.E.contract_of(fr.finfo.qualname)
    if c is None:
        return None
    lab = fr.finfo.label(node)  # loop#k
    k = int(lab.split("#")[1])
    return (c.get("loops") or {}).get(k)


def assigned_targets(I, body_nodes, fr):
    """names and (base expr, attr) stores in the loop body, by AST scan"""
    names, attrs, containers = set(), [], []
    for top in body_nodes:
        for n in ast.walk(top):
            if isinstance(n, (ast.FunctionDef, ast.Lambda)):
                continue
            if isinstance(n, ast.Name) and isinstance(n.ctx, (ast.Store, ast.Del)):
                names.add(n.id)
            elif isinstance(n, ast.Attribute) and isinstance(n.ctx, ast.Store):
                attrs.append(n)
            elif isinstance(n, ast.Subscript) and isinstance(n.ctx, (ast.Store, ast.Del)):
                containers.append(n.value)
            elif isinstance(n, ast.AugAssign):
                t = n.target
                if isinstance(t, ast.Name):
                    names.add(t.id)
            elif isinstance(n, ast.Call) and isinstance(n.func, ast.Attribute):
                if n.func.attr in MUTATORS:
                    containers.append(n.func.value)
            elif isinstance(n, ast.ExceptHandler) and n.name:
                names.add(n.name)
    return names, attrs, containers


def havoc(I, node, fr, lc):
    """havoc everything the loop may modify"""
    from .interp import mangle
    st = I.st
    body = list(node.body) + list(node.orelse)
    if isinstance(node, ast.While):
        body.append(node.test)
    names, attrs, containers = assigned_targets(I, body, fr)
    decl = (lc or {}).get("vars") or {}
    touched = set()     # heap locations (ref, field) given fresh values here
    for n in sorted(names):
        if n in decl:
            fr.locals[n] = I.fresh_of_type(decl[n], n)
        elif n in fr.locals:
            fr.locals[n] = I.fresh_like(fr.locals[n], n)
        # else: not defined before the loop; defined by the iteration itself
    done = set()
    for a in attrs:
        try:
            base = I.eval(a.value, fr)
        except (PyExc, Unsupported):
            continue
        if isinstance(base, VRef) and st.heap[base.ref].kind == "obj":
            name = mangle(fr.cls, a.attr)
            if (base.ref, name) in done:
                continue
            done.add((base.ref, name))
            touched.add((base.ref, name))
            o = st.heap[base.ref]
            ty = I.E.field_type(o.cls, name)
            if ty is not None:
                if name not in o.init:
                    o.init[name] = I.fresh_of_type(ty, "%s.%s" % (I.obj_hint(base), name))
                o.fields[name] = I.fresh_of_type(ty, "%s.%s" % (I.obj_hint(base), name))
            elif name in o.fields:
                o.fields[name] = I.fresh_like(o.fields[name], name)
    for cexpr in containers:
        try:
            base = I.eval(cexpr, fr)
        except (PyExc, Unsupported):
            continue
        if isinstance(base, VRef):
            o = st.heap[base.ref]
            touched.add((base.ref, "<data>"))
            if o.kind == "slist":
                o.data = VSeq(I.fresh_of_type("bytes", "lst").segs, "list")
            elif o.kind == "bytesio":
                touched.update([(base.ref, "buf"), (base.ref, "pos")])
                o.fields["buf"] = I.fresh_of_type("bytes", "bio.buf")
                p = I.fresh_of_type("nat", "bio.pos")
                o.fields["pos"] = p
            elif o.kind in ("list", "dict"):
                # a local list declared symbolic in the loop contract (vars: name -> list[int]) becomes a symbolic list
                nm = cexpr.id if isinstance(cexpr, ast.Name) else None
                if o.kind == "list" and nm and str(decl.get(nm, "")).startswith("list[") and all(isinstance(x, (VInt, VBool)) for x in o.data):
                    fr.locals[nm] = I.fresh_of_type(decl[nm], nm)
                    continue
                if o.kind == "list" and nm and str(decl.get(nm, "")).startswith("opaque:"):
                    # a local list used through an abstract container type (its operations have contracts)
                    fr.locals[nm] = I.fresh_of_type(decl[nm], nm)
                    continue
                if (lc or {}).get("unroll") is None:
                    raise Unsupported("loop mutates a concrete %s; needs unrolling or a symbolic container" % o.kind)
    for g in (lc or {}).get("havoc_ghosts", []):
        ty = I.E.ghost_types.get(g)
        if g not in st.ghost:
            st.ghost[g] = I.fresh_of_type(ty, "ghost." + g)
            st.ghost_init[g] = st.ghost[g]
        st.ghost[g] = I.fresh_of_type(ty, "ghost.%s!loop" % g)
    # fields modified through callee contracts inside the loop
    for fld in (lc or {}).get("havoc_fields", []):
        base = I.eval(ast.parse(fld.rsplit(".", 1)[0], mode="eval").body, fr)
        name = fld.rsplit(".", 1)[1]
        o = st.heap[base.ref]
        touched.add((base.ref, name))
        ty = I.E.field_type(o.cls, name)
        if name not in o.init:
            o.init[name] = I.fresh_of_type(ty, "%s.%s" % (I.obj_hint(base), name))
        o.fields[name] = I.fresh_of_type(ty, "%s.%s" % (I.obj_hint(base), name))
    return touched


def snapshot_entry(I, node, fr, label):
    """ghost copies _entry<k>_<name> of the variables the loop assigns, taken when the loop is reached
    (invariants can relate the current value to the value at loop entry)"""
    k = label.split("#")[1]
    names, _, _ = assigned_targets(I, list(node.body) + list(node.orelse), fr)
    for n in names:
        if n in fr.locals:
            fr.locals["_entry%s_%s" % (k, n)] = fr.locals[n]


def check_invs(I, lc, fr, name, extra_env=None):
    for i, inv in enumerate(lc.get("inv", [])):
        t = I.E.eval_spec(I, inv, fr, extra_env or {})
        I.st.oblige("%s::%s::%s.inv#%d" % (fr.finfo.qualname, name, lc["_label"], i), I.truthy(t))
    for tgt, expr in (lc.get("defs") or {}).items():
        if _def_dropped(I, fr, lc, tgt):
            continue
        cur = _read_def(I, fr, tgt)
        want = I.E.eval_spec(I, expr, fr, extra_env or {})
        I.st.oblige("%s::%s::%s.def(%s)" % (fr.finfo.qualname, name, lc["_label"], tgt), I.equal(cur, want))


def assume_invs(I, lc, fr, extra_env=None):
    for inv in lc.get("inv", []):
        t = I.E.eval_spec(I, inv, fr, extra_env or {})
        I.st.assume(zbool(I.truthy(t)))
    # definitional invariants  target == expr : assumed by *assigning* the value of expr (evaluated in the havocked
    # state, in order) to the target, so that byte strings keep their rope structure; checked like any invariant
    for tgt, expr in (lc.get("defs") or {}).items():
        if _def_dropped(I, fr, lc, tgt):
            continue
        v = I.E.eval_spec(I, expr, fr, extra_env or {})
        _assign_def(I, fr, tgt, v)


def _def_dropped(I, fr, lc, tgt):
    """a definitional invariant about a plain local the function no longer has (the accumulator was renamed or given
    another representation by a change): the clause cannot be stated, so it is left out and the fact is recorded - a
    failed proof on such a tree counts as a violation only with a natively reproduced input (like any representation
    change), otherwise as undecided"""
    if tgt.startswith("ghost:") or "." in tgt:
        return False
    key = "_dropped_defs"
    if tgt in lc.setdefault(key, set()):
        return True
    if tgt not in fr.locals and key + "_checked_" + tgt not in lc:
        lc[key].add(tgt)
        I.E.auto_fields.add("loop invariant names a local the function no longer has: %s in %s" % (tgt, fr.finfo.qualname))
        return True
    lc[key + "_checked_" + tgt] = True
    return False


def _assign_def(I, fr, tgt, v):
    if tgt.startswith("ghost:"):
        I.st.ghost[tgt[6:]] = v
    elif "." in tgt:
        from . import calls
        sf = calls.spec_frame(I, fr.finfo, {}, None)
        sf.closure = fr
        calls.assign_lvalue(I, tgt, v, sf)
    else:
        fr.locals[tgt] = v


def _read_def(I, fr, tgt):
    if tgt.startswith("ghost:"):
        return I.E.eval_spec(I, "ghost(%r)" % tgt[6:], fr, {})
    return I.E.eval_spec(I, tgt, fr, {})


def ghost_snapshot(I):
    """ghost state and heap at the loop head (after the havoc), for the frame obligations below"""
    gs = {g: v for g, v in I.st.ghost.items() if isinstance(g, str) and g in I.E.ghost_types}
    hs = {}
    for r, o in I.st.heap.items():
        if o.kind in ("obj", "bytesio"):
            hs[r] = dict(o.fields)
        elif o.kind == "slist":
            hs[r] = {"<data>": o.data}
    return gs, hs


def check_ghost_frame(I, lc, fr, snap):
    """the cut is only inductive if everything the arbitrary iteration changes was havocked at the loop head:
    a ghost that is not listed in havoc_ghosts must come out of the iteration as it went in"""
    st = I.st
    snap, heap_snap = snap
    touched = lc.get("_touched") or set()
    for r in sorted(heap_snap):
        o = st.heap.get(r)
        if o is None:
            continue
        now = {"<data>": o.data} if o.kind == "slist" else o.fields
        for name in sorted(now):
            if (r, name) in touched:
                continue
            cur = now[name]
            before = heap_snap[r].get(name, o.init.get(name) if o.kind == "obj" else None)
            if cur is before or before is None:
                continue
            try:
                same = False if isinstance(before, LazyInit) else I.equal(cur, before)
            except Unsupported:
                same = False
            st.oblige("%s::loop-frame::%s.field(%s.%s)" % (fr.finfo.qualname, lc["_label"], o.cls if o.kind == "obj" else o.kind, name), same)
    listed = set(lc.get("havoc_ghosts", []))
    for g in sorted(k for k in st.ghost if isinstance(k, str) and k in I.E.ghost_types):
        if g in listed:
            continue
        cur = st.ghost[g]
        before = snap.get(g, st.ghost_init.get(g))
        if cur is before or before is None:
            continue
        try:
            same = I.equal(cur, before)
        except Unsupported:
            same = False
        st.oblige("%s::loop-frame::%s.ghost(%s)" % (fr.finfo.qualname, lc["_label"], g), same)


def eval_variant(I, lc, fr, extra_env=None):
    if lc.get("variant") is None:
        return None
    v = I.E.eval_spec(I, lc["variant"], fr, extra_env or {})
    return zint(v.t)


def exec_while(I, node, fr):
    st = I.st
    lc = loop_contract(I, node, fr)
    label = fr.finfo.label(node)
    if lc is None or lc.get("unroll") is not None:
        bound = (lc or {}).get("unroll", I.E.default_unroll)
        n = 0
        while True:
            c = I.eval(node.test, fr)
            if not st.decide(I.truthy(c)):
                I.exec_block(node.orelse, fr)
                return
            if n >= bound:
                if lc is None:
                    raise Unsupported("while loop %s in %s needs an invariant" % (label, fr.finfo.qualname))
                st.notes.append("bounded: %s %s unrolled %d times" % (fr.finfo.qualname, label, bound))
                I.E.bounded.add("%s::%s unrolled %d" % (fr.finfo.qualname, label, bound))
                raise PathEnd()
            n += 1
            try:
                I.exec_block(node.body, fr)
            except BreakSig:
                return
            except ContinueSig:
                continue
    lc = dict(lc)
    lc["_label"] = label
    snapshot_entry(I, node, fr, label)
    check_invs(I, lc, fr, "loop-entry")
    lc["_touched"] = havoc(I, node, fr, lc)
    assume_invs(I, lc, fr)
    gsnap = ghost_snapshot(I)
    c = I.eval(node.test, fr)
    if not st.decide(I.truthy(c)):
        I.exec_block(node.orelse, fr)
        return
    v0 = eval_variant(I, lc, fr)
    ex0 = None
    if lc.get("exit_when"):
        ex0 = zbool(I.truthy(I.E.eval_spec(I, lc["exit_when"], fr, {})))
    try:
        I.exec_block(node.body, fr)
    except BreakSig:
        return
    except ContinueSig:
        pass
    if ex0 is not None:
        # progress: an iteration that starts in the exit condition must leave the loop (return / raise / break)
        st.oblige("%s::loop-exit-when::%s" % (fr.finfo.qualname, label), z3.Not(ex0))
    check_invs(I, lc, fr, "loop-preserve")
    check_ghost_frame(I, lc, fr, gsnap)
    if v0 is not None:
        v1 = eval_variant(I, lc, fr)
        st.oblige("%s::variant::%s" % (fr.finfo.qualname, label), z3.And(v0 >= 0, v1 < v0))
    raise PathEnd()


def exec_for(I, node, fr):
    st = I.st
    label = fr.finfo.label(node)
    lc = loop_contract(I, node, fr)
    it = I.eval(node.iter, fr)
    # ---- concrete iteration space: exact unrolling
    items = None
    try:
        items = concrete_items(I, it)
    except Unsupported:
        items = None
    if items is not None and (lc is None or not lc.get("inv")):
        live = isinstance(it, VRef) and st.heap[it.ref].kind == "list"
        idx = 0
        while True:
            if live:
                data = st.heap[it.ref].data   # real iterator semantics: re-read the list every step
                if idx >= len(data):
                    break
                x = data[idx]
            else:
                if idx >= len(items):
                    break
                x = items[idx]
            idx += 1
            I.assign_target(node.target, x, fr)
            try:
                I.exec_block(node.body, fr)
            except BreakSig:
                return
            except ContinueSig:
                continue
        I.exec_block(node.orelse, fr)
        return
    if lc is None:
        # a loop the contracts do not know (added by a change): cut with the weakest invariant; recorded, so that a
        # failed proof without a reproduced input is reported as undecided rather than as a violation
        I.E.auto_fields.add("loop without a contract: %s %s" % (fr.finfo.qualname, label))
        lc = {"inv": []}
    lc = dict(lc)
    lc["_label"] = label
    # ---- symbolic iteration: index-based desugaring
    elem_at, total = symbolic_iter(I, it, fr)
    k = int(label.split("#")[1])
    idxname = "_idx%d" % k
    fr.locals[idxname] = VInt(0)
    check_invs(I, lc, fr, "loop-entry")
    lc["_touched"] = havoc(I, node, fr, lc)
    idx = st.fresh_int(idxname)
    st.assume(z3.And(idx >= 0, idx <= zint(total)))
    fr.locals[idxname] = VInt(idx)
    assume_invs(I, lc, fr)
    gsnap = ghost_snapshot(I)
    if not st.decide(idx < zint(total)):
        I.exec_block(node.orelse, fr)
        return
    x = elem_at(idx)
    fr.locals[idxname] = VInt(simp(idx + 1))
    # the element being processed, under a name that does not depend on how the loop names its variables:
    # specifications say local('_item_of_<iterable expression>')
    fr.locals["_item_of_" + ast.unparse(node.iter)] = x
    I.assign_target(node.target, x, fr)
    try:
        I.exec_block(node.body, fr)
    except BreakSig:
        return
    except ContinueSig:
        pass
    check_invs(I, lc, fr, "loop-preserve")
    check_ghost_frame(I, lc, fr, gsnap)
    raise PathEnd()


def concrete_items(I, it):
    st = I.st
    if isinstance(it, VTuple):
        return list(it.items)
    if isinstance(it, VRef):
        o = st.heap[it.ref]
        if o.kind == "list":
            return list(o.data)
        if o.kind == "dict":
            return [I.from_py(k) for k in o.data]
        if o.kind == "range":
            a, b, s = o.data
            if is_conc(a) and is_conc(b) and is_conc(s):
                return [VInt(i) for i in range(a, b, s)]
            raise Unsupported("symbolic range")
        if o.kind == "enumerate":
            inner = concrete_items(I, o.data)
            st0 = o.fields.get("start", VInt(0))
            return [VTuple([VInt(simp(zint(st0.t) + i)) if not is_conc(st0.t) else VInt(st0.t + i), x]) for i, x in enumerate(inner)]
        if o.kind == "items":
            d = st.heap[o.data.ref].data
            if st.heap[o.data.ref].kind == "adict":
                return [VTuple([k, v]) for k, v in d]
            return [VTuple([I.from_py(k), v]) for k, v in d.items()]
        if o.kind == "adict":
            return [k for k, _ in o.data]
        if o.kind == "values":
            d = st.heap[o.data.ref].data
            return list(d.values())
    if isinstance(it, VSeq):
        c = ropes.conc_value(it)
        if c is not None:
            if isinstance(c, str):
                return [ropes.const_seq(ch) for ch in c]
            return [VInt(b) for b in c]
    raise Unsupported("not a concrete iterable")


def symbolic_iter(I, it, fr):
    """-> (elem_at(idx term) -> V, total length term)"""
    st = I.st
    if isinstance(it, VSeq):
        n = ropes.seq_len(it)

        def at(i):
            x = ropes.index_norm(st, it, i)
            return VSeq([Seg("U", x)], "str") if it.pytype == "str" else VInt(x)
        return at, n
    if isinstance(it, VRef):
        o = st.heap[it.ref]
        if o.kind == "slist":
            n = ropes.seq_len(o.data)
            return (lambda i: VInt(ropes.index_norm(st, o.data, i))), n
        if o.kind == "range":
            a, b, s = o.data
            if is_conc(s) and s > 0:
                za, zb = zint(a), zint(b)
                # number of iterations: ceil((b-a)/s) clipped at 0
                cnt = simp(z3.If(zb > za, (zb - za + (s - 1)) / s, 0))
                return (lambda i: VInt(simp(za + i * s))), cnt
            raise Unsupported("range with symbolic/negative step")
        if o.kind == "enumerate":
            inner_at, n = symbolic_iter(I, o.data, fr)
            st0 = zint(o.fields.get("start", VInt(0)).t)
            return (lambda i: VTuple([VInt(simp(st0 + zint(i))), inner_at(i)])), n
    if isinstance(it, VOpaque) and it.tag in getattr(I.E, "opaque_iter", {}):
        # abstract finite sequence (e.g. what a generator will produce): length and elements are uninterpreted
        elem_tag = I.E.opaque_iter[it.tag]
        ident = it.t if it.t is not None else z3.IntVal(0)
        flen = z3.Function("uf_len_" + it.tag, smt.Int, smt.Int)
        felem = z3.Function("uf_elem_" + it.tag, smt.Int, smt.Int, smt.Int)
        n = flen(ident)
        st.assume(n >= 0)
        if elem_tag == "str":
            fs = z3.Function("uf_selem_" + it.tag, smt.Int, smt.Int, smt.Seq)
            return (lambda i: VSeq([Seg("A", fs(ident, zint(i)), smt.slen(fs(ident, zint(i))))], "str")), n
        if elem_tag == "int":
            return (lambda i: VInt(felem(ident, zint(i)))), n
        if elem_tag == "pair":
            f2 = z3.Function("uf_elem2_" + it.tag, smt.Int, smt.Int, smt.Int)
            return (lambda i: VTuple([VInt(felem(ident, zint(i))), VInt(f2(ident, zint(i)))])), n
        return (lambda i: VOpaque(elem_tag, felem(ident, zint(i)))), n
    raise Unsupported("symbolic iteration over %s" % I.type_name(it))
