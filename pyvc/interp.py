"""The interpreter: statements, expressions, calls, contracts, loops."""
import ast
import z3
from . import smt, ropes
from .values import LazyInit, Unsupported, V, VInt, VBool, VNone, NONE, VFloat, Seg, VSeq, VTuple, VRef, VFunc, VClass, \
    VModule, VOpaque, VExc, HeapObj, is_conc, zint, zbool, simp
from .symexec import PathEnd, ReturnSig, BreakSig, ContinueSig, PyExc, Frame, State
from .extract import dec

MAX_STEPS = 200000
LOG_METHODS = {"_log", "log", "debug", "info", "warning", "error", "exception"}


def mangle(cls, attr):
    if cls and attr.startswith("__") and not attr.endswith("__"):
        return "_" + cls.rsplit(".", 1)[-1].lstrip("_") + attr
    return attr


class Interp:
    def __init__(self, engine, st):
        self.E = engine
        self.st = st
        self.callstack = []

    # ------------------------------------------------------------------ values
    def from_py(self, v):
        st = self.st
        if v is None:
            return NONE
        if isinstance(v, bool):
            return VBool(v)
        if isinstance(v, int):
            return VInt(v)
        if isinstance(v, float):
            return VFloat(z3.RealVal(v))
        if isinstance(v, (bytes, bytearray)):
            return ropes.const_seq(bytes(v))
        if isinstance(v, str):
            return ropes.const_seq(v)
        if isinstance(v, tuple):
            return VTuple([self.from_py(x) for x in v])
        if isinstance(v, (list, set, frozenset)):
            r = st.alloc("list", "list")
            items = sorted(v, key=repr) if isinstance(v, (set, frozenset)) else v
            st.heap[r.ref].data = [self.from_py(x) for x in items]
            return r
        if isinstance(v, dict) and "k" in v and v["k"] in ("class", "func", "module", "other", "property"):
            return self.from_table(v)
        if isinstance(v, dict):
            r = st.alloc("dict", "dict")
            st.heap[r.ref].data = {k: self.from_py(x) for k, x in v.items()}
            return r
        raise Unsupported("from_py %r" % (v,))

    def from_table(self, e):
        k = e["k"]
        if k == "class":
            return VClass(e["v"])
        if k == "func":
            return VFunc(e["v"])
        if k == "module":
            return VModule(e["v"])
        if k == "other":
            return VOpaque(e["v"], z3.IntVal(e["oid"])) if "oid" in e else VOpaque(e["v"])
        if k in ("dict", "list", "set"):
            # a mutable module- or class-level object exists ONCE: every read of the name yields the same object (two
            # instances sharing a class-level dict see each other's writes)
            cache = self.st.__dict__.setdefault("table_objs", {})
            if id(e) not in cache:
                cache[id(e)] = self.from_py(dec(e))
            return cache[id(e)]
        return self.from_py(dec(e))

    def truthy(self, v):
        """bool | z3 Bool"""
        if isinstance(v, VBool):
            return v.t
        if isinstance(v, VInt):
            return simp(zint(v.t) != 0)
        if isinstance(v, VNone):
            return False
        if isinstance(v, VSeq):
            n = ropes.seq_len(v)
            return simp(zint(n) != 0)
        if isinstance(v, VTuple):
            return len(v.items) > 0
        if isinstance(v, VFloat):
            return simp(v.t != 0)
        if isinstance(v, VRef):
            o = self.st.heap[v.ref]
            if o.kind == "list":
                return len(o.data) > 0
            if o.kind in ("dict", "adict"):
                return len(o.data) > 0
            if o.kind == "slist":
                return simp(zint(ropes.seq_len(o.data)) != 0)
            if o.kind == "obj":
                cls = self.E.class_info(o.cls)
                if cls and any(self.E.find_attr(o.cls, n) for n in ("__bool__", "__len__")):
                    raise Unsupported("truthiness of %s with __bool__/__len__" % o.cls)
                return True
            return True
        if isinstance(v, VOpaque) and self.E.contract_of(v.tag + ".__len__"):
            # a container known only through its contracts: truthiness is len() != 0
            n = self.call_value(VFunc(v.tag + ".__len__", v), [], {}, getattr(self, "cur_fr", None), "truthy")
            return simp(zint(n.t) != 0)
        if isinstance(v, (VFunc, VClass, VModule, VOpaque, VExc)):
            return True
        raise Unsupported("truthy %r" % (v,))

    def decide_truthy(self, v, fr):
        t = self.truthy(v)
        if fr.spec:
            return t
        return self.st.decide(t)

    def type_name(self, v):
        if isinstance(v, VBool):
            return "bool"
        if isinstance(v, VInt):
            return "int"
        if isinstance(v, VNone):
            return "NoneType"
        if isinstance(v, VSeq):
            return v.pytype
        if isinstance(v, VTuple):
            return "tuple"
        if isinstance(v, VFloat):
            return "float"
        if isinstance(v, VRef):
            o = self.st.heap[v.ref]
            if o.kind in ("list", "slist"):
                return "list"
            if o.kind in ("dict", "adict", "sdict"):
                return "dict"
            return o.cls
        if isinstance(v, VExc):
            return v.cls
        if isinstance(v, VOpaque):
            return v.tag
        if isinstance(v, VFunc):
            return "function"
        return type(v).__name__

    # ------------------------------------------------------------------ exceptions
    def raise_py(self, cls, msg="", site=""):
        raise PyExc(VExc(cls, [ropes.const_seq(msg)] if msg else []), site)

    def exc_matches(self, exc_cls, handler_cls):
        return self.E.is_subclass(exc_cls, handler_cls)

    # ------------------------------------------------------------------ names
    def lookup(self, name, fr):
        f = fr
        in_old = fr.spec and fr.in_old
        while f is not None:
            if in_old and f.entry_locals is not None and name in f.entry_locals:
                return f.entry_locals[name]
            if name in f.locals:
                return f.locals[name]
            f = f.closure
        if fr.spec and name in self.E.spec_names:
            return VFunc("spec." + name)
        g = self.E.lookup_global(fr.module, name)
        if g is not None:
            return self.from_table(g)
        if fr.module and (fr.module + "." + name) in self.E.src.funcs:
            return VFunc(fr.module + "." + name)        # module-level function of an indexed file (lemma programs)
        if name in self.E.builtin_names:
            return VFunc("builtins." + name)
        if self.E.is_exception_name(name):
            return VClass(name)
        raise Unsupported("unbound name %s in %s" % (name, fr.finfo.qualname if fr.finfo else "?"))

    # ------------------------------------------------------------------ expressions
    def eval(self, e, fr):
        st = self.st
        st.steps += 1
        if st.steps > MAX_STEPS:
            raise Unsupported("step limit")
        m = getattr(self, "e_" + type(e).__name__, None)
        if m is None:
            raise Unsupported("expression %s" % type(e).__name__)
        return m(e, fr)

    def e_Constant(self, e, fr):
        if e.value is Ellipsis:
            return VOpaque("Ellipsis")
        return self.from_py(e.value)

    def e_Name(self, e, fr):
        return self.lookup(e.id, fr)

    def e_JoinedStr(self, e, fr):
        for v in e.values:
            if isinstance(v, ast.FormattedValue):
                self.eval(v.value, fr)
        return VSeq([Seg("A", self.st.fresh_seq("fstr"), self.fresh_len("fstr"))], "str")

    def fresh_len(self, hint):
        n = self.st.fresh_int(hint + "_len")
        self.st.assume(n >= 0)
        return n

    def e_Tuple(self, e, fr):
        items = []
        for x in e.elts:
            if isinstance(x, ast.Starred):
                items.extend(self.iter_concrete(self.eval(x.value, fr)))
            else:
                items.append(self.eval(x, fr))
        return VTuple(items)

    def e_List(self, e, fr):
        items = []
        for x in e.elts:
            if isinstance(x, ast.Starred):
                items.extend(self.iter_concrete(self.eval(x.value, fr)))
            else:
                items.append(self.eval(x, fr))
        r = self.st.alloc("list", "list")
        self.st.heap[r.ref].data = items
        return r

    def e_Dict(self, e, fr):
        r = self.st.alloc("dict", "dict")
        d = {}
        for k, v in zip(e.keys, e.values):
            kv = self.eval(k, fr)
            vv = self.eval(v, fr)
            d[self.hashable(kv)] = vv
        self.st.heap[r.ref].data = d
        return r

    def hashable(self, v):
        if isinstance(v, VInt) and is_conc(v.t):
            return v.t
        if isinstance(v, VBool) and is_conc(v.t):
            return v.t
        if isinstance(v, VSeq):
            c = ropes.conc_value(v)
            if c is not None:
                return c
        if isinstance(v, VNone):
            return None
        if isinstance(v, VTuple):
            return tuple(self.hashable(x) for x in v.items)
        if isinstance(v, VClass):
            return ("class", v.qualname)
        raise Unsupported("symbolic dict key of type %s" % self.type_name(v))

    def e_Attribute(self, e, fr):
        base = self.eval(e.value, fr)
        return self.get_attr(base, mangle(fr.cls, e.attr), fr, fr.finfo.label(e) if fr.finfo else "attr")

    def e_BoolOp(self, e, fr):
        if fr.spec:
            ts = [zbool(self.truthy(self.eval(v, fr))) for v in e.values]
            return VBool(simp(z3.And(*ts) if isinstance(e.op, ast.And) else z3.Or(*ts)))
        if all(pure_expr(v) for v in e.values):
            # operands cannot raise or have effects: evaluate them all and build one term (no fork); an operand that
            # cannot be evaluated on its own (e.g. `x < 0` guarded by `x is None or`) sends us to the short-circuit path
            try:
                vals = [self.eval(v, fr) for v in e.values]
            except Unsupported:
                vals = None
            if vals is not None and all(isinstance(v, VBool) for v in vals):
                ts = [zbool(v.t) for v in vals]
                return VBool(simp(z3.And(*ts) if isinstance(e.op, ast.And) else z3.Or(*ts)))
            for i, val in enumerate(vals or []):
                if i == len(vals) - 1:
                    return val
                t = self.st.decide(self.truthy(val))
                if isinstance(e.op, ast.And) and not t:
                    return val
                if isinstance(e.op, ast.Or) and t:
                    return val
        val = None
        for i, sub in enumerate(e.values):
            val = self.eval(sub, fr)
            if i == len(e.values) - 1:
                return val
            t = self.st.decide(self.truthy(val))
            if isinstance(e.op, ast.And) and not t:
                return val
            if isinstance(e.op, ast.Or) and t:
                return val
        return val

    def e_UnaryOp(self, e, fr):
        v = self.eval(e.operand, fr)
        if isinstance(e.op, ast.Not):
            t = self.truthy(v)
            return VBool((not t) if is_conc(t) else simp(z3.Not(t)))
        if isinstance(e.op, ast.USub):
            if isinstance(v, VInt):
                return VInt(simp(-zint(v.t)) if not is_conc(v.t) else -v.t)
            if isinstance(v, VFloat):
                return VFloat(-v.t)
        if isinstance(e.op, ast.UAdd) and isinstance(v, VInt):
            return v
        if isinstance(e.op, ast.Invert) and isinstance(v, VInt):
            return VInt(simp(-zint(v.t) - 1))
        raise Unsupported("unary %s on %r" % (type(e.op).__name__, v))

    def e_Yield(self, e, fr):
        """generator functions are verified as the sequence of values they hand out: every `yield v` is an obligation
        point for the clauses under the contract key 'yields' (specifications over the function's locals and `value`);
        the value sent back in is None (plain iteration).  A function with yields and no such clause is outside the
        subset."""
        v = self.eval(e.value, fr) if e.value is not None else NONE
        c = self.E.contract_of(fr.finfo.qualname) or {}
        ys = c.get("yields")
        if not ys:
            raise Unsupported("yield in a function whose contract has no 'yields' clause")
        for lab, spec in (ys.items() if isinstance(ys, dict) else enumerate(ys)):
            t = self.E.eval_spec(self, spec, fr, {"value": v})
            self.st.oblige("%s::yields(%s)" % (fr.finfo.qualname, lab), self.truthy(t))
        return NONE

    def e_IfExp(self, e, fr):
        c = self.eval(e.test, fr)
        if fr.spec:
            t = self.truthy(c)
            if is_conc(t):
                return self.eval(e.body if t else e.orelse, fr)
            # a choice the path condition already fixes is resolved (keeps ropes and slice bounds simple)
            if self.st.proves(zbool(t)):
                return self.eval(e.body, fr)
            if self.st.proves(z3.Not(zbool(t))):
                return self.eval(e.orelse, fr)
            a, b = self.eval(e.body, fr), self.eval(e.orelse, fr)
            return self.ite(t, a, b)
        if self.st.decide(self.truthy(c)):
            return self.eval(e.body, fr)
        return self.eval(e.orelse, fr)

    def ite(self, t, a, b):
        if isinstance(a, VInt) and isinstance(b, VInt):
            return VInt(simp(z3.If(t, zint(a.t), zint(b.t))))
        if isinstance(a, VBool) and isinstance(b, VBool):
            return VBool(simp(z3.If(t, zbool(a.t), zbool(b.t))))
        if isinstance(a, VBool) and isinstance(b, VInt) or isinstance(a, VInt) and isinstance(b, VBool):
            return VInt(simp(z3.If(t, self.as_int(a), self.as_int(b))))
        if isinstance(a, VSeq) and isinstance(b, VSeq):
            ta, tb = ropes.seq_term(self.st, a), ropes.seq_term(self.st, b)
            la, lb = zint(ropes.seq_len(a)), zint(ropes.seq_len(b))
            return VSeq([Seg("A", z3.If(t, ta, tb), simp(z3.If(t, la, lb)))], a.pytype)
        raise Unsupported("ite over %r / %r" % (a, b))

    def as_int(self, v):
        if isinstance(v, VInt):
            return zint(v.t)
        if isinstance(v, VBool):
            return z3.If(zbool(v.t), z3.IntVal(1), z3.IntVal(0)) if not is_conc(v.t) else z3.IntVal(int(v.t))
        raise Unsupported("as_int %r" % (v,))

    def e_Compare(self, e, fr):
        left = self.eval(e.left, fr)
        result = None
        for op, right_e in zip(e.ops, e.comparators):
            right = self.eval(right_e, fr)
            r = self.compare(op, left, right, fr, e)
            if result is None:
                result = r
            else:
                result = simp(z3.And(zbool(result), zbool(r)))
            if not fr.spec and len(e.ops) > 1 and is_conc(result) and result is False:
                return VBool(False)
            left = right
        return VBool(result)

    def compare(self, op, a, b, fr, node):
        """-> bool | z3 Bool"""
        st = self.st
        if isinstance(op, (ast.Is, ast.IsNot)):
            r = self.identical(a, b)
            return r if isinstance(op, ast.Is) else ((not r) if is_conc(r) else simp(z3.Not(r)))
        if isinstance(op, (ast.In, ast.NotIn)):
            r = self.contains(b, a, fr, node)
            return r if isinstance(op, ast.In) else ((not r) if is_conc(r) else simp(z3.Not(r)))
        if isinstance(op, (ast.Eq, ast.NotEq)):
            r = self.equal(a, b)
            return r if isinstance(op, ast.Eq) else ((not r) if is_conc(r) else simp(z3.Not(r)))
        # ordering
        if isinstance(a, (VInt, VBool)) and isinstance(b, (VInt, VBool)):
            x, y = self.as_int(a), self.as_int(b)
        elif isinstance(a, (VFloat, VInt)) and isinstance(b, (VFloat, VInt)):
            x = a.t if isinstance(a, VFloat) else z3.ToReal(zint(a.t))
            y = b.t if isinstance(b, VFloat) else z3.ToReal(zint(b.t))
        else:
            ca = ropes.conc_value(a) if isinstance(a, VSeq) else None
            cb = ropes.conc_value(b) if isinstance(b, VSeq) else None
            if ca is not None and cb is not None:
                return {ast.Lt: ca < cb, ast.LtE: ca <= cb, ast.Gt: ca > cb, ast.GtE: ca >= cb}[type(op)]
            raise Unsupported("ordering of %s / %s" % (self.type_name(a), self.type_name(b)))
        if isinstance(op, ast.Lt):
            return simp(x < y)
        if isinstance(op, ast.LtE):
            return simp(x <= y)
        if isinstance(op, ast.Gt):
            return simp(x > y)
        if isinstance(op, ast.GtE):
            return simp(x >= y)
        raise Unsupported("compare op")

    def identical(self, a, b):
        if isinstance(a, VNone) or isinstance(b, VNone):
            return isinstance(a, VNone) and isinstance(b, VNone)
        if isinstance(a, VRef) and isinstance(b, VRef):
            return a.ref == b.ref
        if isinstance(a, VBool) and isinstance(b, VBool):
            return self.equal(a, b)
        if isinstance(a, VClass) and isinstance(b, VClass):
            return self.E.canon_class(a.qualname) == self.E.canon_class(b.qualname)
        if isinstance(a, VInt) and isinstance(b, VInt):
            return self.equal(a, b)
        if type(a) is not type(b):
            return False
        if isinstance(a, VOpaque):
            if a.t is not None and b.t is not None:
                return simp(a.t == b.t)
            return a is b
        return a is b

    def equal(self, a, b):
        st = self.st
        if isinstance(a, (VInt, VBool)) and isinstance(b, (VInt, VBool)):
            if isinstance(a, VBool) and isinstance(b, VBool):
                if is_conc(a.t) and is_conc(b.t):
                    return a.t == b.t
                return simp(zbool(a.t) == zbool(b.t))
            return simp(self.as_int(a) == self.as_int(b))
        if isinstance(a, VSeq) and isinstance(b, VSeq):
            if (a.pytype == "str") != (b.pytype == "str"):
                return False
            return ropes.seq_eq(st, a, b)
        if isinstance(a, VNone) or isinstance(b, VNone):
            return isinstance(a, VNone) and isinstance(b, VNone)
        if isinstance(a, VTuple) and isinstance(b, VTuple):
            if len(a.items) != len(b.items):
                return False
            parts = [self.equal(x, y) for x, y in zip(a.items, b.items)]
            if any(p is False for p in parts):
                return False
            ps = [zbool(p) for p in parts if p is not True]
            return simp(z3.And(*ps)) if ps else True
        if isinstance(a, VFloat) or isinstance(b, VFloat):
            x = a.t if isinstance(a, VFloat) else z3.ToReal(self.as_int(a))
            y = b.t if isinstance(b, VFloat) else z3.ToReal(self.as_int(b))
            return simp(x == y)
        if isinstance(a, VRef) and isinstance(b, VRef):
            if a.ref == b.ref:
                return True
            oa, ob = st.heap[a.ref], st.heap[b.ref]
            if oa.kind == "list" and ob.kind == "list":
                return self.equal(VTuple(oa.data), VTuple(ob.data))
            if oa.kind == "slist" and ob.kind == "slist":
                return ropes.seq_eq(st, oa.data, ob.data)
            if oa.kind == "obj" and ob.kind == "obj":
                if self.E.find_attr(oa.cls, "__eq__"):
                    raise Unsupported("__eq__ of %s" % oa.cls)
                return False
            if oa.kind == "dict" and ob.kind == "dict":
                if set(oa.data) != set(ob.data):
                    return False
                parts = [self.equal(oa.data[k], ob.data[k]) for k in oa.data]
                if any(p is False for p in parts):
                    return False
                ps = [zbool(p) for p in parts if p is not True]
                return simp(z3.And(*ps)) if ps else True
            return False
        if isinstance(a, VClass) and isinstance(b, VClass):
            return self.E.canon_class(a.qualname) == self.E.canon_class(b.qualname)
        if isinstance(a, VOpaque) and isinstance(b, VOpaque):
            return self.identical(a, b)
        if type(a) is not type(b):
            if isinstance(a, VRef) or isinstance(b, VRef):
                o = self.st.heap[(a if isinstance(a, VRef) else b).ref]
                if o.kind == "obj" and self.E.find_attr(o.cls, "__eq__"):
                    raise Unsupported("__eq__ of %s" % o.cls)
            return False
        raise Unsupported("equality of %r and %r" % (a, b))

    def contains(self, container, item, fr, node):
        st = self.st
        if isinstance(container, VTuple):
            parts = [self.equal(item, x) for x in container.items]
            if any(p is True for p in parts):
                return True
            ps = [zbool(p) for p in parts if p is not False]
            return simp(z3.Or(*ps)) if ps else False
        if isinstance(container, VRef):
            o = st.heap[container.ref]
            if o.kind == "list":
                return self.contains(VTuple(o.data), item, fr, node)
            if o.kind == "dict":
                try:
                    k = self.hashable(item)
                    return k in o.data
                except Unsupported:
                    pass
                parts = []
                for k in o.data:
                    p = self.equal(item, self.from_py(k))
                    if p is True:
                        return True
                    if p is not False:
                        parts.append(zbool(p))
                return simp(z3.Or(*parts)) if parts else False
            if o.kind == "sdict":
                return z3.Select(o.data["dom"], zint(self.as_int(item)))
            if o.kind == "adict":
                parts = [self.equal(k, item) for k, _ in o.data]
                if any(p is True for p in parts):
                    return True
                ps = [zbool(p) for p in parts if p is not False]
                return simp(z3.Or(*ps)) if ps else False
            if o.kind == "slist":
                i = z3.Int(st.fresh_name("in_i"))
                t = ropes.seq_term(st, o.data)
                x = self.as_int(item)
                return z3.Exists([i], z3.And(0 <= i, i < smt.slen(t), smt.sat_(t, i) == x))
            if o.kind == "obj":
                m = self.E.find_attr(o.cls, "__contains__")
                if m:
                    r = self.call_value(VFunc(m["v"], container), [item], {}, fr, "contains")
                    return self.truthy(r)
        if isinstance(container, VSeq) and isinstance(item, VSeq):
            cc, ci = ropes.conc_value(container), ropes.conc_value(item)
            if cc is not None and ci is not None:
                return ci in cc
            if ci is not None and len(ci) == 1:
                # membership of one element in a symbolic sequence
                t = ropes.seq_term(st, container)
                i = z3.Int(st.fresh_name("in_i"))
                c = ci[0] if isinstance(ci, bytes) else ord(ci)
                return z3.Exists([i], z3.And(0 <= i, i < smt.slen(t), smt.sat_(t, i) == c))
            if cc is not None and len(cc) > 0:
                n = ropes.seq_len(item)
                if is_conc(n) and n == 1:
                    x = ropes.index_norm(st, item, 0)
                    vals = cc if isinstance(cc, bytes) else [ord(ch) for ch in cc]
                    return simp(z3.Or(*[zint(x) == c for c in vals]))
            # substring test on symbolic text: an uninterpreted (but deterministic) predicate of the two values
            f = z3.Function("uf_substring_of", smt.Seq, smt.Seq, smt.Bool)
            return f(ropes.seq_term(st, item), ropes.seq_term(st, container))
        if isinstance(container, VSeq) and isinstance(item, VInt) and container.pytype != "str":
            cc = ropes.conc_value(container)
            if cc is not None:
                return simp(z3.Or(*[zint(item.t) == c for c in cc])) if len(cc) else False
            t = ropes.seq_term(st, container)
            i = z3.Int(st.fresh_name("in_i"))
            return z3.Exists([i], z3.And(0 <= i, i < smt.slen(t), smt.sat_(t, i) == zint(item.t)))
        if isinstance(container, VOpaque):
            if container.tag == "Filtered":
                # membership in a filtered abstract sequence: in the source sequence and satisfying the filter
                from .calls import INTRINSICS
                return self.truthy(INTRINSICS["Filtered.__contains__"](self, container, [item], {}, fr, "contains"))
            if self.E.contract_of(container.tag + ".__contains__"):
                return self.truthy(self.call_value(VFunc(container.tag + ".__contains__", container), [item], {}, fr, "contains"))
            return VOpaqueBool(st, "contains")
        raise Unsupported("contains %r in %r" % (item, container))

    def e_BinOp(self, e, fr):
        a = self.eval(e.left, fr)
        b = self.eval(e.right, fr)
        return self.binop(e.op, a, b, fr, e)

    def binop(self, op, a, b, fr, node=None):
        st = self.st
        site = fr.finfo.label(node) if (node is not None and fr.finfo) else "binop"
        if isinstance(a, VBool) and isinstance(b, (VInt, VBool)) or isinstance(b, VBool) and isinstance(a, VInt):
            if isinstance(a, VBool) and isinstance(b, VBool) and isinstance(op, (ast.BitAnd, ast.BitOr)):
                f = z3.And if isinstance(op, ast.BitAnd) else z3.Or
                return VBool(simp(f(zbool(a.t), zbool(b.t))))
            a, b = VInt(simp(self.as_int(a))), VInt(simp(self.as_int(b)))
        if isinstance(a, VInt) and isinstance(b, VInt):
            return VInt(self.int_binop(op, a.t, b.t, fr, site))
        if isinstance(a, VSeq) and isinstance(b, VSeq) and isinstance(op, ast.Add):
            if (a.pytype == "str") != (b.pytype == "str"):
                if fr.spec:
                    raise Unsupported("spec: str + bytes")
                self.raise_py("TypeError", "can't concat str to bytes", site)
            return ropes.concat(a, b)
        if isinstance(op, ast.Mult) and (isinstance(a, VSeq) and isinstance(b, VInt) or
                                         isinstance(a, VInt) and isinstance(b, VSeq)):
            s, n = (a, b) if isinstance(a, VSeq) else (b, a)
            cs = ropes.conc_value(s)
            if is_conc(n.t) and cs is not None:
                return ropes.const_seq(cs * n.t) if isinstance(cs, bytes) else ropes.const_seq(cs * n.t)
            ln = ropes.seq_len(s)
            if is_conc(ln) and ln == 1:
                x = ropes.index_norm(st, s, 0)
                cnt = n.t
                if not is_conc(cnt):
                    if fr.spec:
                        cnt = simp(z3.If(zint(cnt) < 0, 0, zint(cnt)))
                    elif st.decide(zint(cnt) < 0):
                        cnt = 0
                elif cnt < 0:
                    cnt = 0
                return VSeq([Seg("R", x, cnt)], s.pytype)
            raise Unsupported("sequence repetition of length-%s sequence" % (ln,))
        if isinstance(a, VTuple) and isinstance(b, VTuple) and isinstance(op, ast.Add):
            return VTuple(a.items + b.items)
        if isinstance(a, VRef) and isinstance(b, VRef) and isinstance(op, ast.Add):
            oa, ob = st.heap[a.ref], st.heap[b.ref]
            if oa.kind == "list" and ob.kind == "list":
                r = st.alloc("list", "list")
                st.heap[r.ref].data = list(oa.data) + list(ob.data)
                return r
        if isinstance(a, (VFloat, VInt)) and isinstance(b, (VFloat, VInt)):
            x = a.t if isinstance(a, VFloat) else z3.ToReal(zint(a.t))
            y = b.t if isinstance(b, VFloat) else z3.ToReal(zint(b.t))
            if isinstance(op, ast.Add):
                return VFloat(x + y)
            if isinstance(op, ast.Sub):
                return VFloat(x - y)
            if isinstance(op, ast.Mult):
                return VFloat(x * y)
            if isinstance(op, ast.Div):
                return VFloat(z3.Real(st.fresh_name("fdiv")))
        if isinstance(a, VSeq) and a.pytype == "str" and isinstance(op, ast.Mod):
            return VSeq([Seg("A", st.fresh_seq("fmt"), self.fresh_len("fmt"))], "str")
        raise Unsupported("binop %s on %s, %s" % (type(op).__name__, self.type_name(a), self.type_name(b)))

    def int_binop(self, op, x, y, fr, site):
        st = self.st
        if is_conc(x) and is_conc(y):
            try:
                if isinstance(op, ast.Add):
                    return x + y
                if isinstance(op, ast.Sub):
                    return x - y
                if isinstance(op, ast.Mult):
                    return x * y
                if isinstance(op, ast.FloorDiv):
                    return x // y
                if isinstance(op, ast.Mod):
                    return x % y
                if isinstance(op, ast.LShift):
                    return x << y
                if isinstance(op, ast.RShift):
                    return x >> y
                if isinstance(op, ast.BitAnd):
                    return x & y
                if isinstance(op, ast.BitOr):
                    return x | y
                if isinstance(op, ast.BitXor):
                    return x ^ y
                if isinstance(op, ast.Pow) and y >= 0:
                    return x ** y
            except ZeroDivisionError:
                self.raise_py("ZeroDivisionError", "", site)
            except ValueError:
                self.raise_py("ValueError", "negative shift count", site)
        zx, zy = zint(x), zint(y)
        if isinstance(op, ast.Add):
            return simp(zx + zy)
        if isinstance(op, ast.Sub):
            return simp(zx - zy)
        if isinstance(op, ast.Mult):
            return simp(zx * zy)
        if isinstance(op, (ast.FloorDiv, ast.Mod)):
            if not (is_conc(y) and y > 0):
                if fr.spec:
                    pass
                else:
                    if st.decide(zy == 0):
                        self.raise_py("ZeroDivisionError", "", site)
                    if not st.proves(zy > 0):
                        if st.decide(zy < 0):
                            # Python floors towards minus infinity and the remainder takes the divisor's sign:
                            # x // y == (-x) // (-y)  and  x % y == -((-x) % (-y)), with a positive divisor on the right
                            if isinstance(op, ast.FloorDiv):
                                return simp((-zx) / (-zy))
                            return simp(-((-zx) % (-zy)))
            return simp(zx / zy) if isinstance(op, ast.FloorDiv) else simp(zx % zy)
        if isinstance(op, ast.LShift):
            if is_conc(y):
                if y < 0:
                    self.raise_py("ValueError", "negative shift count", site)
                return simp(zx * (2 ** y))
            if not fr.spec and st.decide(zy < 0):
                self.raise_py("ValueError", "negative shift count", site)
            return simp(zx * smt.pow2(zy))
        if isinstance(op, ast.RShift):
            if is_conc(y):
                if y < 0:
                    self.raise_py("ValueError", "negative shift count", site)
                return simp(zx / (2 ** y))
            raise Unsupported("symbolic right shift amount")
        if isinstance(op, ast.BitAnd):
            if is_conc(x) and not is_conc(y):
                x, y, zx, zy = y, x, zy, zx
            if is_conc(y) and y >= 0:
                if y & (y + 1) == 0:  # 2^k - 1
                    return simp(zx % (y + 1))
                bits = [k for k in range(y.bit_length()) if (y >> k) & 1]
                if len(bits) <= 64:
                    # contiguous runs:  ((x div 2^lo) mod 2^w) * 2^lo
                    tot = 0
                    i = 0
                    while i < len(bits):
                        j = i
                        while j + 1 < len(bits) and bits[j + 1] == bits[j] + 1:
                            j += 1
                        lo, w = bits[i], j - i + 1
                        tot = tot + ((zx / (2 ** lo)) % (2 ** w)) * (2 ** lo)
                        i = j + 1
                    return simp(tot)
            return self.bitfun(smt.band, zx, zy)
        if isinstance(op, (ast.BitOr, ast.BitXor)) and (is_conc(x) or is_conc(y)) \
                and 0 <= (x if is_conc(x) else y) < 2 ** 64:
            # exact: x | c = x + c - (x & c),  x ^ c = x + c - 2 (x & c)  (two's complement identities, any sign)
            both = self.int_binop(ast.BitAnd(), x, y, fr, site)
            k = 1 if isinstance(op, ast.BitOr) else 2
            return simp(zx + zy - k * zint(both))
        if isinstance(op, ast.BitOr):
            return self.bitfun(smt.bor, zx, zy)
        if isinstance(op, ast.BitXor):
            return self.bitfun(smt.bxor, zx, zy)
        if isinstance(op, ast.Pow):
            if is_conc(x) and x == 2:
                return smt.pow2(zy)
        raise Unsupported("int op %s" % type(op).__name__)

    def bitfun(self, f, zx, zy):
        """uninterpreted bit operation with sound instance facts"""
        st = self.st
        t = f(zx, zy)
        facts = []
        nonneg = z3.And(zx >= 0, zy >= 0)
        facts.append(z3.Implies(nonneg, t >= 0))
        for k in (8, 32, 64):
            facts.append(z3.Implies(z3.And(nonneg, zx < 2 ** k, zy < 2 ** k), t < 2 ** k))
        if f is smt.bxor:
            facts.append((t == 0) == (zx == zy))
        if f is smt.bor:
            facts.append((t == 0) == z3.And(zx == 0, zy == 0))
            facts.append(z3.Implies(nonneg, z3.And(t >= zx, t >= zy)))
        if f is smt.band:
            facts.append(z3.Implies(nonneg, z3.And(t <= zx, t <= zy)))
        for c in facts:
            st.assume(c)
        return t

    def e_Subscript(self, e, fr):
        base = self.eval(e.value, fr)
        site = fr.finfo.label(e) if fr.finfo else "subscript"
        if isinstance(e.slice, ast.Slice):
            lo = self.eval(e.slice.lower, fr) if e.slice.lower is not None else None
            hi = self.eval(e.slice.upper, fr) if e.slice.upper is not None else None
            if e.slice.step is not None:
                raise Unsupported("slice step")
            if isinstance(base, VOpaque) and self.E.contract_of(base.tag + ".__getslice__"):
                return self.call_value(VFunc(base.tag + ".__getslice__", base), [lo if lo is not None else NONE, hi if hi is not None else NONE], {}, fr, site)
            return self.py_slice(base, lo, hi, fr)
        idx = self.eval(e.slice, fr)
        return self.py_index(base, idx, fr, site)

    def clamp_index(self, v, n, fr):
        """normalise a python slice bound against length n -> term in [0, n]"""
        st = self.st
        if isinstance(v, VNone):
            return None
        if isinstance(v, VBool):
            v = VInt(simp(self.as_int(v)))
        if not isinstance(v, VInt):
            raise Unsupported("slice bound %r" % (v,))
        x = v.t
        if is_conc(x) and is_conc(n):
            if x < 0:
                x = max(0, n + x)
            return min(x, n)
        zx, zn = zint(x), zint(n)
        if fr.spec:
            if st.proves(z3.And(zx >= 0, zx <= zn)):
                return x
            y = z3.If(zx < 0, z3.If(zx + zn < 0, 0, zx + zn), z3.If(zx > zn, zn, zx))
            return simp(y)
        if st.decide(zx < 0):
            zx = simp(zx + zn)
            if st.decide(zint(zx) < 0):
                return 0
            return zx
        if st.decide(zx > zn):
            return n
        return x

    def py_slice(self, base, lo, hi, fr):
        st = self.st
        if isinstance(base, VSeq):
            n = ropes.seq_len(base)
            l = self.clamp_index(lo, n, fr) if lo is not None else 0
            h = self.clamp_index(hi, n, fr) if hi is not None else n
            if l is None:
                l = 0
            if h is None:
                h = n
            if is_conc(l) and is_conc(h):
                if h < l:
                    h = l
            else:
                c = zint(h) < zint(l)
                if fr.spec:
                    if not st.proves(z3.Not(c)):
                        h = simp(z3.If(c, zint(l), zint(h)))
                elif st.decide(c):
                    h = l
            return ropes.slice_norm(st, base, l, h)
        if isinstance(base, VTuple):
            l = lo.t if isinstance(lo, VInt) else None
            h = hi.t if isinstance(hi, VInt) else None
            if (l is None or is_conc(l)) and (h is None or is_conc(h)):
                return VTuple(base.items[l:h])
        if isinstance(base, VRef):
            o = st.heap[base.ref]
            l = lo.t if isinstance(lo, VInt) else None
            h = hi.t if isinstance(hi, VInt) else None
            if o.kind == "list" and (l is None or is_conc(l)) and (h is None or is_conc(h)):
                r = st.alloc("list", "list")
                st.heap[r.ref].data = list(o.data[l:h])
                return r
            if o.kind == "slist":
                r = st.alloc("list", "slist")
                st.heap[r.ref].data = self.py_slice(o.data, lo, hi, fr)
                return r
        raise Unsupported("slice of %s" % self.type_name(base))

    def norm_index(self, idx, n, fr, site):
        """python index normalisation; raises IndexError on the failing branch"""
        st = self.st
        if isinstance(idx, VBool):
            idx = VInt(simp(self.as_int(idx)))
        if not isinstance(idx, VInt):
            raise Unsupported("index %r" % (idx,))
        x = idx.t
        if is_conc(x) and is_conc(n):
            if x < 0:
                x += n
            if x < 0 or x >= n:
                if fr.spec:
                    return x
                self.raise_py("IndexError", "index out of range", site)
            return x
        zx, zn = zint(x), zint(n)
        if fr.spec:
            return simp(z3.If(zx < 0, zx + zn, zx))
        if st.decide(zx < 0):
            zx = simp(zx + zn)
        if st.decide(z3.Or(zint(zx) < 0, zint(zx) >= zn)):
            self.raise_py("IndexError", "index out of range", site)
        return zx

    def py_index(self, base, idx, fr, site):
        st = self.st
        if isinstance(base, VSeq):
            n = ropes.seq_len(base)
            i = self.norm_index(idx, n, fr, site)
            x = ropes.index_norm(st, base, i)
            if base.pytype == "str":
                return VSeq([Seg("U", x)], "str")
            return VInt(x)
        if isinstance(base, VTuple):
            return self.index_items(base.items, idx, fr, site)
        if isinstance(base, VRef):
            o = st.heap[base.ref]
            if o.kind == "list":
                return self.index_items(o.data, idx, fr, site)
            if o.kind == "slist":
                n = ropes.seq_len(o.data)
                i = self.norm_index(idx, n, fr, site)
                return self.slist_elem(o, ropes.index_norm(st, o.data, i))
            if o.kind == "dict":
                return self.dict_get(o, idx, fr, site)
            if o.kind == "sdict":
                return self.sdict_get(o, idx, fr, site)
            if o.kind == "adict":
                return self.adict_get(o, idx, fr, site)
            if o.kind == "obj":
                m = self.E.find_attr(o.cls, "__getitem__")
                if m:
                    return self.call_value(VFunc(m["v"], base), [idx], {}, fr, site)
                if self.E.contract_of(o.cls + ".__getitem__"):
                    return self.call_value(VFunc(o.cls + ".__getitem__", base), [idx], {}, fr, site)
        if isinstance(base, VExc):
            return self.index_items(base.args, idx, fr, site)
        if isinstance(base, VOpaque) and base.tag == "Filtered":
            from .calls import filtered_info
            n, i0, elem_at = filtered_info(self, base)
            if not (isinstance(idx, VInt) and is_conc(idx.t) and idx.t == 0):
                raise Unsupported("only [0] of a filtered sequence is defined")
            if not fr.spec and not self.st.decide(n > 0):
                self.raise_py("IndexError", "list index out of range", site)
            return elem_at(i0)
        if isinstance(base, VOpaque) and self.E.contract_of(base.tag + ".__getitem__"):
            return self.call_value(VFunc(base.tag + ".__getitem__", base), [idx], {}, fr, site)
        raise Unsupported("index of %s" % self.type_name(base))

    def slist_elem(self, o, x):
        return VInt(x)

    def index_items(self, items, idx, fr, site):
        st = self.st
        n = len(items)
        if isinstance(idx, VInt) and is_conc(idx.t):
            i = idx.t
            if i < 0:
                i += n
            if i < 0 or i >= n:
                if fr.spec:
                    raise Unsupported("spec index out of range")
                self.raise_py("IndexError", "index out of range", site)
            return items[i]
        i = self.norm_index(idx, n, fr, site)
        # symbolic index into a concrete-length list: fork per position
        if fr.spec:
            out = items[-1]
            for k in range(n - 2, -1, -1):
                out = self.ite(zint(i) == k, items[k], out)
            return out
        for k in range(n):
            if k == n - 1 or st.decide(zint(i) == k):
                return items[k]
        raise PathEnd()

    def adict_get(self, o, key, fr, site, default=None):
        st = self.st
        if fr.spec:
            out = None
            for k, x in reversed(o.data):
                out = x if out is None else self.ite(zbool(self.equal(k, key)), x, out)
            if out is None:
                raise Unsupported("spec lookup in empty map")
            return out
        for k, x in o.data:
            if st.decide(self.equal(k, key)):
                return x
        if default is not None:
            return default
        self.raise_py("KeyError", "symbolic key", site)

    def sdict_get(self, o, key, fr, site, default=None):
        """lookup in a symbolic int-keyed dict: domain predicate + one value object per key term"""
        st = self.st
        k = zint(self.as_int(key))
        present = z3.Select(o.data["dom"], k)
        if not fr.spec:
            st.ghost["key_of_" + o.data["hint"]] = VInt(k)
        if not fr.spec:
            if not st.decide(present):
                if default is not None:
                    return default
                self.raise_py("KeyError", "symbolic key", site)
        for kk, vv in o.data["vals"]:
            if kk.eq(k) or st.proves(kk == k):
                return vv
        v = self.fresh_of_type(o.data["valtype"], "%s[%s]" % (o.data["hint"], len(o.data["vals"])))
        o.data["vals"].append((k, v))
        return v

    def dict_get(self, o, key, fr, site, default=None):
        st = self.st
        try:
            k = self.hashable(key)
        except Unsupported:
            k = None
            conc = False
        else:
            conc = True
        if conc:
            if k in o.data:
                return o.data[k]
            if default is not None:
                return default
            if fr.spec:
                raise Unsupported("spec: missing key")
            self.raise_py("KeyError", repr(k), site)
        # symbolic key over a concrete-key dict
        keys = list(o.data.keys())
        conds = []
        for kk in keys:
            p = self.equal(key, self.from_py(kk))
            conds.append(p)
        present = simp(z3.Or(*[zbool(p) for p in conds if p is not False])) if any(p is not False for p in conds) else False
        if not fr.spec:
            if not st.decide(present):
                if default is not None:
                    return default
                self.raise_py("KeyError", "symbolic key", site)
        vals = [o.data[kk] for kk in keys]
        cand = [(p, v) for p, v in zip(conds, vals) if p is not False]
        if not cand:
            raise PathEnd()
        if all(isinstance(v, (VInt, VBool)) for _, v in cand) or len(cand) <= 1:
            out = cand[-1][1]
            for p, v in reversed(cand[:-1]):
                out = self.ite(zbool(p), v, out)
            return out
        # heterogeneous / non-scalar values: unconstrained value of the common kind (over-approximation)
        v0 = cand[0][1]
        if all(isinstance(v, VSeq) for _, v in cand):
            return VSeq([Seg("A", st.fresh_seq("dictval"), self.fresh_len("dictval"))], v0.pytype)
        if len(cand) <= 64 and not fr.spec:
            for p, v in cand[:-1]:
                if st.decide(zbool(p)):
                    return v
            return cand[-1][1]
        raise Unsupported("symbolic lookup in dict of %s" % self.type_name(v0))

    def e_Call(self, e, fr):
        site = fr.finfo.label(e) if fr.finfo else "call"
        # logging calls: arguments evaluated for their obligations, call itself effect-free
        if isinstance(e.func, ast.Attribute) and e.func.attr in LOG_METHODS and self.is_logger_call(e, fr):
            for a in e.args:
                self.eval(a, fr)
            for k in e.keywords:
                self.eval(k.value, fr)
            return NONE
        if (not fr.spec and isinstance(e.func, ast.Attribute) and e.func.attr in ("frombytes", "extend")
                and isinstance(e.func.value, (ast.Name, ast.Attribute)) and len(e.args) == 1):
            recv = self.eval(e.func.value, fr)
            if isinstance(recv, VSeq) and recv.pytype == "bytearray":
                arg = self.eval(e.args[0], fr)
                if not isinstance(arg, VSeq) or arg.pytype == "str":
                    self.raise_py("TypeError", "a bytes-like object is required", site)
                newv = ropes.concat(recv, VSeq(arg.segs, "bytearray"))
                v = e.func.value
                store = ast.Attribute(value=v.value, attr=v.attr, ctx=ast.Store()) if isinstance(v, ast.Attribute) \
                    else ast.Name(id=v.id, ctx=ast.Store())
                self.assign_target(store, VSeq(newv.segs, "bytearray"), fr)
                return NONE
        if (not fr.spec and isinstance(e.func, ast.Attribute) and e.func.attr == "extend" and len(e.args) == 1
                and isinstance(e.args[0], ast.GeneratorExp) and len(e.args[0].generators) == 1):
            # list.extend(generator): the generator is consumed lazily, element by element, against the growing
            # list (so a filter such as `x not in the_list` sees the elements appended so far)
            recv = self.eval(e.func.value, fr)
            if isinstance(recv, VRef) and self.st.heap[recv.ref].kind == "list":
                g = e.args[0].generators[0]
                src = self.iter_concrete(self.eval(g.iter, fr))
                sub = Frame(fr.finfo, {}, fr.module, fr.cls)
                sub.closure = fr
                for x in src:
                    self.assign_target(g.target, x, sub)
                    keep = True
                    for cnd in g.ifs:
                        if not self.st.decide(self.truthy(self.eval(cnd, sub))):
                            keep = False
                            break
                    if keep:
                        self.st.heap[recv.ref].data.append(self.eval(e.args[0].elt, sub))
                return NONE
        if fr.spec and isinstance(e.func, ast.Name) and e.func.id == "old":
            saved = fr.in_old
            fr.in_old = True
            try:
                return self.eval(e.args[0], fr)
            finally:
                fr.in_old = saved
        f = self.eval(e.func, fr)
        args = []
        for a in e.args:
            if isinstance(a, ast.Starred):
                args.extend(self.iter_concrete(self.eval(a.value, fr)))
            else:
                if fr.spec and isinstance(a, ast.Lambda):
                    args.append(("lambda", a))
                else:
                    args.append(self.eval(a, fr))
        kwargs = {}
        for k in e.keywords:
            if k.arg is None:
                raise Unsupported("**kwargs call")
            kwargs[k.arg] = self.eval(k.value, fr)
        return self.call_value(f, args, kwargs, fr, site)

    def is_logger_call(self, e, fr):
        v = e.func.value
        if e.func.attr == "_log":
            return True
        txt = ast.unparse(v)
        return "logger" in txt or txt.endswith("log") or txt.endswith("_log")

    def iter_concrete(self, v):
        if isinstance(v, VTuple):
            return list(v.items)
        if isinstance(v, VRef):
            o = self.st.heap[v.ref]
            if o.kind == "list":
                return list(o.data)
            if o.kind == "dict":
                return [self.from_py(k) for k in o.data]
        if isinstance(v, VSeq):
            c = ropes.conc_value(v)
            if c is not None:
                if isinstance(c, str):
                    return [ropes.const_seq(ch) for ch in c]
                return [VInt(b) for b in c]
        try:
            from .loops import concrete_items
            return concrete_items(self, v)
        except Unsupported:
            pass
        raise Unsupported("iteration over non-concrete %s" % self.type_name(v))

    def e_Lambda(self, e, fr):
        return VFunc("<lambda>", None, closure=(e, fr))

    def e_ListComp(self, e, fr):
        return self.comprehension(e, fr)

    def e_GeneratorExp(self, e, fr):
        return self.comprehension(e, fr)

    def comprehension(self, e, fr):
        if len(e.generators) != 1:
            raise Unsupported("nested comprehension")
        g = e.generators[0]
        src = self.eval(g.iter, fr)
        if isinstance(src, VOpaque) and src.tag in getattr(self.E, "opaque_iter", {}):
            # comprehension over an abstract sequence: some sequence of the same kind (a sub-selection / image whose
            # content is not modelled); the filter and element expressions are assumed effect free
            if isinstance(g.target, ast.Name) and isinstance(e.elt, ast.Name) and e.elt.id == g.target.id:
                if not g.ifs:
                    return src
                # [x for x in xs if cond(x)] is filter(lambda x: cond(x), xs)
                body = g.ifs[0] if len(g.ifs) == 1 else ast.BoolOp(op=ast.And(), values=list(g.ifs))
                lam = ast.Lambda(args=ast.arguments(posonlyargs=[], args=[ast.arg(arg=g.target.id)], vararg=None, kwonlyargs=[],
                                                    kw_defaults=[], kwarg=None, defaults=[]), body=body)
                return self.call_value(VFunc("builtins.filter"), [VFunc("<lambda>", None, closure=(lam, fr)), src], {}, fr, "comprehension")
            self.E.trusted_used.add("comprehension over an abstract sequence yields an unconstrained sequence of the same kind")
            return VOpaque(src.tag, self.st.fresh_int("comp_id"))
        it = self.iter_concrete(src)
        sub = Frame(fr.finfo, {}, fr.module, fr.cls)
        sub.closure = fr
        sub.spec = fr.spec
        sub.old_heap = fr.old_heap
        sub.in_old = fr.in_old
        out = []
        for x in it:
            self.assign_target(g.target, x, sub)
            ok = True
            for c in g.ifs:
                if not self.st.decide(self.truthy(self.eval(c, sub))):
                    ok = False
                    break
            if ok:
                out.append(self.eval(e.elt, sub))
        r = self.st.alloc("list", "list")
        self.st.heap[r.ref].data = out
        return r

    # ------------------------------------------------------------------ attributes
    def get_attr(self, base, name, fr, site="attr"):
        st = self.st
        E = self.E
        if isinstance(base, VRef):
            o = st.heap[base.ref]
            if o.kind == "obj":
                if name == "__class__":
                    return VClass(o.cls)
                return self.get_field(base, name, fr, site)
            return VFunc("%s.%s" % ({"slist": "list", "sdict": "dict", "adict": "dict"}.get(o.kind, o.kind), name), base)
        if isinstance(base, VSeq):
            return VFunc("%s.%s" % ("str" if base.pytype == "str" else "bytes", name), base)
        if isinstance(base, VModule):
            if base.name.startswith("paramiko"):
                g = E.lookup_global(base.name, name)
                if g is None:
                    raise Unsupported("no %s in module %s" % (name, base.name))
                return self.from_table(g)
            return E.stdlib_attr(self, base.name, name)
        if isinstance(base, VClass):
            a = E.find_attr(base.qualname, name)
            if a is not None:
                if a["k"] == "func":
                    if a.get("deco") == "classmethod":
                        return VFunc(a["v"], base)
                    return VFunc(a["v"])
                return self.from_table(a)
            if name == "__name__":
                return ropes.const_seq(base.qualname.rsplit(".", 1)[-1])
            return VFunc(base.qualname + "." + name)
        if isinstance(base, VOpaque):
            if name == "__class__":
                return VClass(base.tag)
            osp = getattr(E, "opaque_attr_specs", {}).get(base.tag, {})
            if name in osp:
                # data attribute of an opaque library object given by a specification expression over `self`
                from .calls import spec_frame
                return E.eval_spec_in(self, osp[name], spec_frame(self, None, {"self": base}, None))
            oa = getattr(E, "opaque_attrs", {}).get(base.tag, {})
            if name in oa:
                # data attribute of an opaque library object (deterministic per object: cached on the value)
                cache = self.st.__dict__.setdefault("opaque_attr_cache", {})
                key = (str(base.t), base.tag, name)
                if key not in cache:
                    cache[key] = self.fresh_of_type(oa[name], "%s.%s" % (base.tag, name))
                return cache[key]
            return VFunc("%s.%s" % (base.tag, name), base)
        if isinstance(base, VInt):
            return VFunc("int." + name, base)
        if isinstance(base, VExc):
            if name == "args":
                return VTuple(base.args)
            if name == "__class__":
                return VClass(base.cls)
            if name in base.fields:
                return base.fields[name]
            a = E.find_attr(base.cls, name)
            if a is not None and a["k"] == "func":
                return VFunc(a["v"], base)
            if getattr(E, "auto_opaque", False):
                # data attribute of an exception raised through a contract: unconstrained
                base.fields[name] = VOpaque("lib:" + name, st.fresh_int("exc_" + name))
                return base.fields[name]
            raise Unsupported("exception attribute %s.%s" % (base.cls, name))
        if isinstance(base, VNone):
            if fr.spec:
                raise Unsupported("spec: attribute %s of None" % name)
            self.raise_py("AttributeError", "'NoneType' object has no attribute '%s'" % name, site)
        if isinstance(base, VFunc):
            if base.qualname in ("builtins.int", "int") and name == "from_bytes":
                return VFunc("int.from_bytes")
            if name in ("__name__",):
                return ropes.const_seq(base.qualname.rsplit(".", 1)[-1])
            if name == "__contains__" and base.self is not None:
                pass
        if isinstance(base, VTuple):
            return VFunc("tuple." + name, base)
        raise Unsupported("attribute %s of %s" % (name, self.type_name(base)))

    def get_field(self, ref, name, fr, site="attr", declared_only=False):
        st = self.st
        heap_view = fr.old_heap if (fr is not None and fr.spec and fr.old_heap is not None and getattr(fr, "in_old", False)) else None
        o = st.heap[ref.ref]
        if heap_view is not None:
            snap = heap_view.get(ref.ref)
            if snap is not None and name in snap[0]:
                return snap[0][name]
            if snap is None and ref.ref in st.heap and name in o.fields:
                # object allocated after the snapshot
                return o.fields[name]
            if name in o.init:
                if isinstance(o.init[name], LazyInit):
                    li = o.init[name]
                    o.init[name] = self.fresh_of_type(li.ty, li.hint)
                return o.init[name]
        elif name in o.fields:
            if self.E.monitors and fr is not None and not fr.spec:
                self.E.on_field_read(self, ref, name, fr)
            return o.fields[name]
        # lazily initialise from the class declaration
        ty = self.E.field_type(o.cls, name)
        if ty is not None:
            if name in o.init and heap_view is None:
                # field was deleted? fall through
                pass
            if ty == "from-init":
                # value assigned by the class's real __init__ (a literal table): evaluate that one assignment
                v = self.E.init_assigned_value(self, ref, o.cls, name)
            else:
                v = self.fresh_of_type(ty, "%s.%s" % (self.obj_hint(ref), name))
            o.init[name] = v
            if name not in o.fields:
                o.fields[name] = v
            if heap_view is not None and ref.ref in heap_view:
                heap_view[ref.ref][0].setdefault(name, v)
            return v
        a = self.E.find_attr(o.cls, name)
        if a is not None and a["k"] not in ("func", "property", "class") and (fr is None or not fr.spec) \
                and self.E.instance_assigned(o.cls, name):
            # a class-level default that some method of the class overwrites on the instance (`self.<name> = ...`): on an
            # arbitrary object the attribute may hold the default OR what an earlier call stored - it is an instance field
            # with an unknown pre-state, not a constant
            ty = self.E._infer_optional_field(o.cls, name)
            if ty is None:
                raise Unsupported("field %s.%s (class-level default overwritten on instances) has no declared type" % (o.cls, name))
            self.E.auto_fields.add("%s.%s: %s" % (o.cls, name, ty))
            self.E.declare_class(o.cls, {name: ty})
            return self.get_field(ref, name, fr, site, declared_only)
        if a is not None:
            if a["k"] == "func":
                if a.get("deco") == "staticmethod":
                    return VFunc(a["v"])
                if a.get("deco") == "classmethod":
                    return VFunc(a["v"], VClass(o.cls))
                return VFunc(a["v"], ref)
            if a["k"] == "property":
                return self.call_value(VFunc(a["v"], ref), [], {}, fr, site)
            return self.from_table(a)
        if fr is not None and fr.spec:
            raise Unsupported("spec: undeclared field %s.%s" % (o.cls, name))
        if self.E.class_is_open(o.cls):
            ty = self.E.infer_field_type(o.cls, name)
            if ty is not None:
                # a field the contracts do not know (added by a change to the class): typed after its initialiser
                self.E.auto_fields.add("%s.%s: %s" % (o.cls, name, ty))
                self.E.declare_class(o.cls, {name: ty})
                return self.get_field(ref, name, fr, site, declared_only)
            raise Unsupported("field %s.%s has no declared type (add it to the class declaration)" % (o.cls, name))
        self.raise_py("AttributeError", "%s has no attribute %s" % (o.cls, name), site)

    def obj_hint(self, ref):
        o = self.st.heap[ref.ref]
        return getattr(o, "hint", None) or "%s%d" % (o.cls.rsplit(".", 1)[-1], ref.ref)

    def set_attr(self, base, name, value, fr):
        if isinstance(base, VRef):
            o = self.st.heap[base.ref]
            if o.kind == "obj":
                if name not in o.fields and name not in o.init:
                    ty = self.E.field_type(o.cls, name)
                    if ty is not None:
                        # remember the initial (pre-state) value for old(...)
                        o.init[name] = self.init_value(ty, "%s.%s" % (self.obj_hint(base), name))
                o.fields[name] = value
                if self.st.held is not None:
                    self.E.on_field_write(self, base, name, fr)
                return
        if isinstance(base, VExc):
            base.fields[name] = value
            return
        if isinstance(base, VOpaque):
            c = self.E.contract_of("%s.%s.setter" % (base.tag, name))
            if c is not None:
                from . import calls
                calls.apply_contract(self, c, "%s.%s.setter" % (base.tag, name), [base, value], {}, fr, "setattr(%s)" % name)
            return
        raise Unsupported("attribute store on %s" % self.type_name(base))

    # ------------------------------------------------------------------ types
    def fresh_of_type(self, ty, hint):
        st = self.st
        ty = ty.strip()
        if ty == "int":
            t = st.fresh_int(hint)
            st.inputs.append(dict(name=hint, kind="int", term=t))
            return VInt(t)
        if ty in ("nat", "u8", "u32", "u64", "u24"):
            t = st.fresh_int(hint)
            st.inputs.append(dict(name=hint, kind="int", term=t))
            hi = {"nat": None, "u8": 2 ** 8, "u24": 2 ** 24, "u32": 2 ** 32, "u64": 2 ** 64}[ty]
            st.assume(t >= 0)
            if hi:
                st.assume(t < hi)
            return VInt(t)
        if ty.startswith("int["):
            lo, hi = ty[4:-1].split(",")
            t = st.fresh_int(hint)
            st.inputs.append(dict(name=hint, kind="int", term=t))
            if lo.strip():
                st.assume(t >= int(lo))
            if hi.strip():
                st.assume(t < int(hi))
            return VInt(t)
        if ty == "bool":
            t = st.fresh_bool(hint)
            st.inputs.append(dict(name=hint, kind="bool", term=t))
            return VBool(t)
        if ty == "float":
            return VFloat(z3.Real(st.fresh_name(hint)))
        if ty == "intseq":
            # immutable sequence of integers (specification-level lists, e.g. ghost histories of identities)
            t = st.fresh_seq(hint)
            st.inputs.append(dict(name=hint, kind="seq", term=t, pytype="list"))
            st.assume(smt.slen(t) >= 0)
            return VSeq([Seg("A", t, smt.slen(t))], "list")
        if ty in ("bytes", "str", "bytearray"):
            t = st.fresh_seq(hint)
            st.inputs.append(dict(name=hint, kind="seq", term=t, pytype=ty))
            st.assume(smt.slen(t) >= 0)
            return VSeq([Seg("A", t, smt.slen(t))], ty)
        if ty == "none":
            return NONE
        if ty.startswith("maybe["):
            # attribute that may be absent altogether (hasattr false): represented like an optional value
            ty = "opt[" + ty[6:]
        if ty.startswith("opt[") or ty.startswith("union["):
            inner = split_top(ty[ty.index("[") + 1:-1])
            alts = (["none"] + inner) if ty.startswith("opt[") else inner
            k = st.choose(len(alts))
            st.inputs.append(dict(name=hint + "?", kind="choice", value=alts[k]))
            return self.fresh_of_type(alts[k], hint)
        if ty == "bytesio":
            r = st.alloc("BytesIO", "bytesio")
            st.heap[r.ref].hint = hint
            return r
        if ty.startswith("obj:"):
            r = st.alloc(self.E.resolve_class(ty[4:]))
            st.heap[r.ref].hint = hint
            return r
        if ty.startswith("class:"):
            return VClass(ty[6:])
        if ty.startswith("opaque:"):
            return VOpaque(ty[7:], st.fresh_int(hint + "_id"))
        if ty.startswith("tuple["):
            inner = split_top(ty[6:-1])
            return VTuple([self.fresh_of_type(t, "%s.%d" % (hint, i)) for i, t in enumerate(inner)])
        if ty.startswith("list[") and ty.endswith("]"):
            inner = ty[5:-1]
            if inner in ("int", "nat", "u8", "u32"):
                r = st.alloc("list", "slist")
                t = st.fresh_seq(hint)
                st.inputs.append(dict(name=hint, kind="seq", term=t, pytype="list"))
                st.assume(smt.slen(t) >= 0)
                st.heap[r.ref].data = VSeq([Seg("A", t, smt.slen(t))], "list")
                return r
        if ty.startswith("sdict[") and ty.endswith("]"):
            kt, vt = split_top(ty[6:-1])
            r = st.alloc("dict", "sdict")
            dom = z3.Array(st.fresh_name(hint + "!dom"), smt.Int, smt.Bool)
            st.heap[r.ref].data = dict(dom=dom, valtype=vt, vals=[], hint=hint)
            st.heap[r.ref].hint = hint
            return r
        if ty.startswith("const:"):
            return self.from_py(eval(ty[6:], {}))
        if ty == "callable":
            return VOpaque("callable", st.fresh_int(hint + "_id"))
        if ty.startswith("class:"):
            return VClass(ty[6:])
        raise Unsupported("type %s" % ty)

    def init_value(self, ty, hint):
        """pre-state value of a field first touched by a write: optional/union types are materialised lazily"""
        if ty.startswith("opt[") or ty.startswith("union[") or ty.startswith("maybe["):
            return LazyInit(ty, hint)
        return self.fresh_of_type(ty, hint)

    def fresh_like(self, v, hint):
        if isinstance(v, VBool):
            return self.fresh_of_type("bool", hint)
        if isinstance(v, VInt):
            return self.fresh_of_type("int", hint)
        if isinstance(v, VSeq):
            return self.fresh_of_type(v.pytype, hint)
        if isinstance(v, VFloat):
            return self.fresh_of_type("float", hint)
        if isinstance(v, VTuple):
            return VTuple([self.fresh_like(x, "%s.%d" % (hint, i)) for i, x in enumerate(v.items)])
        if isinstance(v, VRef) and self.st.heap[v.ref].kind == "slist":
            return self.fresh_of_type("list[int]", hint)
        if isinstance(v, (VOpaque, VFunc, VClass, VModule)):
            return v
        raise Unsupported("cannot havoc %s (%s): declare its type in the loop contract" % (hint, self.type_name(v)))

    # ------------------------------------------------------------------ statements
    def exec_block(self, stmts, fr):
        for s in stmts:
            self.exec_stmt(s, fr)

    def exec_stmt(self, s, fr):
        self.cur_fr = fr
        self.st.steps += 1
        if self.st.steps > MAX_STEPS:
            raise Unsupported("step limit")
        m = getattr(self, "s_" + type(s).__name__, None)
        if m is None:
            raise Unsupported("statement %s" % type(s).__name__)
        return m(s, fr)

    def s_Expr(self, s, fr):
        if isinstance(s.value, ast.Constant) and isinstance(s.value.value, str):
            return  # docstring
        self.eval(s.value, fr)

    def s_Pass(self, s, fr):
        pass

    def s_Global(self, s, fr):
        raise Unsupported("global")

    def s_Import(self, s, fr):
        for a in s.names:
            fr.locals[a.asname or a.name.split(".")[0]] = VModule(a.name)

    def s_ImportFrom(self, s, fr):
        for a in s.names:
            mod = s.module or ""
            if mod.startswith("paramiko"):
                g = self.E.lookup_global(mod, a.name)
                if g is None:
                    raise Unsupported("import %s from %s" % (a.name, mod))
                fr.locals[a.asname or a.name] = self.from_table(g)
            else:
                fr.locals[a.asname or a.name] = self.E.stdlib_attr(self, mod, a.name)

    def s_Assign(self, s, fr):
        v = self.eval(s.value, fr)
        for t in s.targets:
            self.assign_target(t, v, fr)

    def s_AnnAssign(self, s, fr):
        if s.value is not None:
            self.assign_target(s.target, self.eval(s.value, fr), fr)

    def assign_target(self, t, v, fr):
        st = self.st
        if isinstance(t, ast.Name):
            f = fr
            fr.locals[t.id] = v
            return
        if isinstance(t, (ast.Tuple, ast.List)):
            items = self.unpack(v, len(t.elts), fr)
            for tt, x in zip(t.elts, items):
                self.assign_target(tt, x, fr)
            return
        if isinstance(t, ast.Attribute):
            base = self.eval(t.value, fr)
            self.set_attr(base, mangle(fr.cls, t.attr), v, fr)
            return
        if isinstance(t, ast.Subscript):
            base = self.eval(t.value, fr)
            if isinstance(t.slice, ast.Slice):
                raise Unsupported("slice assignment")
            idx = self.eval(t.slice, fr)
            self.store_index(base, idx, v, fr, fr.finfo.label(t) if fr.finfo else "store")
            return
        raise Unsupported("assignment target %s" % type(t).__name__)

    def unpack(self, v, n, fr):
        if isinstance(v, VTuple):
            items = v.items
        elif isinstance(v, VRef) and self.st.heap[v.ref].kind == "list":
            items = self.st.heap[v.ref].data
        else:
            raise Unsupported("unpacking %s" % self.type_name(v))
        if len(items) != n:
            self.raise_py("ValueError", "unpack", "unpack")
        return items

    def store_index(self, base, idx, v, fr, site):
        st = self.st
        if isinstance(base, VRef):
            o = st.heap[base.ref]
            if o.kind == "dict":
                try:
                    o.data[self.hashable(idx)] = v
                    return
                except Unsupported:
                    # symbolic key: switch to an association list (small maps with symbolic keys)
                    o.data = [(self.from_py(k), x) for k, x in o.data.items()]
                    o.kind = "adict"
            if o.kind == "adict":
                for n, (k, x) in enumerate(o.data):
                    if st.decide(self.equal(k, idx)):
                        o.data[n] = (k, v)
                        return
                o.data.append((idx, v))
                return
            if o.kind == "list":
                if isinstance(idx, VInt) and is_conc(idx.t):
                    i = idx.t
                    if i < 0:
                        i += len(o.data)
                    if not (0 <= i < len(o.data)):
                        self.raise_py("IndexError", "assignment index", site)
                    o.data[i] = v
                    return
            if o.kind == "obj":
                m = self.E.find_attr(o.cls, "__setitem__")
                if m:
                    self.call_value(VFunc(m["v"], base), [idx, v], {}, fr, site)
                    return
        if isinstance(base, VOpaque) and self.E.contract_of(base.tag + ".__setitem__"):
            self.call_value(VFunc(base.tag + ".__setitem__", base), [idx, v], {}, fr, site)
            return
        raise Unsupported("store into %s" % self.type_name(base))

    def s_AugAssign(self, s, fr):
        t = s.target
        if isinstance(t, ast.Name):
            cur = self.lookup(t.id, fr)
            rhs = self.eval(s.value, fr)
            fr.locals[t.id] = self.aug(s.op, cur, rhs, fr, s)
            return
        if isinstance(t, ast.Attribute):
            base = self.eval(t.value, fr)
            name = mangle(fr.cls, t.attr)
            cur = self.get_attr(base, name, fr)
            rhs = self.eval(s.value, fr)
            self.set_attr(base, name, self.aug(s.op, cur, rhs, fr, s), fr)
            return
        if isinstance(t, ast.Subscript):
            base = self.eval(t.value, fr)
            idx = self.eval(t.slice, fr)
            cur = self.py_index(base, idx, fr, "aug")
            rhs = self.eval(s.value, fr)
            self.store_index(base, idx, self.aug(s.op, cur, rhs, fr, s), fr, "aug")
            return
        raise Unsupported("augassign target")

    def aug(self, op, cur, rhs, fr, node):
        if isinstance(cur, VRef) and isinstance(op, ast.Add):
            o = self.st.heap[cur.ref]
            if o.kind == "list":
                o.data.extend(self.iter_concrete(rhs))
                return cur
        return self.binop(op, cur, rhs, fr, None)

    def s_Return(self, s, fr):
        raise ReturnSig(self.eval(s.value, fr) if s.value is not None else NONE)

    def s_Break(self, s, fr):
        raise BreakSig()

    def s_Continue(self, s, fr):
        raise ContinueSig()

    def s_Delete(self, s, fr):
        for t in s.targets:
            if isinstance(t, ast.Name):
                fr.locals.pop(t.id, None)
            elif isinstance(t, ast.Subscript):
                base = self.eval(t.value, fr)
                if isinstance(t.slice, ast.Slice):
                    lo = self.eval(t.slice.lower, fr) if t.slice.lower is not None else None
                    hi = self.eval(t.slice.upper, fr) if t.slice.upper is not None else None
                    if isinstance(base, VSeq) and base.pytype == "bytearray" and isinstance(t.value, (ast.Name, ast.Attribute)):
                        # in-place deletion on an unaliased bytearray/array held in a variable or field:
                        # compute the remaining sequence and store it back
                        n = ropes.seq_len(base)
                        head = self.py_slice(base, VInt(0), lo if lo is not None else VInt(0), fr)
                        tail = self.py_slice(base, hi if hi is not None else VInt(n), None, fr)
                        newv = ropes.concat(head, tail)
                        store = ast.Attribute(value=t.value.value, attr=t.value.attr, ctx=ast.Store()) \
                            if isinstance(t.value, ast.Attribute) else ast.Name(id=t.value.id, ctx=ast.Store())
                        self.assign_target(store, VSeq(newv.segs, "bytearray"), fr)
                    else:
                        self.del_slice(base, lo, hi, fr)
                else:
                    idx = self.eval(t.slice, fr)
                    self.del_index(base, idx, fr, fr.finfo.label(t))
            else:
                raise Unsupported("del target")

    def del_index(self, base, idx, fr, site):
        if isinstance(base, VRef):
            o = self.st.heap[base.ref]
            if o.kind == "dict":
                k = self.hashable(idx)
                if k not in o.data:
                    self.raise_py("KeyError", repr(k), site)
                del o.data[k]
                return
            if o.kind == "list" and isinstance(idx, VInt) and is_conc(idx.t):
                try:
                    del o.data[idx.t]
                except IndexError:
                    self.raise_py("IndexError", "del", site)
                return
            if o.kind == "obj":
                m = self.E.find_attr(o.cls, "__delitem__")
                if m:
                    self.call_value(VFunc(m["v"], base), [idx], {}, fr, site)
                    return
        if isinstance(base, VOpaque) and self.E.contract_of(base.tag + ".__delitem__"):
            self.call_value(VFunc(base.tag + ".__delitem__", base), [idx], {}, fr, site)
            return
        raise Unsupported("del index on %s" % self.type_name(base))

    def del_slice(self, base, lo, hi, fr):
        raise Unsupported("del slice on %s" % self.type_name(base))

    def s_If(self, s, fr):
        c = self.eval(s.test, fr)
        if self.st.decide(self.truthy(c)):
            self.exec_block(s.body, fr)
        else:
            self.exec_block(s.orelse, fr)

    def s_Assert(self, s, fr):
        c = self.eval(s.test, fr)
        if fr.module.startswith("lemmas."):
            # in a lemma program an assert is a proof obligation (counted even when it is closed at once)
            self.st.oblige("%s::%s" % (fr.finfo.qualname, fr.finfo.label(s)), self.truthy(c), kind="lemma-assert")
            return
        if not self.st.decide(self.truthy(c)):
            self.raise_py("AssertionError", "", fr.finfo.label(s))

    def s_Raise(self, s, fr):
        site = fr.finfo.label(s)
        if s.exc is None:
            cur = getattr(fr, "current_exc", None)
            if cur is None:
                raise Unsupported("bare raise outside handler")
            raise PyExc(cur, site)
        v = self.eval(s.exc, fr)
        if isinstance(v, VClass):
            v = self.instantiate(v, [], {}, fr, site)
        if isinstance(v, VOpaque) and v.tag in getattr(self.E, "opaque_exc", {}):
            # a stored exception object of a declared class (e.g. one saved earlier for re-raising)
            v = VExc(self.E.opaque_exc[v.tag])
        if not isinstance(v, VExc):
            raise Unsupported("raise of %s" % self.type_name(v))
        raise PyExc(v, site)

    def s_Try(self, s, fr):
        def body():
            try:
                if s.handlers:
                    self.handler_depth = getattr(self, "handler_depth", 0) + 1
                try:
                    self.exec_block(s.body, fr)
                finally:
                    if s.handlers:
                        self.handler_depth -= 1
            except PyExc as pe:
                for h in s.handlers:
                    if self.handler_matches(h, pe.exc, fr):
                        if h.name:
                            fr.locals[h.name] = pe.exc
                        saved = getattr(fr, "current_exc", None)
                        fr.current_exc = pe.exc
                        try:
                            self.exec_block(h.body, fr)
                        finally:
                            fr.current_exc = saved
                        return
                raise
            else:
                self.exec_block(s.orelse, fr)

        if not s.finalbody:
            body()
            return
        try:
            body()
        except (PyExc, ReturnSig, BreakSig, ContinueSig):
            self.exec_block(s.finalbody, fr)
            raise
        self.exec_block(s.finalbody, fr)

    def handler_matches(self, h, exc, fr):
        if h.type is None:
            return True
        t = self.eval(h.type, fr)
        classes = t.items if isinstance(t, VTuple) else [t]
        for c in classes:
            if isinstance(c, (VFunc, VOpaque)):
                # library exception reached through an attribute chain (nacl.exceptions.BadSignatureError)
                nm = (c.qualname if isinstance(c, VFunc) else c.tag).split(":")[-1].rsplit(".", 1)[-1]
                if self.E.is_exception_name(nm):
                    c = VClass(nm)
            if not isinstance(c, VClass):
                raise Unsupported("except clause with %r" % (c,))
            if self.exc_matches(exc.cls, c.qualname):
                return True
        return False

    def s_With(self, s, fr):
        if len(s.items) != 1:
            raise Unsupported("with multiple items")
        item = s.items[0]
        ctx = self.eval(item.context_expr, fr)
        entered = self.call_value(self.get_attr(ctx, "__enter__", fr), [], {}, fr, "with")
        if item.optional_vars is not None:
            self.assign_target(item.optional_vars, entered, fr)
        try:
            self.exec_block(s.body, fr)
        except (PyExc, ReturnSig, BreakSig, ContinueSig):
            self.call_value(self.get_attr(ctx, "__exit__", fr), [NONE, NONE, NONE], {}, fr, "with")
            raise
        self.call_value(self.get_attr(ctx, "__exit__", fr), [NONE, NONE, NONE], {}, fr, "with")

    def s_FunctionDef(self, s, fr):
        qn = fr.finfo.qualname + ".<locals>." + s.name
        fr.locals[s.name] = VFunc(qn, None, closure=(None, fr))

    def s_ClassDef(self, s, fr):
        qn = fr.finfo.qualname + ".<locals>." + s.name
        fr.locals[s.name] = VClass(qn)

    # ------------------------------------------------------------------ loops
    def s_While(self, s, fr):
        from . import loops
        loops.exec_while(self, s, fr)

    def s_For(self, s, fr):
        from . import loops
        loops.exec_for(self, s, fr)

    # ------------------------------------------------------------------ calls
    def call_value(self, f, args, kwargs, fr, site):
        from . import calls
        return calls.call_value(self, f, args, kwargs, fr, site)

    def instantiate(self, cls, args, kwargs, fr, site):
        from . import calls
        return calls.instantiate(self, cls, args, kwargs, fr, site)


def VOpaqueBool(st, hint):
    return st.fresh_bool(hint)


def split_top(s):
    out, depth, cur = [], 0, ""
    for ch in s:
        if ch == "[":
            depth += 1
        elif ch == "]":
            depth -= 1
        if ch == "," and depth == 0:
            out.append(cur.strip())
            cur = ""
        else:
            cur += ch
    if cur.strip():
        out.append(cur.strip())
    return out


_PURE_CMP = (ast.Lt, ast.LtE, ast.Gt, ast.GtE, ast.Eq, ast.NotEq, ast.Is, ast.IsNot)


def pure_expr(e):
    """syntactic test: evaluation cannot raise and has no effect (so `and`/`or` need not short-circuit)"""
    if isinstance(e, (ast.Constant, ast.Name)):
        return True
    if isinstance(e, ast.Attribute):
        return isinstance(e.value, ast.Name) and e.value.id == "self"
    if isinstance(e, ast.Compare):
        if not all(isinstance(op, _PURE_CMP) for op in e.ops):
            return False
        # ordering comparisons can raise TypeError on None; only allow them between attribute/ints syntactically
        return pure_expr(e.left) and all(pure_expr(c) for c in e.comparators)
    if isinstance(e, ast.UnaryOp) and isinstance(e.op, ast.Not):
        return pure_expr(e.operand)
    if isinstance(e, ast.BoolOp):
        return all(pure_expr(v) for v in e.values)
    if isinstance(e, ast.BinOp) and isinstance(e.op, (ast.Add, ast.Sub)):
        return pure_expr(e.left) and pure_expr(e.right)
    return False
