"""Run under /venv/bin/python with PYTHONPATH=<repo>: dump constants, class hierarchies and the
kinds of module globals of the real paramiko modules as JSON on stdout.  Values only - no code."""
import importlib
import inspect
import json
import pkgutil
import sys
import types


def enc(v, depth=0):
    """JSON encoding of constant values; None if not a plain constant"""
    if depth > 4:
        return None
    if v is None:
        return {"k": "none"}
    if isinstance(v, bool):
        return {"k": "bool", "v": v}
    if isinstance(v, int):
        return {"k": "int", "v": str(v)}
    if isinstance(v, float):
        return {"k": "float", "v": v}
    if isinstance(v, bytes):
        return {"k": "bytes", "v": list(v)}
    if isinstance(v, str):
        return {"k": "str", "v": v}
    if isinstance(v, (tuple, list, set, frozenset)):
        items = sorted(v, key=repr) if isinstance(v, (set, frozenset)) else v
        xs = [enc(x, depth + 1) for x in items]
        if any(x is None for x in xs):
            return None
        return {"k": {tuple: "tuple", list: "list", set: "set", frozenset: "set"}[type(v)], "v": xs}
    if isinstance(v, dict):
        out = []
        for k, x in v.items():
            ek, ex = enc(k, depth + 1), enc(x, depth + 1)
            if ek is None or ex is None:
                return None
            out.append([ek, ex])
        return {"k": "dict", "v": out}
    if inspect.isclass(v):
        return {"k": "class", "v": v.__module__ + "." + v.__qualname__}
    if inspect.isfunction(v) or inspect.ismethod(v):
        f = v.__func__ if inspect.ismethod(v) else v
        return {"k": "func", "v": f.__module__ + "." + f.__qualname__}
    if inspect.isbuiltin(v):
        return {"k": "func", "v": (getattr(v, "__module__", None) or "builtins") + "." + v.__qualname__}
    if isinstance(v, types.ModuleType):
        return {"k": "module", "v": v.__name__}
    return None


def main():
    import paramiko
    out = {"modules": {}, "classes": {}, "excs": {}}
    names = ["paramiko"] + ["paramiko." + m.name for m in pkgutil.iter_modules(paramiko.__path__)]
    for mn in names:
        if mn.endswith(("win_pageant", "_winapi", "win_openssh")):
            continue
        try:
            mod = importlib.import_module(mn)
        except Exception as ex:
            out["modules"][mn] = {"__error__": repr(ex)}
            continue
        g = {}
        for k, v in vars(mod).items():
            if k.startswith("__") and k.endswith("__"):
                continue
            e = enc(v)
            g[k] = e if e is not None else {"k": "other", "v": type(v).__module__ + "." + type(v).__qualname__, "oid": _oid(v)}
        out["modules"][mn] = g
        for k, v in vars(mod).items():
            if inspect.isclass(v) and v.__module__ == mn:
                register_class(out, v)
    # exception hierarchy for builtin / library exceptions used by the contracts
    import socket, struct, binascii
    extra = {"socket.timeout": socket.timeout, "socket.error": socket.error, "struct.error": struct.error,
             "socket.gaierror": socket.gaierror, "binascii.Error": binascii.Error}
    import builtins
    for k in dir(builtins):
        v = getattr(builtins, k)
        if inspect.isclass(v) and issubclass(v, BaseException):
            extra[k] = v
    # exception classes of third-party libraries that paramiko's modules import or name (handlers must match them)
    for mn in names:
        mod = sys.modules.get(mn)
        for k, v in (vars(mod).items() if mod else []):
            if inspect.isclass(v) and issubclass(v, BaseException) and not v.__module__.startswith("paramiko"):
                extra.setdefault(v.__module__ + "." + v.__qualname__, v)
                extra.setdefault(v.__qualname__, v)
    try:
        import nacl.exceptions as ne
        for k in dir(ne):
            v = getattr(ne, k)
            if inspect.isclass(v) and issubclass(v, BaseException):
                extra.setdefault("nacl.exceptions." + k, v)
                extra.setdefault(k, v)
    except Exception:
        pass
    try:
        import zlib
        extra.setdefault("zlib.error", zlib.error)
        from cryptography.exceptions import InvalidTag, InvalidSignature
        extra.setdefault("InvalidTag", InvalidTag)
        extra.setdefault("cryptography.exceptions.InvalidTag", InvalidTag)
    except Exception:
        pass
    for k, v in extra.items():
        out["excs"][k] = [c.__module__ + "." + c.__qualname__ for c in v.__mro__]
    out["special"] = special()
    json.dump(out, sys.stdout)


def special():
    """derived facts about library objects referenced from paramiko's tables (sizes only)"""
    from paramiko.transport import Transport
    sp = {"cipher_info": {}, "mac_info": {}}
    for name, info in Transport._cipher_info.items():
        sp["cipher_info"][name] = {"block-size": info.get("block-size"), "key-size": info.get("key-size"),
                                   "iv-size": info.get("iv-size"), "is_aead": bool(info.get("is_aead", False)),
                                   "mode": getattr(info.get("mode"), "__name__", None),
                                   "class": getattr(info.get("class"), "__name__", None)}
    for name, info in Transport._mac_info.items():
        try:
            ds = info["class"]().digest_size
        except Exception:
            ds = None
        sp["mac_info"][name] = {"size": info.get("size"), "digest_size": ds,
                                "class": getattr(info.get("class"), "__name__", None)}
    return sp


_OIDS = {}
_KEEP = []


def _oid(v):
    """stable small number per distinct object (sentinels such as Transport._ENCRYPT / _DECRYPT are compared with `is`)"""
    if id(v) not in _OIDS:
        _OIDS[id(v)] = 1000 + len(_OIDS)
        _KEEP.append(v)
    return _OIDS[id(v)]


def register_class(out, cls):
    qn = cls.__module__ + "." + cls.__qualname__
    if qn in out["classes"]:
        return
    attrs = {}
    for k, v in vars(cls).items():
        if k.startswith("__") and k.endswith("__") and not (inspect.isfunction(v) or isinstance(v, (staticmethod, classmethod))):
            continue
        raw = v
        if isinstance(v, (staticmethod, classmethod)):
            v = v.__func__
            e = {"k": "func", "v": v.__module__ + "." + v.__qualname__,
                 "deco": "staticmethod" if isinstance(raw, staticmethod) else "classmethod"}
        elif isinstance(v, property):
            e = {"k": "property", "v": (v.fget.__module__ + "." + v.fget.__qualname__) if v.fget else None}
        else:
            e = enc(v)
        attrs[k] = e if e is not None else {"k": "other", "v": type(v).__qualname__, "oid": _oid(v)}
        if inspect.isclass(v) and v.__module__ == cls.__module__:
            register_class(out, v)
    out["classes"][qn] = {"mro": [c.__module__ + "." + c.__qualname__ for c in cls.__mro__], "attrs": attrs}


if __name__ == "__main__":
    main()
