"""Calls: contracts (modular), inlined leaf helpers, instantiation and the intrinsic models of builtins /
library functions (each intrinsic is an assumed contract, listed by Engine.trusted)."""
import ast
import z3
from . import smt, ropes
from .values import Unsupported, V, VInt, VBool, VNone, NONE, VFloat, Seg, VSeq, VTuple, VRef, VFunc, VClass, \
    VModule, VOpaque, VExc, HeapObj, is_conc, zint, zbool, simp
from .symexec import PathEnd, ReturnSig, BreakSig, ContinueSig, PyExc, Frame

INTRINSICS = {}


def intrinsic(*names):
    def deco(f):
        for n in names:
            INTRINSICS[n] = f
        return f
    return deco


def call_value(I, f, args, kwargs, fr, site):
    E = I.E
    if isinstance(f, VClass):
        return instantiate(I, f, args, kwargs, fr, site)
    if isinstance(f, VOpaque):
        h = INTRINSICS.get(f.tag + ".__call__")
        if h:
            return h(I, f, args, kwargs, fr, site)
        c = E.opaque_call_contract(f.tag)
        if c:
            return apply_contract(I, c, f.tag, [f] + list(args), kwargs, fr, site)
        if E.contract_of(f.tag):
            return apply_contract(I, E.contract_of(f.tag), f.tag, list(args), kwargs, fr, site)
        if getattr(E, "auto_opaque", False) and f.tag.startswith("lib:"):
            E.trusted_used.add("auto-opaque library call " + f.tag)
            return VOpaque(f.tag, I.st.fresh_int("lib_call"))
        raise Unsupported("call of opaque %s" % f.tag)
    if not isinstance(f, VFunc):
        if fr.spec is False and isinstance(f, VNone):
            I.raise_py("TypeError", "'NoneType' object is not callable", site)
        raise Unsupported("call of %r" % (f,))
    qn = f.qualname
    if qn == "<lambda>":
        node, cfr = f.closure
        sub = Frame(cfr.finfo, {}, cfr.module, cfr.cls)
        sub.closure = cfr
        sub.spec = fr.spec
        sub.old_heap = fr.old_heap
        bind_args(I, node.args, args, kwargs, sub, "<lambda>")
        return I.eval(node.body, sub)
    if qn.startswith("spec."):
        from . import specfuns
        return specfuns.call(I, qn[5:], args, kwargs, fr)
    full_args = ([f.self] if f.self is not None else []) + list(args)
    h = INTRINSICS.get(qn)
    if h is not None:
        E.trusted_used.add(qn)
        return h(I, f.self, args, kwargs, fr, site)
    qn = E.canon_func(qn)
    finfo = E.src.funcs.get(qn)
    c = E.contract_of(qn)
    if c is not None and not c.get("inline") and not (E.current_target == qn and not I.callstack):
        return apply_contract(I, c, qn, full_args, kwargs, fr, site, finfo)
    if finfo is not None and (c is None and qn in E.inline_ok or (c is not None and c.get("inline"))):
        return inline_call(I, finfo, full_args, kwargs, fr, site, f)
    if finfo is not None:
        tgt = E.current_target or ""
        tfi = E.src.funcs.get(tgt.split("::")[0])
        if tfi is not None and finfo.cls is not None and tfi.cls == finfo.cls and len(I.callstack) < 6:
            # a helper method of the same class that has no contract of its own (e.g. extracted by a refactoring):
            # its real body is executed in place, as part of the function under verification
            E.bounded.discard(None)
            E.trusted_used.add("helper without a contract executed in place: " + qn)
            return inline_call(I, finfo, full_args, kwargs, fr, site, f)
        raise Unsupported("call of %s: no contract and not marked inline" % qn)
    if getattr(E, "auto_opaque", False) and not qn.startswith("paramiko."):
        # library call outside the verified code: assumed effect-free on paramiko state, total, result unconstrained
        E.trusted_used.add("auto-opaque library call " + qn)
        tag = "lib"
        return VOpaque(tag + ":" + qn.rsplit(".", 1)[-1], I.st.fresh_int("lib_" + qn.rsplit(".", 1)[-1]))
    raise Unsupported("call of unknown function %s" % qn)


def bind_args(I, a, args, kwargs, sub, qn, defaults_frame=None):
    params = [p.arg for p in a.posonlyargs + a.args]
    n = len(params)
    vals = {}
    if len(args) > n and a.vararg is None:
        raise Unsupported("too many positional arguments for %s" % qn)
    for p, v in zip(params, args):
        vals[p] = v
    if a.vararg is not None:
        vals[a.vararg.arg] = VTuple(list(args[n:]))
    for k, v in kwargs.items():
        if k in vals:
            raise Unsupported("duplicate argument %s for %s" % (k, qn))
        if k not in params and k not in [p.arg for p in a.kwonlyargs]:
            if a.kwarg is None:
                raise Unsupported("unexpected keyword %s for %s" % (k, qn))
        vals[k] = v
    defaults = a.defaults
    for i, p in enumerate(params):
        if p not in vals:
            di = i - (n - len(defaults))
            if di < 0:
                raise Unsupported("missing argument %s for %s" % (p, qn))
            vals[p] = I.eval(defaults[di], defaults_frame or sub)
    for p, d in zip(a.kwonlyargs, a.kw_defaults):
        if p.arg not in vals:
            if d is None:
                raise Unsupported("missing kw-only %s" % p.arg)
            vals[p.arg] = I.eval(d, defaults_frame or sub)
    if a.kwarg is not None and a.kwarg.arg not in vals:
        r = I.st.alloc("dict", "dict")
        I.st.heap[r.ref].data = {}
        vals[a.kwarg.arg] = r
    sub.locals.update(vals)


def inline_call(I, finfo, args, kwargs, fr, site, fval=None):
    if len(I.callstack) > 40:
        raise Unsupported("inline depth")
    sub = Frame(finfo, {}, finfo.module, finfo.cls)
    if fval is not None and fval.closure is not None:
        sub.closure = fval.closure[1]
    modfr = Frame(finfo, {}, finfo.module, finfo.cls)
    bind_args(I, finfo.node.args, args, kwargs, sub, finfo.qualname, modfr)
    I.callstack.append(finfo.qualname)
    try:
        for d in finfo.decorators:
            I.E.apply_decorator(I, d, sub, finfo)
        I.exec_block(finfo.node.body, sub)
        return NONE
    except ReturnSig as r:
        return r.value
    finally:
        I.callstack.pop()


def instantiate(I, cls, args, kwargs, fr, site):
    E = I.E
    st = I.st
    qn = E.canon_class(cls.qualname)
    h = INTRINSICS.get(qn) or INTRINSICS.get(cls.qualname)
    if h is not None:
        return h(I, None, args, kwargs, fr, site)
    if E.contract_of(qn) is not None and E.contract_of(qn).get("constructor"):
        # class whose construction is described by a contract (abstract value)
        return apply_contract(I, E.contract_of(qn), qn, list(args), kwargs, fr, site)
    if E.is_exception_name(qn):
        ex = VExc(qn, args)
        init = E.find_attr(qn, "__init__")
        if init is not None and init["k"] == "func" and init["v"] in E.src.funcs and init["v"] in E.inline_ok:
            pass
        # keyword args become fields (e.g. AuthFailure(result=...))
        for k, v in kwargs.items():
            ex.fields[k] = v
        E.exception_fields(I, ex, args, kwargs)
        return ex
    if getattr(E, "auto_opaque", False) and not qn.startswith("paramiko.") and not E.contract_of(qn + ".__init__"):
        E.trusted_used.add("auto-opaque library class " + qn)
        return VOpaque("lib:" + qn.rsplit(".", 1)[-1], st.fresh_int("libobj"))
    if "builtins.dict" in E.mro(qn) and qn != "builtins.dict":
        # dict subclass (SSHConfigDict): a dict value; the subclass's extra methods are not modelled
        r = st.alloc(qn, "dict")
        st.heap[r.ref].data = {}
        if args:
            src = args[0]
            if isinstance(src, VRef) and st.heap[src.ref].kind == "dict":
                st.heap[r.ref].data = dict(st.heap[src.ref].data)
        return r
    if qn in E.src.classes or E.class_info(qn):
        r = st.alloc(qn)
        init = E.find_attr(qn, "__init__")
        if init is not None and init["k"] == "func":
            call_value(I, VFunc(init["v"], r), args, kwargs, fr, site)
        return r
    raise Unsupported("instantiate %s" % qn)


# ---------------------------------------------------------------------------------- contracts
def spec_frame(I, finfo, env, old_heap, module=None, cls=None):
    sub = Frame(finfo, dict(env), module or (finfo.module if finfo else "paramiko"), cls or (finfo.cls if finfo else None))
    sub.spec = True
    sub.old_heap = old_heap
    return sub


def apply_contract(I, c, qn, args, kwargs, fr, site, finfo=None):
    """call site of a function under contract: assert requires, havoc modifies, assume ensures / fork raises"""
    st = I.st
    E = I.E
    E.contracts_used.add(qn)
    caller = fr.finfo.qualname if fr.finfo else "?"
    env = {}
    if finfo is not None:
        tmp = Frame(finfo, {}, finfo.module, finfo.cls)
        bind_args(I, finfo.node.args, args, kwargs, tmp, qn, Frame(finfo, {}, finfo.module, finfo.cls))
        env = tmp.locals
    else:
        names = c.get("argnames") or []
        for n, v in zip(names, args):
            env[n] = v
        env.update(kwargs)
        for n, dflt in (c.get("defaults") or {}).items():
            if n not in env:
                env[n] = I.E.eval_spec_in(I, dflt, spec_frame(I, None, {}, None, module=c.get("module"), cls=c.get("cls")))
    snap = st.snapshot()
    sf = spec_frame(I, finfo, env, snap, module=c.get("module"), cls=c.get("cls"))
    sf.old_ghost = dict(st.ghost)
    for i, (lab, r) in enumerate(labelled(c.get("requires"))):
        t = I.truthy(I.E.eval_spec_in(I, r, sf))
        st.oblige("%s::pre(%s.%s)::%s" % (caller, short(qn), lab, site), t, kind="pre")
    raises = c.get("raises") or {}
    # exceptional outcomes whose guard is already refuted by the caller's state are not explored at all
    live = {}
    for k_, v_ in raises.items():
        cond_ = v_.get("when", "True") if isinstance(v_, dict) else v_
        simple = isinstance(cond_, str) and "ghost(" not in cond_ and "result" not in cond_ and "exc" not in cond_ \
            and not (isinstance(v_, dict) and v_.get("ghost"))
        if simple and cond_ != "True":
            try:
                g_ = I.truthy(I.E.eval_spec_in(I, cond_, sf))
                if g_ is False or (g_ is not True and st.proves(z3.Not(zbool(g_)))):
                    continue
            except Unsupported:
                pass
        live[k_] = v_
    raises = live
    outcomes = ["normal"] + list(raises.keys())
    merged = None
    if getattr(I, "handler_depth", 0) == 0 and len(raises) > 1:
        # no except clause can observe the class: unconditional, effect-free exceptional outcomes are explored
        # as ONE outcome carrying all their classes (each class is checked against the caller's raises clause)
        plain = [k for k, v in raises.items() if v == "True"]
        if len(plain) > 1:
            merged = plain
            outcomes = ["normal"] + [k for k in raises if k not in plain[1:]]
    if c.get("noreturn"):
        outcomes = outcomes[1:]
    k = st.choose(len(outcomes)) if len(outcomes) > 1 else 0
    out = outcomes[k]
    # behaviours ("cases"): evaluated in the pre-state; a case whose guard is provable here is applied
    # definitionally (fields and result are *assigned* the specified values, keeping rope structure)
    cases = c.get("cases") or []
    evaluated = []
    chosen = None
    if out == "normal":
        for case in cases:
            g = I.truthy(I.E.eval_spec_in(I, case["when"], sf))
            vals = {"when": g, "post": {}, "result": None}
            if g is False:
                continue
            # case analysis at the call site: provable guard -> taken; undetermined -> the path forks
            if c.get("cases_fork", True):
                sure = (g is True) or st.decide(g)
                if not sure:
                    continue
            else:
                sure = (g is True) or st.proves(g)
            for lv, ex in (case.get("post") or {}).items():
                vals["post"][lv] = I.E.eval_spec_in(I, ex, sf)
            if "result" in case:
                vals["result"] = I.E.eval_spec_in(I, case["result"], sf)
            evaluated.append(vals)
            if sure:
                chosen = vals
                break
    # havoc
    definitional = set(chosen["post"].keys()) if chosen is not None else set()
    for m in c.get("modifies") or []:
        if m in definitional:
            continue        # assigned below by the chosen behaviour: a havoc first would only fork on optional types
        havoc_lvalue(I, m, sf)
    if out == "normal":
        rt = c.get("returns", "none")
        if chosen is not None and chosen["result"] is not None:
            res = chosen["result"]
        elif callable(rt):
            res = rt(I, env, sf)
        elif rt == "self":
            res = env.get("self", NONE)
        elif rt.startswith("expr:"):
            res = I.E.eval_spec_in(I, rt[5:], sf)
        else:
            res = I.fresh_of_type(rt, "%s.ret" % short(qn))
        sf.locals["result"] = res
        if chosen is not None:
            for lv, v in chosen["post"].items():
                assign_lvalue(I, lv, v, sf)
        else:
            for vals in evaluated:
                eqs = []
                if vals["result"] is not None:
                    eqs.append(zbool(I.equal(res, vals["result"])))
                for lv, v in vals["post"].items():
                    cur = read_lvalue(I, lv, sf)
                    eqs.append(zbool(I.equal(cur, v)))
                if eqs:
                    st.assume(z3.Implies(zbool(vals["when"]), z3.And(*eqs)))
        # ghost updates: right-hand sides read the pre-call ghost state; all assigned before the ensures
        newg = {g: I.E.eval_spec_in(I, e, sf) for g, e in (c.get("ghost") or {}).items()}
        st.ghost.update(newg)
        exported = c.get("caller_ensures")
        for lab, e in labelled(c.get("ensures")):
            if exported is not None and lab not in exported:
                continue
            tv = I.truthy(I.E.eval_spec_in(I, e, sf))
            if tv is False:
                import os as _os
                if _os.environ.get("PYVC_TRACE"):
                    print("TRACE: ensures %s of %s is literally false at this call site" % (lab, qn))
            st.assume(zbool(tv))
        for ev in c.get("emits") or []:
            st.events.append(I.E.eval_spec_in(I, ev, sf))
        post = c.get("post_hook")
        if post:
            post(I, env, sf, res)
        if not st.feasible():
            raise PathEnd()
        return res
    cond = raises[out]
    exc = VExc(out, [])
    if merged and out == merged[0]:
        exc.fields["__alts"] = merged[1:]
    sf.locals["exc"] = exc
    if isinstance(cond, dict):
        newg = {g: I.E.eval_spec_in(I, e, sf) for g, e in (cond.get("ghost") or {}).items()}
        st.ghost.update(newg)
        for e in cond.get("ensures", []):
            st.assume(zbool(I.truthy(I.E.eval_spec_in(I, e, sf))))
        cond = cond.get("when", "True")
    st.assume(zbool(I.truthy(I.E.eval_spec_in(I, cond, sf))))
    if not st.feasible():
        raise PathEnd()
    raise PyExc(exc, site)


def labelled(xs):
    if not xs:
        return []
    if isinstance(xs, dict):
        return list(xs.items())
    return [("#%d" % i, x) for i, x in enumerate(xs)]


def short(qn):
    parts = qn.split(".")
    return ".".join(parts[-2:]) if len(parts) > 2 else qn


def read_lvalue(I, expr, sf):
    base_s, name = expr.rsplit(".", 1)
    base = I.E.eval_spec_in(I, base_s, sf)
    if isinstance(base, VRef) and I.st.heap[base.ref].kind == "bytesio":
        return bio_view(I, base, sf)[name]
    return I.E.eval_spec_in(I, expr, sf)


def assign_lvalue(I, expr, value, sf):
    from .interp import mangle
    base_s, name = expr.rsplit(".", 1)
    base = I.E.eval_spec_in(I, base_s, sf)
    if not isinstance(base, VRef):
        raise Unsupported("post %s: base is %s" % (expr, I.type_name(base)))
    o = I.st.heap[base.ref]
    if o.kind == "bytesio":
        bio(I, base)
        o.fields[name] = value
        return
    o.fields[mangle(sf.cls, name)] = value


def havoc_lvalue(I, expr, sf):
    """expr: 'self.x' or 'self.a.b'  or 'ghost:name'"""
    st = I.st
    if expr.startswith("ghost:"):
        g = expr[6:]
        ty = I.E.ghost_types.get(g)
        if ty is None:
            raise Unsupported("modifies ghost:%s: undeclared ghost" % g)
        if g not in st.ghost:
            st.ghost[g] = I.fresh_of_type(ty, "ghost." + g)
            st.ghost_init[g] = st.ghost[g]
        st.ghost[g] = I.fresh_of_type(ty, "ghost.%s!post" % g)
        return
    base_s, name = expr.rsplit(".", 1)
    from .interp import mangle
    base = I.E.eval_spec_in(I, base_s, sf)
    if isinstance(base, VNone):
        return
    if not isinstance(base, VRef):
        raise Unsupported("modifies %s: base is %s" % (expr, I.type_name(base)))
    o = st.heap[base.ref]
    name = mangle(sf.cls, name)
    if o.kind == "bytesio":
        bio(I, base)
        o.fields[name] = I.fresh_of_type("bytes" if name == "buf" else "nat", "%s.%s!post" % (I.obj_hint(base), name))
        return
    if o.kind != "obj":
        o.fields[name] = I.fresh_like(o.fields[name], name)
        return
    ty = I.E.field_type(o.cls, name)
    if ty is None:
        raise Unsupported("modifies %s: undeclared field" % expr)
    if name not in o.init and name not in o.fields:
        o.init[name] = I.init_value(ty, "%s.%s" % (I.obj_hint(base), name))
    o.fields[name] = I.fresh_of_type(ty, "%s.%s!post" % (I.obj_hint(base), name))


# ---------------------------------------------------------------------------------- intrinsics
def _int(v, I):
    if isinstance(v, VInt):
        return v.t
    if isinstance(v, VBool):
        return simp(I.as_int(v))
    raise Unsupported("expected int, got %s" % I.type_name(v))


@intrinsic("builtins.len")
def _len(I, self, args, kw, fr, site):
    v = args[0]
    st = I.st
    if isinstance(v, VSeq):
        return VInt(ropes.seq_len(v))
    if isinstance(v, VTuple):
        return VInt(len(v.items))
    if isinstance(v, VRef):
        o = st.heap[v.ref]
        if o.kind in ("list", "dict", "adict"):
            return VInt(len(o.data))
        if o.kind == "slist":
            return VInt(ropes.seq_len(o.data))
        if o.kind == "obj":
            m = I.E.find_attr(o.cls, "__len__")
            if m:
                return call_value(I, VFunc(m["v"], v), [], {}, fr, site)
            if I.E.contract_of(o.cls + ".__len__"):
                return call_value(I, VFunc(o.cls + ".__len__", v), [], {}, fr, site)
    if isinstance(v, VOpaque) and v.tag == "Filtered":
        return VInt(filtered_info(I, v)[0])
    if isinstance(v, VOpaque) and v.tag in getattr(I.E, "opaque_iter", {}) and not I.E.contract_of(v.tag + ".__len__"):
        # abstract finite sequence: the same uninterpreted length the for-loop desugaring iterates up to
        flen = z3.Function("uf_len_" + v.tag, smt.Int, smt.Int)
        n = flen(v.t if v.t is not None else z3.IntVal(0))
        I.st.assume(n >= 0)
        return VInt(n)
    if isinstance(v, VOpaque) and I.E.contract_of(v.tag + ".__len__"):
        return call_value(I, VFunc(v.tag + ".__len__", v), [], {}, fr, site)
    if isinstance(v, VExc):
        return VInt(len(v.args))
    if not fr.spec and isinstance(v, (VNone, VInt, VBool)):
        I.raise_py("TypeError", "object has no len()", site)
    if fr.spec:
        return VInt(st.fresh_int("undef_len"))   # partial operation in a specification: unconstrained
    raise Unsupported("len of %s" % I.type_name(v))


@intrinsic("builtins.range")
def _range(I, self, args, kw, fr, site):
    xs = [_int(a, I) for a in args]
    if len(xs) == 1:
        a, b, s = 0, xs[0], 1
    elif len(xs) == 2:
        a, b, s = xs[0], xs[1], 1
    else:
        a, b, s = xs
    r = I.st.alloc("range", "range")
    I.st.heap[r.ref].data = (a, b, s)
    return r


@intrinsic("builtins.enumerate")
def _enumerate(I, self, args, kw, fr, site):
    r = I.st.alloc("enumerate", "enumerate")
    I.st.heap[r.ref].data = args[0]
    start = args[1] if len(args) > 1 else kw.get("start")
    I.st.heap[r.ref].fields["start"] = start if start is not None else VInt(0)
    return r


@intrinsic("builtins.isinstance")
def _isinstance(I, self, args, kw, fr, site):
    v, c = args
    classes = c.items if isinstance(c, VTuple) else [c]
    tn = I.type_name(v)
    for k in classes:
        if isinstance(k, VFunc) and k.qualname.startswith("builtins."):
            k = VClass(k.qualname[9:])
        if isinstance(k, VOpaque) and k.tag.startswith("lib:") and isinstance(v, VOpaque):
            # library class vs library object: not decidable here, both outcomes are explored
            return VBool(I.st.fresh_bool("isinstance_lib"))
        if not isinstance(k, VClass):
            raise Unsupported("isinstance against %r" % (k,))
        if I.E.type_is(tn, k.qualname, v):
            return VBool(True)
    return VBool(False)


@intrinsic("builtins.issubclass")
def _issubclass(I, self, args, kw, fr, site):
    a, b = args
    if isinstance(b, VFunc) and b.qualname.startswith("builtins."):
        b = VClass(b.qualname[9:])
    if isinstance(a, VClass) and isinstance(b, VClass):
        return VBool(I.E.type_is(a.qualname, b.qualname, None))
    raise Unsupported("issubclass")


@intrinsic("builtins.type")
def _type(I, self, args, kw, fr, site):
    tn = I.type_name(args[0])
    return VClass(tn)


@intrinsic("builtins.int")
def _intf(I, self, args, kw, fr, site):
    if not args:
        return VInt(0)
    v = args[0]
    if isinstance(v, (VInt, VBool)):
        return VInt(_int(v, I))
    if isinstance(v, VSeq):
        c = ropes.conc_value(v)
        base = _int(args[1], I) if len(args) > 1 else 10
        if c is not None and is_conc(base):
            try:
                return VInt(int(c, base))
            except ValueError:
                I.raise_py("ValueError", "invalid literal", site)
        # symbolic text: may fail
        if I.st.choose(2) == 1:
            I.raise_py("ValueError", "invalid literal for int()", site)
        t = I.st.fresh_int("int_of_str")
        return VInt(t)
    if isinstance(v, VFloat):
        t = I.st.fresh_int("int_of_float")
        I.st.assume(z3.And(z3.ToReal(t) <= v.t, v.t < z3.ToReal(t) + 1))
        return VInt(t)
    if isinstance(v, VNone):
        I.raise_py("TypeError", "int() argument must be a string or a number, not 'NoneType'", site)
    if isinstance(v, VOpaque) and getattr(I.E, "auto_opaque", False):
        return VInt(I.st.fresh_int("int_of_lib"))
    raise Unsupported("int(%s)" % I.type_name(v))


@intrinsic("builtins.bool")
def _bool(I, self, args, kw, fr, site):
    if not args:
        return VBool(False)
    return VBool(I.truthy(args[0]))


@intrinsic("builtins.bytearray")
def _bytearray(I, self, args, kw, fr, site):
    r = _bytes(I, self, args, kw, fr, site)
    return VSeq(r.segs, "bytearray")


@intrinsic("builtins.memoryview")
def _memoryview(I, self, args, kw, fr, site):
    """a memoryview of a bytes-like object behaves as that byte string for slicing, len and hand-over to writers"""
    v = args[0]
    if isinstance(v, VSeq) and v.pytype != "str":
        return VSeq(v.segs, "bytes")
    raise Unsupported("memoryview(%s)" % I.type_name(v))


@intrinsic("builtins.bytes")
def _bytes(I, self, args, kw, fr, site):
    if not args:
        return VSeq([], "bytes")
    v = args[0]
    if isinstance(v, VSeq) and v.pytype != "str":
        return VSeq(v.segs, "bytes")
    if isinstance(v, VInt):
        n = v.t
        if not is_conc(n) and not fr.spec and I.st.decide(zint(n) < 0):
            I.raise_py("ValueError", "negative count", site)
        return VSeq([Seg("R", 0, n)], "bytes")
    if isinstance(v, VRef) and I.st.heap[v.ref].kind == "list":
        items = I.st.heap[v.ref].data
        return VSeq([Seg("U", _int(x, I)) for x in items], "bytes")
    raise Unsupported("bytes(%s)" % I.type_name(v))


@intrinsic("builtins.str")
def _str(I, self, args, kw, fr, site):
    if not args:
        return ropes.const_seq("")
    v = args[0]
    if isinstance(v, VSeq) and v.pytype == "str":
        return v
    if isinstance(v, VInt) and is_conc(v.t):
        return ropes.const_seq(str(v.t))
    return VSeq([Seg("A", I.st.fresh_seq("str"), I.fresh_len("str"))], "str")


@intrinsic("builtins.repr")
def _repr(I, self, args, kw, fr, site):
    return VSeq([Seg("A", I.st.fresh_seq("repr"), I.fresh_len("repr"))], "str")


@intrinsic("builtins.min")
def _min(I, self, args, kw, fr, site):
    return _minmax(I, self, args, kw, fr, site, True)


@intrinsic("builtins.max")
def _max(I, self, args, kw, fr, site):
    return _minmax(I, self, args, kw, fr, site, False)


def _minmax(I, self, args, kw, fr, site, ismin):
    if len(args) == 2 and all(isinstance(a, (VInt, VBool)) for a in args):
        x, y = zint(_int(args[0], I)), zint(_int(args[1], I))
        if not fr.spec:
            # case split instead of an if-then-else term: keeps later obligations linear
            le = I.st.decide(x <= y)
            return VInt(simp((x if le else y) if ismin else (y if le else x)))
        # specification: resolved by the path condition when it already orders the two
        if I.st.proves(x <= y):
            return VInt(simp(x if ismin else y))
        if I.st.proves(y <= x):
            return VInt(simp(y if ismin else x))
        return VInt(simp(z3.If(x <= y, x, y) if ismin else z3.If(x >= y, x, y)))
    if len(args) == 1 and isinstance(args[0], VOpaque) and args[0].tag == "Filtered" and not kw:
        # max / min of the selected elements of an abstract int sequence: some selected element that bounds all selected ones
        st = I.st
        r = args[0]
        n, i0, elem_at = filtered_info(I, r)
        d = st.filtered[str(r.t)]
        if not fr.spec and not st.decide(n > 0):
            I.raise_py("ValueError", "max() arg is an empty sequence", site)
        xs, pred, pfr, psite = d["xs"], d["pred"], d["fr"], d["site"]
        from . import loops
        _, L = loops.symbolic_iter(I, xs, pfr)
        L = zint(L)
        im = st.fresh_int("extremum_idx")
        j = z3.Int(st.fresh_name("q_mj"))

        def P(idx):
            n0 = len(st.pc)
            t = zbool(I.truthy(call_value(I, pred, [elem_at(idx)], {}, pfr, psite)))
            del st.pc[n0:]
            return t
        m = elem_at(im)
        if not isinstance(m, VInt):
            raise Unsupported("min/max of a filtered sequence of %s" % I.type_name(m))
        ej = zint(elem_at(j).t)
        st.assume(z3.And(0 <= im, im < L, P(im)))
        st.assume(z3.ForAll([j], z3.Implies(z3.And(0 <= j, j < L, P(j)), (ej >= zint(m.t)) if ismin else (ej <= zint(m.t)))))
        I.E.trusted_used.add("max/min of a filtered abstract sequence: a selected element bounding every selected element")
        return m
    raise Unsupported("min/max of %s" % [I.type_name(a) for a in args])


@intrinsic("builtins.sorted")
def _sorted(I, self, args, kw, fr, site):
    """sorted(d.keys()) for a symbolic int-keyed dict: a fresh strictly increasing list that enumerates
    exactly the domain (quantified facts; assumed semantics of sorted/dict.keys)"""
    st = I.st
    v = args[0]
    if isinstance(v, VRef) and st.heap[v.ref].kind == "skeys":
        d = st.heap[st.heap[v.ref].data.ref]
        dom = d.data["dom"]
        t = st.fresh_seq("sorted_keys")
        n = smt.slen(t)
        i, j, k = z3.Ints("srt_i srt_j srt_k")
        st.assume(n >= 0)
        st.assume(z3.ForAll([i], z3.Implies(z3.And(0 <= i, i < n), z3.Select(dom, smt.sat_(t, i))), patterns=[smt.sat_(t, i)]))
        st.assume(z3.ForAll([i, j], z3.Implies(z3.And(0 <= i, i < j, j < n), smt.sat_(t, i) < smt.sat_(t, j)),
                            patterns=[z3.MultiPattern(smt.sat_(t, i), smt.sat_(t, j))]))
        idx = z3.Function(st.fresh_name("key_index"), smt.Int, smt.Int)
        st.assume(z3.ForAll([k], z3.Implies(z3.Select(dom, k), z3.And(0 <= idx(k), idx(k) < n, smt.sat_(t, idx(k)) == k)),
                            patterns=[z3.Select(dom, k)]))
        r = st.alloc("list", "slist")
        st.heap[r.ref].data = VSeq([Seg("A", t, n)], "list")
        st.heap[r.ref].hint = "sorted_keys"
        return r
    items = I.iter_concrete(v)
    if len(items) <= 1:
        # nothing to order
        r = st.alloc("list", "list")
        st.heap[r.ref].data = list(items)
        return r
    keys = []
    for x in items:
        try:
            h = I.hashable(x)
        except Unsupported:
            # tuples (k, v) with concrete, pairwise distinct first components sort by those alone
            if isinstance(x, VTuple) and x.items:
                h = (I.hashable(x.items[0]),)
            else:
                raise
        keys.append((h, x))
    if len(set(k for k, _ in keys)) != len(keys):
        raise Unsupported("sorted(): keys not pairwise distinct and concrete")
    keys.sort(key=lambda p: p[0])
    r = st.alloc("list", "list")
    st.heap[r.ref].data = [x for _, x in keys]
    return r


@intrinsic("builtins.getattr")
def _getattr(I, self, args, kw, fr, site):
    name = ropes.conc_value(args[1])
    if name is None:
        raise Unsupported("getattr with symbolic name")
    try:
        return I.get_attr(args[0], name, fr, site)
    except PyExc as pe:
        if pe.exc.cls == "AttributeError" and len(args) > 2:
            return args[2]
        raise
    except Unsupported:
        if len(args) > 2 and isinstance(args[0], VRef):
            return args[2]
        raise


@intrinsic("builtins.hasattr")
def _hasattr(I, self, args, kw, fr, site):
    name = ropes.conc_value(args[1])
    try:
        v = I.get_attr(args[0], name, fr, site)
        if isinstance(v, VNone) and isinstance(args[0], VRef) and I.st.heap[args[0].ref].kind == "obj":
            ty = I.E.field_type(I.st.heap[args[0].ref].cls, name)
            if ty and ty.startswith("maybe["):
                return VBool(False)      # declared "maybe[...]": None stands for "attribute absent"
        return VBool(True)
    except PyExc:
        return VBool(False)


@intrinsic("builtins.setattr")
def _setattr(I, self, args, kw, fr, site):
    name = ropes.conc_value(args[1])
    if name is None:
        raise Unsupported("setattr with symbolic name")
    I.set_attr(args[0], name, args[2], fr)
    return NONE


@intrinsic("builtins.list", "builtins.tuple")
def _list(I, self, args, kw, fr, site):
    if args and isinstance(args[0], VOpaque) and (args[0].tag == "Filtered" or args[0].tag in getattr(I.E, "opaque_iter", {})):
        return args[0]          # abstract sequences stay abstract (list() of them is the same sequence of elements)
    items = I.iter_concrete(args[0]) if args else []
    r = I.st.alloc("list", "list")
    I.st.heap[r.ref].data = items
    return r


# ---- filter(pred, xs) over an abstract sequence: only what the code can observe of the result is defined - whether it
# is empty, and its first element (the first element of xs satisfying pred); both are consequences of filter's definition
@intrinsic("builtins.filter")
def _filter(I, self, args, kw, fr, site):
    pred, xs = args
    if isinstance(xs, VOpaque) and (xs.tag in getattr(I.E, "opaque_iter", {}) or xs.tag == "Filtered"):
        st = I.st
        r = VOpaque("Filtered", st.fresh_int("filtered_id"))
        st.__dict__.setdefault("filtered", {})[str(r.t)] = dict(pred=pred, xs=xs, fr=fr, site=site)
        I.E.trusted_used.add("filter(pred, xs): empty iff no element satisfies pred; first element = first of xs satisfying pred")
        return r
    items = I.iter_concrete(xs)
    out = []
    for x in items:
        if I.st.decide(I.truthy(call_value(I, pred, [x], {}, fr, site))):
            out.append(x)
    r = I.st.alloc("list", "list")
    I.st.heap[r.ref].data = out
    return r


def filtered_info(I, r):
    """(n, i0, elem_at) of a Filtered value, with the defining facts assumed once"""
    from . import loops
    st = I.st
    d = st.filtered[str(r.t)]
    if "n" in d:
        return d["n"], d["i0"], d["elem_at"]
    xs, pred, fr, site = d["xs"], d["pred"], d["fr"], d["site"]
    if xs.tag == "Filtered":
        raise Unsupported("filter over a filtered sequence")
    elem_at, L = loops.symbolic_iter(I, xs, fr)
    n, i0 = st.fresh_int("filtered_len"), st.fresh_int("filtered_first")
    j = z3.Int(st.fresh_name("q_fj"))

    def P(idx):
        n0 = len(st.pc)
        t = zbool(I.truthy(call_value(I, pred, [elem_at(idx)], {}, fr, site)))
        del st.pc[n0:]
        return t
    L = zint(L)
    st.assume(n >= 0)
    st.assume((n == 0) == z3.ForAll([j], z3.Implies(z3.And(0 <= j, j < L), z3.Not(P(j)))))
    st.assume(z3.Implies(n > 0, z3.And(0 <= i0, i0 < L, P(i0),
                                        z3.ForAll([j], z3.Implies(z3.And(0 <= j, j < i0), z3.Not(P(j)))))))
    d.update(n=n, i0=i0, elem_at=elem_at)
    return n, i0, elem_at


@intrinsic("Filtered.__contains__")
def _filtered_contains(I, self, args, kw, fr, site):
    d = I.st.filtered[str(self.t)]
    a = zbool(I.truthy(call_value(I, VFunc(d["xs"].tag + ".__contains__", d["xs"]), [args[0]], {}, fr, site)))
    b = zbool(I.truthy(call_value(I, d["pred"], [args[0]], {}, fr, site)))
    return VBool(simp(z3.And(a, b)))


@intrinsic("builtins.set")
def _set(I, self, args, kw, fr, site):
    """set modelled as a duplicate-free list (iteration order unspecified in Python; only membership is used)"""
    r = I.st.alloc("list", "list")
    I.st.heap[r.ref].data = []
    if args:
        _set_update(I, r, [args[0]], {}, fr, site)
    return r


@intrinsic("list.update", "list.add")
def _set_update(I, self, args, kw, fr, site):
    o = I.st.heap[self.ref]
    items = I.iter_concrete(args[0]) if site.find("call(add)") < 0 else [args[0]]
    for x in items:
        dup = False
        for y in o.data:
            if I.st.decide(I.equal(x, y)):
                dup = True
                break
        if not dup:
            o.data.append(x)
    return NONE


@intrinsic("builtins.dict")
def _dict(I, self, args, kw, fr, site):
    r = I.st.alloc("dict", "dict")
    I.st.heap[r.ref].data = {}
    if args:
        src = args[0]
        if isinstance(src, VRef) and I.st.heap[src.ref].kind == "dict":
            I.st.heap[r.ref].data = dict(I.st.heap[src.ref].data)
        else:
            raise Unsupported("dict(...)")
    return r


@intrinsic("builtins.print")
def _print(I, self, args, kw, fr, site):
    return NONE


@intrinsic("builtins.abs")
def _abs(I, self, args, kw, fr, site):
    x = zint(_int(args[0], I))
    return VInt(simp(z3.If(x < 0, -x, x)))


@intrinsic("builtins.ord")
def _ord(I, self, args, kw, fr, site):
    v = args[0]
    if isinstance(v, VSeq):
        n = ropes.seq_len(v)
        if not fr.spec and not I.st.decide(zint(n) == 1):
            I.raise_py("TypeError", "ord() expected a character", site)
        return VInt(ropes.index_norm(I.st, v, 0))
    if not fr.spec:
        I.raise_py("TypeError", "ord() expected string of length 1", site)
    raise Unsupported("ord")


@intrinsic("builtins.chr")
def _chr(I, self, args, kw, fr, site):
    return VSeq([Seg("U", _int(args[0], I))], "str")


# ---- struct
FMT = {"I": ("P32", 4, 2 ** 32), "L": ("P32", 4, 2 ** 32), "Q": ("P64", 8, 2 ** 64), "B": ("U", 1, 256)}


def parse_fmt(fmt):
    if not fmt.startswith(">") and not all(ch == "B" for ch in fmt):
        raise Unsupported("struct format %r" % fmt)
    codes = fmt.lstrip(">")
    for ch in codes:
        if ch not in FMT:
            raise Unsupported("struct format %r" % fmt)
    return codes


@intrinsic("struct.pack")
def _pack(I, self, args, kw, fr, site):
    st = I.st
    fmt = ropes.conc_value(args[0])
    codes = parse_fmt(fmt)
    if len(codes) != len(args) - 1:
        I.raise_py("struct.error", "pack expected %d items" % len(codes), site)
    segs = []
    for ch, v in zip(codes, args[1:]):
        kind, size, lim = FMT[ch]
        if isinstance(v, VBool):
            v = VInt(simp(I.as_int(v)))
        if not isinstance(v, VInt):
            if fr.spec:
                raise Unsupported("spec pack of non-int")
            I.raise_py("struct.error", "required argument is not an integer", site)
        n = v.t
        if not fr.spec:
            ok = z3.And(zint(n) >= 0, zint(n) < lim) if not is_conc(n) else (0 <= n < lim)
            if not st.decide(ok):
                I.raise_py("struct.error", "argument out of range", site)
        segs.append(Seg(kind, n))
    return VSeq(segs, "bytes")


@intrinsic("struct.unpack")
def _unpack(I, self, args, kw, fr, site):
    st = I.st
    fmt = ropes.conc_value(args[0])
    codes = parse_fmt(fmt)
    data = args[1]
    if not isinstance(data, VSeq):
        raise Unsupported("unpack of %s" % I.type_name(data))
    total = sum(FMT[ch][1] for ch in codes)
    n = ropes.seq_len(data)
    if not fr.spec:
        if not st.decide(zint(n) == total):
            I.raise_py("struct.error", "unpack requires a buffer of %d bytes" % total, site)
    out = []
    off = 0
    for ch in codes:
        kind, size, lim = FMT[ch]
        part = ropes.slice_norm(st, data, off, off + size)
        off += size
        out.append(VInt(unpack_part(I, part, kind, size)))
    return VTuple(out)


def unpack_part(I, part, kind, size):
    st = I.st
    c = ropes.conc_value(part)
    if c is not None:
        return int.from_bytes(c, "big")
    if len(part.segs) == 1 and part.segs[0].kind == kind and kind in ("P32", "P64"):
        return part.segs[0].a
    if kind == "U":
        return ropes.index_norm(st, part, 0)
    t = ropes.seq_term(st, part)
    f = smt.unpack32 if kind == "P32" else smt.unpack64
    r = f(t)
    st.assume(z3.And(r >= 0, r < 2 ** (8 * size)))
    return r


@intrinsic("int.from_bytes")
def _from_bytes(I, self, args, kw, fr, site):
    """int.from_bytes(b, 'big'): big-endian value = Horner accumulator bacc(0, b)"""
    st = I.st
    b = args[0]
    order = ropes.conc_value(args[1]) if len(args) > 1 else ropes.conc_value(kw.get("byteorder", ropes.const_seq("big")))
    if order != "big" or kw.get("signed") is not None or not isinstance(b, VSeq):
        raise Unsupported("int.from_bytes variant")
    c = ropes.conc_value(b)
    if c is not None:
        return VInt(int.from_bytes(c, "big"))
    t = smt.bacc(z3.IntVal(0), ropes.seq_term(st, b))
    n = ropes.seq_len(b)
    st.assume(t >= 0)
    if is_conc(n):
        st.assume(t < 256 ** n)
    return VInt(t)


@intrinsic("int.to_bytes")
def _to_bytes(I, self, args, kw, fr, site):
    """x.to_bytes(n, 'big') for a concrete n: OverflowError unless 0 <= x < 256**n; value(result) = x"""
    st = I.st
    n = _int(args[0], I)
    order = ropes.conc_value(args[1]) if len(args) > 1 else "big"
    if order != "big" or not is_conc(n) or kw.get("signed") is not None:
        raise Unsupported("int.to_bytes variant")
    x = self.t
    if is_conc(x):
        try:
            return ropes.const_seq(x.to_bytes(n, "big"))
        except OverflowError:
            I.raise_py("OverflowError", "int too big to convert", site)
    ok = z3.And(zint(x) >= 0, zint(x) < 256 ** n)
    if not fr.spec and not st.decide(ok):
        I.raise_py("OverflowError", "int too big to convert", site)
    t = st.fresh_seq("to_bytes")
    st.assume(z3.And(smt.slen(t) == n, smt.bacc(z3.IntVal(0), t) == zint(x)))
    return VSeq([Seg("A", t, n)], "bytes")


@intrinsic("os.urandom")
def _urandom(I, self, args, kw, fr, site):
    n = _int(args[0], I)
    st = I.st
    if not is_conc(n) and st.decide(zint(n) < 0):
        I.raise_py("ValueError", "negative argument not allowed", site)
    t = st.fresh_seq("urandom")
    st.assume(smt.slen(t) == zint(n))
    return VSeq([Seg("A", t, n)], "bytes")


@intrinsic("time.time")
def _time(I, self, args, kw, fr, site):
    st = I.st
    t = z3.Real(st.fresh_name("now"))
    last = st.ghost.get("__now")
    if last is not None:
        st.assume(t >= last)
    st.ghost["__now"] = t
    return VFloat(t)


@intrinsic("threading.current_thread")
def _current_thread(I, self, args, kw, fr, site):
    """which thread runs the function is not known: ghost bool 'on_own_thread' (chosen once per path) says whether it is
    the Thread object the method belongs to (`self` of the calling frame) or some other thread"""
    st = I.st
    g = st.ghost.get("on_own_thread")
    if g is None:
        g = VBool(st.fresh_bool("on_own_thread"))
        st.ghost["on_own_thread"] = g
        st.ghost_init["on_own_thread"] = g
    me = fr.locals.get("self")
    I.E.trusted_used.add("threading.current_thread(): the calling method's own Thread object or some other thread, fixed for the call")
    if me is not None and st.decide(zbool(g.t)):
        return me
    return VOpaque("Thread", I.fresh_of_type("int", "other_thread").t)


@intrinsic("time.sleep")
def _sleep(I, self, args, kw, fr, site):
    I.st.events.append(("sleep",))
    return NONE


# ---- bytes / str methods
@intrinsic("bytes.tobytes")
def _tobytes(I, self, args, kw, fr, site):
    return VSeq(self.segs, "bytes")


@intrinsic("bytes.decode", "str.encode")
def _codec(I, self, args, kw, fr, site):
    st = I.st
    errors = ropes.conc_value(args[1]) if len(args) > 1 and isinstance(args[1], VSeq) else \
        (ropes.conc_value(kw["errors"]) if isinstance(kw.get("errors"), VSeq) else "strict")
    if self.pytype != "str" and errors in ("replace", "ignore", "backslashreplace", "surrogateescape"):
        # lenient decoding never raises; the text is some function of the bytes
        f = z3.Function("uf_decode_" + errors, smt.Seq, smt.Seq)
        r = f(ropes.seq_term(st, self))
        st.assume(smt.slen(r) >= 0)
        return VSeq([Seg("A", r, smt.slen(r))], "str")
    c = ropes.conc_value(self)
    if c is not None:
        try:
            return ropes.const_seq(c.decode("utf-8") if isinstance(c, bytes) else c.encode("utf-8"))
        except (UnicodeDecodeError, UnicodeEncodeError):
            I.raise_py("UnicodeDecodeError" if isinstance(c, bytes) else "UnicodeEncodeError", "", site)
    t = ropes.seq_term(st, self)
    if self.pytype == "str":
        r = smt.utf8enc(t)
        st.assume(smt.slen(r) >= 0)
        return VSeq([Seg("A", r, smt.slen(r))], "bytes")
    ok = smt.utf8ok(t)
    if not fr.spec and not st.decide(ok):
        I.raise_py("UnicodeDecodeError", "invalid utf-8", site)
    r = smt.utf8dec(t)
    st.assume(smt.slen(r) >= 0)
    return VSeq([Seg("A", r, smt.slen(r))], "str")


@intrinsic("bytes.startswith", "str.startswith", "bytes.endswith", "str.endswith")
def _startswith(I, self, args, kw, fr, site):
    st = I.st
    p = args[0]
    if isinstance(p, VTuple):
        # a tuple of candidates: true when any one of them matches (CPython tries them in order, no side effects)
        rs = [_startswith(I, self, [q] + list(args[1:]), kw, fr, site).t for q in p.items]
        if any(r is True for r in rs):
            return VBool(True)
        rs = [r for r in rs if r is not False]
        return VBool(simp(z3.Or(*rs)) if rs else False)
    c, cp = ropes.conc_value(self), ropes.conc_value(p)
    ends = "call(endswith)" in site
    if c is not None and cp is not None:
        return VBool(c.endswith(cp) if ends else c.startswith(cp))
    n, m = ropes.seq_len(self), ropes.seq_len(p)
    cond = zint(m) <= zint(n)
    if is_conc(m) and st.proves(cond):
        head = ropes.slice_norm(st, self, simp(zint(n) - m), n) if ends else ropes.slice_norm(st, self, 0, m)
        return VBool(ropes.seq_eq(st, head, p))
    # deterministic (uninterpreted) predicate of the two values
    f = z3.Function("uf_endswith" if ends else "uf_startswith", smt.Seq, smt.Seq, smt.Bool)
    return VBool(f(ropes.seq_term(st, self), ropes.seq_term(st, p)))


@intrinsic("str.format", "str.join", "str.lower", "str.upper", "str.strip", "str.replace", "bytes.hex",
           "str.rstrip", "str.lstrip", "str.ljust", "str.rjust", "bytes.strip", "bytes.join")
def _opaque_str(I, self, args, kw, fr, site):
    if "call(replace)" in site and len(args) == 2 and all(isinstance(a, VSeq) for a in args):
        # deterministic (uninterpreted) function of its three arguments, so that specifications can name the result
        st = I.st
        ca = [ropes.conc_value(self), ropes.conc_value(args[0]), ropes.conc_value(args[1])]
        if all(x is not None for x in ca):
            return ropes.const_seq(ca[0].replace(ca[1], ca[2]))
        f = z3.Function("uf_str_replace", smt.Seq, smt.Seq, smt.Seq, smt.Seq)
        t = f(ropes.seq_term(st, self), ropes.seq_term(st, args[0]), ropes.seq_term(st, args[1]))
        st.assume(smt.slen(t) >= 0)
        return VSeq([Seg("A", t, smt.slen(t))], self.pytype)
    c = ropes.conc_value(self)
    name = site.split("(")[-1].split(")")[0] if "(" in site else ""
    allc = [ropes.conc_value(a) if isinstance(a, VSeq) else None for a in args]
    if name == "format" and isinstance(c, str) and not kw and all(isinstance(x, str) for x in allc):
        # every piece concrete: the real result
        try:
            return ropes.const_seq(c.format(*allc))
        except (IndexError, KeyError, ValueError):
            pass
    pt = "bytes" if self.pytype != "str" else "str"
    return VSeq([Seg("A", I.st.fresh_seq("strop"), I.fresh_len("strop"))], pt)


# ---- BytesIO
@intrinsic("io.BytesIO", "_io.BytesIO")
def _bytesio_new(I, self, args, kw, fr, site):
    st = I.st
    r = st.alloc("BytesIO", "bytesio")
    o = st.heap[r.ref]
    init = args[0] if args else VSeq([], "bytes")
    if isinstance(init, VNone):
        init = VSeq([], "bytes")
    if not isinstance(init, VSeq) or init.pytype == "str":
        if isinstance(init, VSeq):
            I.raise_py("TypeError", "a bytes-like object is required, not 'str'", site)
        raise Unsupported("BytesIO(%s)" % I.type_name(init))
    o.fields["buf"] = VSeq(init.segs, "bytes")
    o.fields["pos"] = VInt(0)
    o.init["buf"], o.init["pos"] = o.fields["buf"], o.fields["pos"]
    return r


def bio(I, ref):
    o = I.st.heap[ref.ref]
    if "buf" not in o.fields:
        o.fields["buf"] = I.fresh_of_type("bytes", "%s.buf" % I.obj_hint(ref))
        p = I.fresh_of_type("nat", "%s.pos" % I.obj_hint(ref))
        o.fields["pos"] = p
        o.init["buf"], o.init["pos"] = o.fields["buf"], o.fields["pos"]
    return o


@intrinsic("bytesio.write")
def _bio_write(I, self, args, kw, fr, site):
    st = I.st
    o = bio(I, self)
    data = args[0]
    if not isinstance(data, VSeq) or data.pytype == "str":
        if fr.spec:
            raise Unsupported("spec write")
        I.raise_py("TypeError", "a bytes-like object is required", site)
    buf, pos = o.fields["buf"], o.fields["pos"].t
    n = ropes.seq_len(buf)
    m = ropes.seq_len(data)
    at_end = zint(pos) == zint(n)
    if (is_conc(pos) and is_conc(n) and pos == n) or st.proves(at_end):
        o.fields["buf"] = ropes.concat(buf, VSeq(data.segs, "bytes"))
    else:
        # general overwrite: buf[:pos] (zero-extended) + data + buf[pos+m:]
        if not st.proves(zint(pos) <= zint(n)):
            raise Unsupported("BytesIO.write beyond the end")
        head = ropes.slice_norm(st, buf, 0, pos)
        endp = simp(zint(pos) + zint(m))
        if st.decide(zint(endp) >= zint(n)):
            o.fields["buf"] = ropes.concat(head, VSeq(data.segs, "bytes"))
        else:
            tail = ropes.slice_norm(st, buf, endp, n)
            o.fields["buf"] = ropes.concat(ropes.concat(head, VSeq(data.segs, "bytes")), tail)
    o.fields["pos"] = VInt(simp(zint(pos) + zint(m)))
    return VInt(m)


@intrinsic("bytesio.read")
def _bio_read(I, self, args, kw, fr, site):
    st = I.st
    o = bio(I, self)
    buf, pos = o.fields["buf"], o.fields["pos"].t
    n = ropes.seq_len(buf)
    if not st.proves(zint(pos) <= zint(n)):
        if st.decide(zint(pos) > zint(n)):
            return VSeq([], "bytes")
    if not args or isinstance(args[0], VNone):
        end = n
    else:
        k = _int(args[0], I)
        if (is_conc(k) and k < 0) or (not is_conc(k) and st.decide(zint(k) < 0)):
            end = n
        else:
            end = simp(zint(pos) + zint(k))
            if st.decide(zint(end) > zint(n)):
                end = n
    out = ropes.slice_norm(st, buf, pos, end)
    o.fields["pos"] = VInt(end)
    return out


def bio_view(I, ref, fr):
    """fields dict to read from: the pre-state snapshot inside old(...)"""
    o = bio(I, ref)
    if fr.spec and fr.in_old:
        f = fr
        while f is not None:
            if f.old_heap is not None:
                snap = f.old_heap.get(ref.ref)
                if snap is not None and "buf" in snap[0]:
                    return snap[0]
                if snap is not None or ref.ref in I.st.heap:
                    return o.init if "buf" in o.init else o.fields
            f = f.closure
    return o.fields


@intrinsic("bytesio.getvalue")
def _bio_getvalue(I, self, args, kw, fr, site):
    return bio_view(I, self, fr)["buf"]


@intrinsic("bytesio.tell")
def _bio_tell(I, self, args, kw, fr, site):
    return bio_view(I, self, fr)["pos"]


@intrinsic("bytesio.seek")
def _bio_seek(I, self, args, kw, fr, site):
    o = bio(I, self)
    p = _int(args[0], I)
    if len(args) > 1:
        raise Unsupported("BytesIO.seek whence")
    if not is_conc(p) and I.st.decide(zint(p) < 0):
        I.raise_py("ValueError", "negative seek value", site)
    o.fields["pos"] = VInt(p)
    return VInt(p)


# ---- list / dict methods (concrete-shape containers)
@intrinsic("list.append")
def _l_append(I, self, args, kw, fr, site):
    o = I.st.heap[self.ref]
    if o.kind == "slist":
        o.data = ropes.concat(o.data, VSeq([Seg("U", _int(args[0], I))], "list"))
    else:
        o.data.append(args[0])
    return NONE


@intrinsic("list.insert")
def _l_insert(I, self, args, kw, fr, site):
    o = I.st.heap[self.ref]
    i = _int(args[0], I)
    if o.kind == "list" and is_conc(i):
        o.data.insert(i, args[1])
        return NONE
    if o.kind == "slist" and is_conc(i) and i == 0 and isinstance(args[1], (VInt, VBool)):
        o.data = ropes.concat(VSeq([Seg("U", zint(_int(args[1], I)))], "list"), o.data)
        return NONE
    raise Unsupported("list.insert symbolic")


@intrinsic("list.pop")
def _l_pop(I, self, args, kw, fr, site):
    o = I.st.heap[self.ref]
    if o.kind == "list":
        i = _int(args[0], I) if args else -1
        if is_conc(i):
            try:
                return o.data.pop(i)
            except IndexError:
                I.raise_py("IndexError", "pop", site)
    if o.kind == "slist" and args and is_conc(_int(args[0], I)) and _int(args[0], I) == 0:
        n = ropes.seq_len(o.data)
        if not I.st.decide(zint(n) > 0):
            I.raise_py("IndexError", "pop from empty list", site)
        x = ropes.index_norm(I.st, o.data, 0)
        o.data = ropes.slice_norm(I.st, o.data, 1, n)
        return VInt(x)
    raise Unsupported("list.pop symbolic")


@intrinsic("list.popleft")
def _l_popleft(I, self, args, kw, fr, site):
    """collections.deque.popleft on a queue modelled as a list: pop(0)"""
    return _l_pop(I, self, [VInt(0)], kw, fr, site)


@intrinsic("list.extend")
def _l_extend(I, self, args, kw, fr, site):
    o = I.st.heap[self.ref]
    if o.kind == "list":
        o.data.extend(I.iter_concrete(args[0]))
        return NONE
    raise Unsupported("list.extend")


@intrinsic("list.remove")
def _l_remove(I, self, args, kw, fr, site):
    o = I.st.heap[self.ref]
    if o.kind == "list":
        for k, x in enumerate(o.data):
            if I.st.decide(I.equal(x, args[0])):
                del o.data[k]
                return NONE
        I.raise_py("ValueError", "list.remove(x): x not in list", site)
    raise Unsupported("list.remove")


@intrinsic("list.index")
def _l_index(I, self, args, kw, fr, site):
    o = I.st.heap[self.ref]
    if o.kind == "list":
        for k, x in enumerate(o.data):
            if I.st.decide(I.equal(x, args[0])):
                return VInt(k)
        I.raise_py("ValueError", "not in list", site)
    raise Unsupported("list.index")


@intrinsic("list.__contains__", "tuple.__contains__")
def _l_contains(I, self, args, kw, fr, site):
    return VBool(I.contains(self, args[0], fr, None))


@intrinsic("dict.get")
def _d_get(I, self, args, kw, fr, site):
    o = I.st.heap[self.ref]
    default = args[1] if len(args) > 1 else NONE
    if o.kind == "adict":
        return I.adict_get(o, args[0], fr, site, default=default)
    if o.kind == "sdict":
        return I.sdict_get(o, args[0], fr, site, default=default)
    return I.dict_get(o, args[0], fr, site, default=default)


@intrinsic("dict.keys")
def _d_keys(I, self, args, kw, fr, site):
    o = I.st.heap[self.ref]
    if o.kind == "sdict":
        r = I.st.alloc("keys", "skeys")
        I.st.heap[r.ref].data = self
        return r
    r = I.st.alloc("list", "list")
    I.st.heap[r.ref].data = [I.from_py(k) for k in o.data]
    return r


@intrinsic("dict.values")
def _d_values(I, self, args, kw, fr, site):
    r = I.st.alloc("values", "values")
    I.st.heap[r.ref].data = self
    return r


@intrinsic("dict.items")
def _d_items(I, self, args, kw, fr, site):
    r = I.st.alloc("items", "items")
    I.st.heap[r.ref].data = self
    return r


@intrinsic("dict.pop")
def _d_pop(I, self, args, kw, fr, site):
    o = I.st.heap[self.ref]
    k = I.hashable(args[0])
    if k in o.data:
        return o.data.pop(k)
    if len(args) > 1:
        return args[1]
    I.raise_py("KeyError", repr(k), site)


@intrinsic("dict.setdefault")
def _d_setdefault(I, self, args, kw, fr, site):
    o = I.st.heap[self.ref]
    k = I.hashable(args[0])
    if k not in o.data:
        o.data[k] = args[1] if len(args) > 1 else NONE
    return o.data[k]


@intrinsic("dict.update")
def _d_update(I, self, args, kw, fr, site):
    o = I.st.heap[self.ref]
    if args:
        src = args[0]
        if isinstance(src, VRef) and I.st.heap[src.ref].kind == "dict":
            o.data.update(I.st.heap[src.ref].data)
        else:
            raise Unsupported("dict.update")
    for k, v in kw.items():
        o.data[k] = v
    return NONE


# ---- int methods
bitlen = z3.Function("uf_bitlen", smt.Int, smt.Int)


@intrinsic("int.bit_length")
def _bit_length(I, self, args, kw, fr, site):
    x = self.t
    if is_conc(x):
        return VInt(x.bit_length())
    t = bitlen(zint(x))
    I.st.assume(t >= 0)
    return VInt(t)


# ---- locks, events (opaque handles; the monitor layer hooks acquire/release)
@intrinsic("Lock.acquire", "RLock.acquire", "Lock.__enter__", "RLock.__enter__")
def _acquire(I, self, args, kw, fr, site):
    I.E.on_acquire(I, self, fr, site)
    return VBool(True)


@intrinsic("Lock.release", "RLock.release", "Lock.__exit__", "RLock.__exit__")
def _release(I, self, args, kw, fr, site):
    I.E.on_release(I, self, fr, site)
    return NONE


@intrinsic("Condition.wait")
def _cond_wait(I, self, args, kw, fr, site):
    timeout = args[0] if args else kw.get("timeout", NONE)
    I.st.events.append(("cond.wait", self, timeout))
    I.E.on_wait(I, self, timeout, fr, site)
    if "wait_budget" in I.E.ghost_types and not isinstance(timeout, VNone):
        # ghost time budget (C25): what is left of the caller's timeout.  A wait may take as long as its argument, so that
        # argument must fit the budget; it then consumes some d in [0, t], and the ghost clock read by time.time() moves
        # on by at least d
        st = I.st
        bud = st.ghost.get("wait_budget")
        if bud is None:
            bud = I.fresh_of_type("float", "ghost.wait_budget")
            st.ghost["wait_budget"] = bud
            st.ghost_init["wait_budget"] = bud
        t = timeout.t if isinstance(timeout, VFloat) else z3.ToReal(zint(timeout.t))
        st.oblige("%s::wait-fits-what-is-left-of-the-timeout::%s" % (fr.finfo.qualname, site), t <= bud.t)
        d = z3.Real(st.fresh_name("waited"))
        st.assume(z3.And(d >= 0, d <= t))
        st.ghost["wait_budget"] = VFloat(simp(bud.t - d))
        last = st.ghost.get("__now")
        if last is None:
            last = z3.Real(st.fresh_name("now"))
        st.ghost["__now"] = simp(last + d)
    if "unbounded_waits" in I.E.ghost_types and isinstance(timeout, VNone):
        # ghost counter of waits that no timeout bounds (progress obligations, C13)
        cur = I.st.ghost.get("unbounded_waits")
        if cur is None:
            cur = I.fresh_of_type("int", "ghost.unbounded_waits")
            I.st.ghost_init["unbounded_waits"] = cur
        I.st.ghost["unbounded_waits"] = VInt(simp(zint(cur.t) + 1))
    return VBool(I.st.fresh_bool("cond_wait"))


@intrinsic("Condition.notify")
def _cond_notify_one(I, self, args, kw, fr, site):
    """wakes ONE waiter (at most n): counted apart from a broadcast - with several waiters the others sleep on"""
    I.st.events.append(("cond.notify_one", self))
    if "single_notifications" in I.E.ghost_types:
        cur = I.st.ghost.get("single_notifications")
        if cur is None:
            cur = I.fresh_of_type("int", "ghost.single_notifications")
            I.st.ghost_init["single_notifications"] = cur
        I.st.ghost["single_notifications"] = VInt(simp(zint(cur.t) + 1))
    return _cond_notify(I, self, args, kw, fr, site, broadcast=False)


@intrinsic("Condition.notify_all", "Condition.notifyAll")
def _cond_notify(I, self, args, kw, fr, site, broadcast=True):
    I.st.events.append(("cond.notify", self))
    if broadcast and "broadcasts" in I.E.ghost_types:
        cur = I.st.ghost.get("broadcasts")
        if cur is None:
            cur = I.fresh_of_type("int", "ghost.broadcasts")
            I.st.ghost_init["broadcasts"] = cur
        I.st.ghost["broadcasts"] = VInt(simp(zint(cur.t) + 1))
    if "notifications" in I.E.ghost_types:
        cur = I.st.ghost.get("notifications")
        if cur is None:
            cur = I.fresh_of_type("int", "ghost.notifications")
            I.st.ghost_init["notifications"] = cur
        I.st.ghost["notifications"] = VInt(simp(zint(cur.t) + 1))
    return NONE


@intrinsic("Condition.acquire", "Condition.__enter__")
def _cond_acquire(I, self, args, kw, fr, site):
    I.E.on_acquire(I, self, fr, site)
    return VBool(True)


@intrinsic("Condition.release", "Condition.__exit__")
def _cond_release(I, self, args, kw, fr, site):
    I.E.on_release(I, self, fr, site)
    return NONE


@intrinsic("Event.set")
def _ev_set(I, self, args, kw, fr, site):
    I.st.events.append(("event.set", self))
    I.st.ghost[("event", self.t.get_id() if self.t is not None else id(self))] = VBool(True)
    return NONE


@intrinsic("Event.clear")
def _ev_clear(I, self, args, kw, fr, site):
    I.st.events.append(("event.clear", self))
    I.st.ghost[("event", self.t.get_id() if self.t is not None else id(self))] = VBool(False)
    return NONE


@intrinsic("Event.is_set", "Event.isSet")
def _ev_isset(I, self, args, kw, fr, site):
    k = ("event", self.t.get_id() if self.t is not None else id(self))
    if k not in I.st.ghost:
        I.st.ghost[k] = VBool(I.st.fresh_bool("event_set"))
    return I.st.ghost[k]


@intrinsic("Event.wait")
def _ev_wait(I, self, args, kw, fr, site):
    timeout = args[0] if args else kw.get("timeout", NONE)
    I.st.events.append(("event.wait", self, timeout))
    I.E.on_wait(I, self, timeout, fr, site)
    if "long_waits" in I.E.ghost_types:
        # ghost counter of waits that may last longer than one second before the caller looks at anything again
        short = False
        if isinstance(timeout, VFloat):
            short = I.st.proves(z3.And(timeout.t >= 0, timeout.t <= 1))
        elif isinstance(timeout, (VInt, VBool)):
            short = I.st.proves(z3.And(zint(_int(timeout, I)) >= 0, zint(_int(timeout, I)) <= 1))
        if not short:
            cur = I.st.ghost.get("long_waits")
            if cur is None:
                cur = I.fresh_of_type("int", "ghost.long_waits")
                I.st.ghost_init["long_waits"] = cur
            I.st.ghost["long_waits"] = VInt(simp(zint(cur.t) + 1))
    if "event_waits" in I.E.ghost_types:
        # ghost counter of every wait on an Event, however short
        cur = I.st.ghost.get("event_waits")
        if cur is None:
            cur = I.fresh_of_type("int", "ghost.event_waits")
            I.st.ghost_init["event_waits"] = cur
        I.st.ghost["event_waits"] = VInt(simp(zint(cur.t) + 1))
    return VBool(I.st.fresh_bool("event_wait"))
