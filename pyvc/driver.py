"""Property driver: verify the functions a property depends on, discharge obligations, apply the verdict
rule of DESIGN section 5, replay counter-models against the real code, filter known findings, write evidence.

exit codes: 0 held | 1 violation | 2 undecided | 3 checker fault"""
import hashlib
import importlib
import json
import os
import re
import subprocess
import sys
import time
import traceback
import z3
from . import smt
from .engine import Engine
from .extract import repo_root
from .values import Unsupported

VERIF = os.path.dirname(os.path.dirname(os.path.abspath(__file__)))


def _defs_for(ob):
    """defining facts of constant symbols that occur in the obligation"""
    syms = set()
    for h in ob["hyps"]:
        smt.symbols_of(h, syms)
    smt.symbols_of(ob["goal"], syms)
    out = []
    for name, facts in ob["defs"].items():
        if name in syms:
            out.extend(facts)
    return out


def make_job(ob, tier, extra_axioms=()):
    hyps = list(ob["hyps"]) + _defs_for(ob)
    smt2, axioms = smt.to_smt2(hyps, ob["goal"], extra_axioms=extra_axioms)
    smt2_ground = smt.to_smt2_ground(hyps, ob["goal"])
    wanted = []
    for inp in ob.get("inputs", []):
        if "term" in inp:
            wanted.append(dict(name=inp["name"], kind=inp["kind"], sexpr=inp["term"].sexpr()))
    return dict(name=ob["name"], smt2=smt2, smt2_ground=smt2_ground, wanted=wanted, z3_ms=10000 if tier == "quick" else 20000,
                cvc5_s=20 if tier == "quick" else 40, use_cvc5=True, recheck_cvc5=(tier == "thorough"),
                axioms=axioms, choices=[i for i in ob.get("inputs", []) if i.get("kind") == "choice"])


class PropertyRun:
    def __init__(self, pid, tier="quick", seed=0):
        self.pid, self.tier, self.seed = pid, tier, seed
        self.t0 = time.time()
        self.E = Engine()
        self.mod = importlib.import_module("props." + pid)
        self.results = []       # per obligation instance
        self.unsupported = []
        self.functions = []
        self.lemma_results = []
        self.paths = 0
        self.complete_paths = 0
        self.messages = []

    # ------------------------------------------------------------------
    def run(self):
        mod = self.mod
        mod.setup(self.E)
        jobs = []
        job_meta = []
        trivial = 0
        self.targets = list(mod.TARGETS)
        for tgt in self.targets:
            variant, overrides = None, None
            if isinstance(tgt, tuple):
                qn, variant, overrides = tgt
            else:
                qn = tgt
            saved = None
            if overrides is not None:
                saved = self.E.contracts.get(qn)
                c2 = {} if overrides.get("+replace") else dict(saved or {})
                c2.update({k: v for k, v in overrides.items() if not k.startswith("+")})
                self.E.contracts[qn] = c2
                inl = overrides.get("+inline", [])
                self.E.inline_ok.update(inl)
                removed = {k: self.E.contracts.pop(k) for k in inl if k in self.E.contracts}
                # callee contracts that hold only in this variant's environment (e.g. one framing mode)
                swapped = {}
                for k, cc in (overrides.get("+contracts") or {}).items():
                    swapped[k] = self.E.contracts.get(k)
                    self.E.contracts[k] = cc
                esaved = {}
                for k_, v_ in (overrides.get("+engine") or {}).items():
                    esaved[k_] = getattr(self.E, k_, None)
                    setattr(self.E, k_, v_)
                # field types that hold only in this variant's environment
                fsaved = {}
                for cls_, flds in (overrides.get("+fields") or {}).items():
                    d_ = self.E.classdecl.setdefault(self.E.resolve_class(cls_), {"fields": {}, "open": True, "invariants": []})
                    fsaved[cls_] = dict(d_["fields"])
                    d_["fields"].update(flds)
            extra = getattr(mod, "EXTRA_AXIOMS", ())
            tier = self.tier

            def jobify(ob, _extra=extra, _tier=tier):
                j = make_job(ob, _tier, _extra)
                return dict(name=ob["name"], trivial=False, job=j, kind=ob.get("kind"), path=ob.get("path"))
            res = self.E.verify_function(qn, max_paths=getattr(mod, "MAX_PATHS", 4000), jobify=jobify)
            if overrides is not None:
                self.E.contracts[qn] = saved
                self.E.contracts.update(removed)
                for k, cc in swapped.items():
                    if cc is None:
                        self.E.contracts.pop(k, None)
                    else:
                        self.E.contracts[k] = cc
                for cls_, flds in fsaved.items():
                    self.E.classdecl[self.E.resolve_class(cls_)]["fields"] = flds
                for k_, v_ in esaved.items():
                    setattr(self.E, k_, v_)
                self.E.inline_ok.difference_update(inl)
                for ob in res["obligations"]:
                    ob["name"] = ob["name"] + "[%s]" % variant
            fi = res.get("finfo")
            self.functions.append(dict(qualname=qn if variant is None else "%s[%s]" % (qn, variant), sha256=fi.sha if fi else None, lines=fi.nlines if fi else 0,
                                       paths=res["paths"], complete_paths=res["complete_paths"],
                                       outcomes=res.get("outcomes", {}),
                                       decorators=fi.decorators if fi else []))
            self.paths += res["paths"]
            self.complete_paths += res["complete_paths"]
            self.unsupported.extend(res["unsupported"])
            if res["complete_paths"] == 0 and not res["unsupported"]:
                self.unsupported.append("%s: no path reaches the end of the function (vacuous contract?)" % qn)
            for ob in res["obligations"]:
                if ob.get("trivial"):
                    trivial += 1
                    self.results.append(dict(name=ob["name"], verdict="unsat", backend=ob.get("backend", "syntactic"),
                                             secs=ob.get("secs", 0.0), path=ob.get("path")))
                    continue
                j = ob["job"] if "job" in ob else make_job(ob, self.tier, getattr(mod, "EXTRA_AXIOMS", ()))
                j["name"] = ob["name"]
                j["path"] = ob.get("path")
                j["kind"] = ob.get("kind")
                jobs.append(j)
        # property-level lemmas and table obligations
        if hasattr(mod, "lemmas"):
            for name, hyps, goal in mod.lemmas(self.E):
                ob = dict(name="lemma::" + name, hyps=list(hyps), goal=goal, defs={}, inputs=[])
                g = smt.simp(goal) if hasattr(smt, "simp") else goal
                j = make_job(ob, self.tier, getattr(mod, "EXTRA_AXIOMS", ()))
                j["kind"] = "lemma"
                jobs.append(j)
        # dedupe identical queries
        uniq = {}
        for j in jobs:
            key = hashlib.sha1(j["smt2"].encode()).hexdigest()
            uniq.setdefault(key, []).append(j)
        reps = []
        for v in uniq.values():
            rep = dict(v[0])
            rep["names"] = sorted(set(j["name"] for j in v))
            reps.append(rep)
        out = smt.discharge_all(reps)
        for (key, group), r in zip(uniq.items(), out):
            for j in group:
                rr = dict(r)
                rr["name"] = j["name"]
                rr["path"] = j.get("path")
                rr["kind"] = j.get("kind")
                rr["choices"] = j.get("choices")
                rr["axioms"] = j.get("axioms")
                rr["smt2_sha"] = key
                rr["_smt2"] = j["smt2"]
                self.results.append(rr)
        self.trivial = trivial
        return self

    # ------------------------------------------------------------------
    def summarise(self):
        """aggregate per obligation name"""
        by = {}
        for r in self.results:
            by.setdefault(r["name"], []).append(r)
        agg = {}
        for name, rs in by.items():
            if all(r["verdict"] == "unsat" for r in rs):
                v = "discharged"
            elif any(r["verdict"] in ("sat", "candidate") for r in rs):
                v = "refuted"
            elif any(r["verdict"] == "error" for r in rs):
                v = "error"
            else:
                v = "open"
            agg[name] = dict(verdict=v, instances=len(rs), secs=sum(r.get("secs", 0) for r in rs),
                             backends=sorted(set(r.get("backend", "?") for r in rs)))
        return agg


def load_known():
    p = os.path.join(VERIF, "known_findings.json")
    if not os.path.exists(p):
        return []
    return json.load(open(p))


def load_baseline(pid):
    p = os.path.join(VERIF, "baseline", pid + ".json")
    if not os.path.exists(p):
        return None
    return json.load(open(p))


def native(harness, payload, timeout=40):
    """run a native harness function under /venv/bin/python against the tree the VCs came from"""
    env = dict(os.environ)
    env["PYTHONPATH"] = repo_root() + os.pathsep + VERIF
    env["PYTHONDONTWRITEBYTECODE"] = "1"
    try:
        p = subprocess.run(["/venv/bin/python", "-m", "harness.run", harness], input=json.dumps(payload),
                           capture_output=True, text=True, env=env, cwd=VERIF, timeout=timeout)
    except subprocess.TimeoutExpired:
        # the real code did not come back: reported as such (a hang is a violation of every property that
        # promises an answer; the harness name says which call was running)
        return dict(violates=True, timed_out=True, detail="native replay %s did not terminate within %ds" % (harness, timeout))
    if p.returncode != 0:
        return dict(error="harness exit %d: %s" % (p.returncode, (p.stderr or "")[-1500:]))
    try:
        return json.loads(p.stdout.strip().splitlines()[-1])
    except Exception as ex:
        return dict(error="harness output unparsable: %r %s" % (ex, p.stdout[-500:]))


def main(argv=None):
    import argparse
    ap = argparse.ArgumentParser()
    ap.add_argument("pid")
    ap.add_argument("--tier", default=os.environ.get("VERIF_TIER", "quick"))
    ap.add_argument("--replay")
    ap.add_argument("--write-baseline", action="store_true")
    ap.add_argument("-v", action="store_true")
    a = ap.parse_args(argv)
    seed = int(os.environ.get("VERIF_SEED", "0") or 0)
    sys.path.insert(0, VERIF)
    from . import report
    if a.replay:
        return report.replay_file(a.pid, a.replay)
    try:
        run = PropertyRun(a.pid, a.tier, seed).run()
    except Exception:
        traceback.print_exc()
        print("CHECKER-FAULT property=%s" % a.pid)
        return 3
    return report.finish(run, a)


if __name__ == "__main__":
    sys.exit(main())
