"""C18 - a client refuses server-initiated actions it did not enable"""
import ast
import z3
from contracts import transport, specs

ID = "C18"
T = "paramiko.transport.Transport."
TARGETS = [T + "_parse_global_request", T + "_parse_channel_open", "paramiko.channel.Channel._handle_request",
           T + "request_port_forward"]
REPLAY = {"*": "c18.replay_client"}
MAX_PATHS = 20000


def setup(E):
    transport.declare_c18(E)

HANDLER_WRITERS = {
    "_x11_handler": {"__init__", "_set_x11_handler"},
    "_forward_agent_handler": {"__init__", "_set_forward_agent_handler"},
    "_tcp_handler": {"__init__", "request_port_forward", "cancel_port_forward"},
}


def lemmas(E):
    """frame scan: the three 'enabled by the client' switches are assigned only by the client's own request calls"""
    out = []
    for field, allowed in HANDLER_WRITERS.items():
        found = 0
        for qn, fi in sorted(E.src.funcs.items()):
            if fi.module != "paramiko.transport" or "::" in qn:
                continue
            for n in ast.walk(fi.node):
                for t in (n.targets if isinstance(n, ast.Assign) else ([n.target] if isinstance(n, ast.AugAssign) else [])):
                    if isinstance(t, ast.Attribute) and t.attr == field:
                        found += 1
                        out.append(("frame::%s_assigned_only_by_client_requests(%s)" % (field, qn), [],
                                    z3.BoolVal(qn.rsplit(".", 1)[-1] in allowed)))
        out.append(("frame::%s_has_writers" % field, [], z3.BoolVal(found >= 2)))
    return out


CLAIMED = True
LEVEL_TEXT = ("Proof on the real handlers: _parse_global_request in client mode consults nothing and answers exactly one "
              "REQUEST_FAILURE when a reply is wanted (nothing otherwise); _parse_channel_open in client mode constructs a "
              "channel only for kind x11 / auth-agent / forwarded-tcpip with the corresponding handler set, and otherwise "
              "sends exactly one OPEN_FAILURE with reason 1; Channel._handle_request without a server object answers "
              "CHANNEL_FAILURE to exec, shell, subsystem, pty-req, env, window-change, x11-req, agent-req and unknown "
              "requests; the three handler fields have no writers other than the client's own request calls (frame scan).")
LEVEL_NOTE = ("Assumed: handler callables and ServerInterface callbacks are arbitrary (recorded in ghost counters); peer "
              "message fields are unconstrained; _send_message/_send_user_message either queue or raise. exit-status and "
              "xon-xoff requests are accepted by design. That request_x11 etc. are only called by the application is outside "
              "the code.")
TECHNIQUE = "deductive: postconditions over ghost consultation / send / construction counters, z3; frame scan"
