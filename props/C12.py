"""C12 - unrecognised message types get UNIMPLEMENTED and the session continues"""
from contracts import transport, specs

ID = "C12"
TARGETS = [transport.RUN_ITER]
REPLAY = {"*": "c12.replay_unknown_type"}


def setup(E):
    transport.declare_c12(E)

CLAIMED = True
LEVEL_TEXT = ("Proof over one arbitrary iteration of Transport.run's dispatch loop (the loop body's real AST verified as a "
              "fragment, message type symbolic in 0..255, tables read from the real objects): for a type no table handles, "
              "exactly one message is sent, it is 03 || uint32(seqno of the offending packet), nothing is sent for type 3 "
              "itself, no exception other than a send/receive failure escapes, active stays set and the loop goes on; "
              "induction over iterations is immediate.")
LEVEL_NOTE = ("Assumed: read_message returns (type in 0..255, Message) or raises; _send_message either queues the message or "
              "raises a connection error; all other handlers have generic contracts (they are not reached on the unhandled "
              "branch). State: no key-exchange packet pending (_expected_packet empty); the strict-kex interplay is C09.")
TECHNIQUE = "deductive: loop-body fragment under contract, symbolic message type, z3"
