"""C12 - unrecognised message types get UNIMPLEMENTED and the session continues"""
from contracts import transport, specs

ID = "C12"
TARGETS = [transport.RUN_ITER]
REPLAY = {"*": "c12.replay_unknown_type"}


def setup(E):
    transport.declare_c12(E)
    # Transport._send_message, assumed by every property that counts what a handler sends: it hands the message to the
    # packetizer exactly once, unchanged (the ghost record of the packetizer's send is the one the callers' contracts use)
    T = "paramiko.transport.Transport."
    c = dict(E.contracts[T + "_send_message"])
    pk = dict(params={"data": "obj:Message"}, returns="none", ghost=dict(c["ghost"]), raises=dict(c["raises"]), modifies=[])
    global TARGETS
    # the sequence number the reply quotes is the one Packetizer.read_message stamped on the message: the number the packet
    # was received under (the MAC's counter), not a per-key packet count (contract shared with C01 / C10)
    from contracts import packet_frames
    E2 = type(E)()
    packet_frames.declare_common(E2)
    rq = "paramiko.packet.Packetizer.read_message"
    TARGETS = [t for t in TARGETS if not (isinstance(t, tuple) and t[1] == "stamps-seqno")]
    for mode, bs in (("none", 8), ("classic", 16)):
        rc = packet_frames.read_contract(mode, bs)
        TARGETS.append((rq, "stamps-seqno-%s" % mode, dict(rc, **{
            "+replace": True, "+contracts": {k: v for k, v in E2.contracts.items() if k != rq},
            "+fields": {k: dict(d["fields"]) for k, d in E2.classdecl.items()},
            "+engine": {"ghost_types": dict(E2.ghost_types), "inline_ok": set(E2.inline_ok), "auto_opaque": getattr(E2, "auto_opaque", False),
                        "opaque_contracts": dict(E2.opaque_contracts)}})))
    TARGETS = [t for t in TARGETS if not (isinstance(t, tuple) and t[1] == "own-body")]
    TARGETS.append((T + "_send_message", "own-body", dict(
        c, ghost=None,
        ensures={"handed_to_the_packetizer_exactly_once_and_unchanged":
                 "ghost('sent_count') == old(ghost('sent_count')) + 1 and ghost('last_sent') == data.packet.getvalue()"},
        **{"+contracts": {"paramiko.packet.Packetizer.send_message": pk}})))

CLAIMED = True
LEVEL_TEXT = ("Proof over one arbitrary iteration of Transport.run's dispatch loop (the loop body's real AST verified as a "
              "fragment, message type symbolic in 0..255, tables read from the real objects): for a type no table handles, "
              "exactly one message is sent, it is 03 || uint32(seqno of the offending packet), nothing is sent for type 3 "
              "itself, no exception other than a send/receive failure escapes, active stays set and the loop goes on; "
              "induction over iterations is immediate.")
LEVEL_NOTE = ("Assumed: read_message returns (type in 0..255, Message) or raises; _send_message either queues the message or "
              "raises a connection error; all other handlers have generic contracts (they are not reached on the unhandled "
              "branch). State: no key-exchange packet pending (_expected_packet empty); the strict-kex interplay is C09.")
TECHNIQUE = "deductive: loop-body fragment under contract, symbolic message type, z3"
