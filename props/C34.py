"""C34 - default SFTP path canonicalisation stays inside the served root"""
from contracts import specs

ID = "C34"
TARGETS = ["paramiko.sftp_si.SFTPServerInterface.canonicalize"]
REPLAY = {"*": "c34.replay_canonicalize"}
BOUNDED = [("c34.validate_normpath", "os.path.normpath contract (input starting with '/' gives an absolute path without '.', '..' "
            "or empty components, apart from the POSIX leading '//') checked exhaustively over the alphabet {/ . a} up to length 9")]

CLEAN = "fn('absolute_without_dot_components', 'bool', %s)"


def setup(E):
    E.declare_class("paramiko.sftp_si.SFTPServerInterface", {})
    E.contract("os.path.isabs", argnames=["path"], returns="bool",
               ensures=["result == (len(path) >= 1 and path[0] == '/')"])
    E.contract("os.path.normpath", argnames=["path"], returns="str",
               ensures=["implies(len(path) >= 1 and path[0] == '/', %s)" % (CLEAN % "result")])
    E.contract("paramiko.sftp_si.SFTPServerInterface.canonicalize", params={"path": "str"},
               ensures={"absolute_path_without_dot_or_dotdot_components": CLEAN % "result"},
               returns="str", raises={}, modifies=[])


CLAIMED = True
LEVEL_TEXT = ("Proof on the real canonicalize: on both branches the argument handed to os.path.normpath provably starts with "
              "'/' (either isabs(path) held, or the literal '/' was prepended), so by normpath's contract the result is an "
              "absolute path with no '.' or '..' component for every client-supplied string; appending such a path to a root "
              "directory names something inside that root (argued from the component-wise prefix).")
LEVEL_NOTE = ("Assumed: os.path.normpath / isabs contracts (POSIX); the normpath contract is validated exhaustively over the "
              "alphabet {/, ., a} up to length 9 on every run (bounded stand-in for the C implementation, not counted as "
              "proved); the win32 branch (backslash replacement) is not reachable on this platform (sys.platform constant).")
TECHNIQUE = "deductive: postcondition through assumed library contracts on the real AST, z3; bounded validation of the assumption"
ARGUED = ["root + clean absolute path has root as a component-wise prefix (no '..' can climb out)"]
