"""C29 - SFTP bulk transfers are exact or fail loudly"""
from contracts import sftp_file

ID = "C29"
F = "paramiko.sftp_file.SFTPFile."
TARGETS = [F + "_write", F + "_close", "paramiko.sftp_client.SFTPClient._transfer_with_callback"]
REPLAY = {"*": "c29.replay_transfers"}


def setup(E):
    sftp_file.declare(E)
    sftp_file.declare_transfer(E)


CLAIMED = True
LEVEL_TEXT = ("Proof on the real AST with a ghost count of write requests whose status has not been read: SFTPFile._write keeps "
              "the queue of outstanding requests equal to that count, issues one request of at most 32768 bytes and, when "
              "not pipelined, reads every status before returning (a refusal is raised by the status conversion); "
              "SFTPFile._close returns normally (outside garbage collection) only after the status of every write still in "
              "flight has been read, including writes issued by the final flush - so a rejected pipelined write surfaces as "
              "an exception no later than close(); SFTPClient._transfer_with_callback hands the writer exactly the bytes the "
              "reader delivered, in order, until the reader is exhausted, and returns their number (definitional loop "
              "invariant over ghost streams), whatever the chunking.")
LEVEL_NOTE = ("Assumed (SFTPClient's request/response machinery is used through contracts, not verified here): "
              "_async_request registers one request, _read_response(n) returns request n's status or raises the converted "
              "refusal, responses arrive in request order. Not decided: putfo's size confirmation via stat, getfo with "
              "prefetch (C28), short reads by the server inside SFTPFile._read. The defect this check found on the pinned "
              "tree (statuses of pipelined writes never read) is repaired: fix commit d77a551.")
TECHNIQUE = "deductive: ghost counter of outstanding statuses + definitional loop invariant over ghost streams, real AST, z3"
