"""C29 - SFTP bulk transfers are exact or fail loudly"""
from contracts import sftp_file

ID = "C29"
F = "paramiko.sftp_file.SFTPFile."
TARGETS = [F + "_write", F + "_close", "paramiko.sftp_client.SFTPClient._transfer_with_callback",
           (F + "_check_exception", "saved-exception", {}),
           "paramiko.sftp_client.SFTPClient._read_response"]
REPLAY = {"*": "c29.replay_transfers", "registered_under_their_file": "c29.pipelined_reject_with_request_between",
          "saved": "c29.pipelined_reject_with_request_between", "refusal": "c29.pipelined_reject_with_request_between"}


def setup(E):
    sftp_file.declare(E)
    sftp_file.declare_status(E)
    sftp_file.declare_dispatch(E)
    sftp_file.declare_transfer(E)
    # SFTPFile._async_response as a whole (contract shared with C28): a refused status is saved, an end-of-file answer
    # to a prefetch read is not an error, the status of a queued write retires no read request
    from contracts import prefetch
    E2 = type(E)()
    prefetch.declare(E2)
    prefetch.declare_answers(E2)
    prefetch.declare_requests(E2)
    qn = F + "_async_response"
    global TARGETS
    TARGETS = [t for t in TARGETS if not (isinstance(t, tuple) and t[1] == "answers")]
    # the registration itself, in its own environment
    E4 = type(E)()
    from contracts import message as _m
    _m.declare(E4)
    sftp_file.declare_registration(E4)
    rq = "paramiko.sftp_client.SFTPClient._async_request"
    TARGETS = [t for t in TARGETS if not (isinstance(t, tuple) and t[1] == "registration")]
    TARGETS.append((rq, "registration", dict(E4.contracts[rq], **{
        "+replace": True, "+contracts": {k: v for k, v in E4.contracts.items() if k != rq},
        "+fields": {c: dict(d["fields"]) for c, d in E4.classdecl.items()},
        "+engine": {"ghost_types": dict(E.ghost_types, **E4.ghost_types), "inline_ok": set(E4.inline_ok) | set(E.inline_ok)}})))
    TARGETS.append((qn, "answers", dict(E2.contracts[qn], **{
        "+replace": True, "+contracts": {k: v for k, v in E2.contracts.items() if k != qn},
        "+fields": {c: dict(d["fields"]) for c, d in E2.classdecl.items()},
        "+engine": {"auto_opaque": True, "ghost_types": dict(E.ghost_types, **E2.ghost_types),
                    "opaque_exc": dict(E2.opaque_exc), "opaque_iter": dict(E2.opaque_iter),
                    "opaque_attrs": dict(getattr(E, "opaque_attrs", {}), **getattr(E2, "opaque_attrs", {}))}})))


CLAIMED = True
LEVEL_TEXT = ("Proof on the real AST with a ghost count of write requests whose status has not been looked at: SFTPFile._write "
              "registers each write request under its own file (not under nobody), keeps the queue of outstanding requests "
              "equal to that count, issues one request of at most 32768 bytes and, when not pipelined, reads every status "
              "before returning (a refusal is raised by the status conversion); SFTPClient._read_response hands every "
              "response it takes off the wire and does not return to the owner of that very request (debt ghost settled in "
              "every loop iteration), and returns only the awaited one; SFTPFile._async_response (whole function, contract shared with C28) saves a refused status; "
              "_check_exception raises what was saved; SFTPFile._close returns normally (outside garbage collection) only "
              "after the status of every write still in flight has been read or found already dispatched, including writes "
              "issued by the final flush, and after raising a saved refusal - so a rejected pipelined write surfaces as an "
              "exception no later than close(), also when another request took its status off the wire; "
              "SFTPClient._transfer_with_callback hands the writer exactly the bytes the reader delivered, in order, until "
              "the reader is exhausted, and returns their number (definitional loop invariant over ghost streams).")
LEVEL_NOTE = ("SFTPClient._async_request registers each request - under the number it returns and the object it was given - before "
              "the request goes out on the wire, once, and never reuses a number (verified for a representative argument list "
              "(handle, integer, data)). Assumed: the server answers every request once. Not decided: putfo's size confirmation via stat, getfo with prefetch (C28), short "
              "reads by the server inside SFTPFile._read. Defects this check found on the pinned tree are repaired: statuses "
              "of pipelined writes never read (fix d77a551); that repair made close() wait forever when another request had "
              "consumed the statuses, and such statuses were dropped (fix 3318fcf).")
TECHNIQUE = "deductive: ghost counters (outstanding statuses, delivery debt) + definitional loop invariant over ghost streams, real AST, z3"
