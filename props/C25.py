"""C25 - sendall either delivers all data or raises"""
from contracts import channel, specs

ID = "C25"
C = "paramiko.channel.Channel."
TARGETS = [C + "sendall", C + "sendall_stderr", C + "_wait_for_send_window"]
REPLAY = {"*": "c25.replay_sendall"}


def setup(E):
    channel.declare_c19(E)          # _wait_for_send_window with its monitor contract incl. the exit_when progress obligation
    channel.declare_c25(E)
    # a sender parked on an exhausted window is released by a close only if the close wakes it: _set_closed (own body) marks the
    # channel closed and broadcasts on the window condition - waking one waiter would leave every other parked sendall asleep
    E2 = type(E)()
    channel.declare_c22(E2)
    E2.declare_ghost(broadcasts="int")
    qn = C + "_set_closed"
    global TARGETS
    TARGETS = [t for t in TARGETS if not (isinstance(t, tuple) and t[1] == "wakes-every-parked-sender")]
    TARGETS.append((qn, "wakes-every-parked-sender", dict(E2.contracts[qn], **{
        "ensures": dict(E2.contracts[qn]["ensures"],
                        every_parked_sender_is_woken="ghost('broadcasts') == old(ghost('broadcasts')) + 1"),
        "+replace": True, "+contracts": {k: v for k, v in E2.contracts.items() if k != qn},
        "+fields": {k: dict(d["fields"]) for k, d in E2.classdecl.items()},
        "+engine": {"monitors": E2.monitors, "ghost_types": dict(E2.ghost_types),
                    "inline_ok": set(E2.inline_ok)}})))

CLAIMED = True
LEVEL_TEXT = ("Proof with loop invariant and variant on the real sendall / sendall_stderr loops: ghost 'delivered' (the bytes "
              "send() reported as handed over) satisfies delivered ++ remaining == original at every iteration, the remaining "
              "length strictly decreases, and a normal return implies delivered == everything; the only other outcomes are "
              "the documented exceptions. send() is used by contract (0 <= sent <= len, may be 0 when closed/EOF). A timeout bounds the whole wait for window: every Condition.wait in _wait_for_send_window is given no more "
              "than what is left of self.timeout (ghost time budget consumed by each wait, obligation raised at the wait), so a "
              "waiter woken again and again without the window opening still times out. Channel._set_closed (own body) marks the "
              "channel closed and wakes EVERY sender parked on the window condition (ghost broadcast counter; notify() of one "
              "waiter does not count), so several parked sendall calls all come back when the channel closes.")
LEVEL_NOTE = ("The wait loop inside _wait_for_send_window carries a progress obligation (an iteration that starts with the "
              "channel closed or EOF sent must leave the loop), so a parked sender is released by close(). send()/send_stderr() are assumed here to satisfy their contract (their window arithmetic is verified under C19 "
              "through _send/_wait_for_send_window); timeouts are raised by the callee. Thread interleavings only enter through "
              "send()'s contract.")
TECHNIQUE = "deductive: loop invariant + variant over ghost delivered-bytes, z3"
