"""C25 - sendall either delivers all data or raises"""
from contracts import channel, specs

ID = "C25"
C = "paramiko.channel.Channel."
TARGETS = [C + "sendall", C + "sendall_stderr", C + "_wait_for_send_window"]
REPLAY = {"*": "c25.replay_sendall"}


def setup(E):
    channel.declare_c19(E)          # _wait_for_send_window with its monitor contract incl. the exit_when progress obligation
    channel.declare_c25(E)

CLAIMED = True
LEVEL_TEXT = ("Proof with loop invariant and variant on the real sendall / sendall_stderr loops: ghost 'delivered' (the bytes "
              "send() reported as handed over) satisfies delivered ++ remaining == original at every iteration, the remaining "
              "length strictly decreases, and a normal return implies delivered == everything; the only other outcomes are "
              "the documented exceptions. send() is used by contract (0 <= sent <= len, may be 0 when closed/EOF). A timeout bounds the whole wait for window: every Condition.wait in _wait_for_send_window is given no more "
              "than what is left of self.timeout (ghost time budget consumed by each wait, obligation raised at the wait), so a "
              "waiter woken again and again without the window opening still times out.")
LEVEL_NOTE = ("The wait loop inside _wait_for_send_window carries a progress obligation (an iteration that starts with the "
              "channel closed or EOF sent must leave the loop), so a parked sender is released by close(). send()/send_stderr() are assumed here to satisfy their contract (their window arithmetic is verified under C19 "
              "through _send/_wait_for_send_window); timeouts are raised by the callee. Thread interleavings only enter through "
              "send()'s contract.")
TECHNIQUE = "deductive: loop invariant + variant over ghost delivered-bytes, z3"
