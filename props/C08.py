"""C08 - key exchange rejects invalid peer public values and out-of-range groups"""
from contracts import kex, specs

ID = "C08"
TARGETS = ["paramiko.kex_group1.KexGroup1._parse_kexdh_reply", "paramiko.kex_group1.KexGroup1._parse_kexdh_init",
           "paramiko.kex_gex.KexGex._parse_kexdh_gex_group", "paramiko.kex_gex.KexGex._parse_kexdh_gex_init",
           "paramiko.kex_gex.KexGex._parse_kexdh_gex_reply",
           "paramiko.kex_ecdh_nist.KexNistp256._parse_kexecdh_init", "paramiko.kex_ecdh_nist.KexNistp256._parse_kexecdh_reply",
           "paramiko.kex_curve25519.KexCurve25519._perform_exchange",
           "paramiko.kex_curve25519.KexCurve25519._parse_kexecdh_init", "paramiko.kex_curve25519.KexCurve25519._parse_kexecdh_reply"]
REPLAY = {"*": "c08.replay_kex"}
MAX_PATHS = 20000


def setup(E):
    kex.declare(E)

CLAIMED = True
LEVEL_TEXT = ("Proof on the real reply/init handlers of KexGroup1 (14/16 inherit the methods), KexGex, KexNistp256 (384/521 "
              "inherit) and KexCurve25519: a normal return implies the peer's e / f lay in [1, p-1]; the gex client accepts a "
              "prime only with 1024 <= bit_length <= 8192 (precondition of _generate_x, checked at the call site); "
              "_perform_exchange never returns the all-zero secret; the ECDH exchange is reached only after "
              "from_encoded_point validated the point; and every SSHException outcome leaves 'keys activated' unchanged, while "
              "activation implies the signature check ran.")
LEVEL_NOTE = ("Assumed (library contracts): from_encoded_point raises ValueError for a point off the curve; X25519 exchange "
              "returns 32 bytes; cryptography's constant_time.bytes_eq is equality; other cryptography calls are "
              "auto-opaque (effect-free, unconstrained results - each listed in trusted_base); int.bit_length is an "
              "uninterpreted function; the generator g of a gex group is not validated by the code and not required by the "
              "statement. ValueError from the point decoders is C38's business.")
TECHNIQUE = "deductive: postconditions + call-site preconditions + ghost key-activation state on the real handlers, z3"
