"""C35 - signatures verify exactly when they are genuine, for every key object (the 'always answers, never raises' part)"""
from contracts import keys, specs

ID = "C35"
TARGETS = ["paramiko.ed25519key.Ed25519Key.verify_ssh_sig", "paramiko.rsakey.RSAKey.verify_ssh_sig",
           "paramiko.ecdsakey.ECDSAKey.verify_ssh_sig", "paramiko.ecdsakey.ECDSAKey._sigdecode"]
EXTRA_AXIOMS = specs.MPINT_AXIOMS
REPLAY = {"*": "c35.replay_verify", "RSAKey": "c35.rsa_odd_modulus"}
BOUNDED = [("c39.validate_spec", "util.inflate_long (under Message.get_mpint, which ECDSAKey._sigdecode decodes r and s with) against "
            "the two's-complement reading of the bytes: canonical encodings at every byte and sign boundary up to 4096 bits and "
            "non-canonical byte strings of 0..69 bytes with every kind of leading byte (its contract is otherwise assumed)"),
           ("c35.ecdsa_unpadded_integers", "genuine ECDSA signatures re-encoded with the sign padding of r or s removed (a negative "
            "integer on the wire) are refused, for the three curves, 40 signatures each")]


def setup(E):
    keys.declare(E)

CLAIMED = True
LEVEL_TEXT = ("Proof of the totality clause on the real verify_ssh_sig of RSAKey, ECDSAKey and Ed25519Key, for every message "
              "and both ways an Ed25519 key object can hold its material (signing key only / verifying key only): no "
              "exception of any class escapes and the result is a bool, given the exception classes the library primitives "
              "were observed to raise. The functional clauses (a genuine signature verifies under the key and its public "
              "counterpart, anything else does not) are properties of the cryptographic library and are exercised only by "
              "the native replay; they are assumed, not proved. For RSA additionally what reaches the library: a blob naming one of the key's algorithms is always put to the "
              "library (never rejected on its length alone), as the blob's signature left-padded with zero bytes to at least the size of "
              "the modulus, and True is answered only when the library accepted.")
LEVEL_NOTE = ("Assumed raise sets (probed natively): nacl VerifyKey.verify raises BadSignatureError or ValueError; "
              "cryptography verify raises InvalidSignature; encode_dss_signature raises ValueError for negative integers; "
              "Message.get_text raises UnicodeDecodeError; other cryptography calls auto-opaque (total). Key generation, "
              "file loading paths and sign_ssh_data are not under contract. util.inflate_long (under Message.get_mpint, with which "
              "_sigdecode reads r and s) is an assumed contract backed by a bounded native check only (labelled bounded).")
TECHNIQUE = "deductive: exceptional postconditions (raises nothing) on the real AST with assumed library raise sets, z3"
