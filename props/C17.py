"""C17 - client credentials are only sent to a verified, accepted server"""
from contracts import client_auth

ID = "C17"
T = "paramiko.transport.Transport."
TARGETS = [T + f for f in client_auth.AUTH_FUNCS]
TARGETS += [T + "connect::part[hostkey-then-auth]", "paramiko.client.SSHClient.connect::part[hostkey-then-auth]"]
REPLAY = {"*": "c17.replay_hostkey"}


def setup(E):
    client_auth.declare(E)
    global TARGETS
    i = TARGETS.index(T + "connect::part[hostkey-then-auth]")
    TARGETS[i] = (T + "connect::part[hostkey-then-auth]", "auth-calls-counted", dict(client_auth.CONNECT_ENV))


def lemmas(E):
    """structural: initial_kex_done becomes True only in _parse_newkeys (reached, on a client, only after _verify_key
    accepted the host key signature - C06/C09); nothing else assigns it"""
    import ast
    import z3
    out = []
    found = 0
    for qn, fi in sorted(E.src.funcs.items()):
        if not qn.startswith("paramiko.transport.Transport.") or "::" in qn:
            continue
        for n in ast.walk(fi.node):
            if isinstance(n, ast.Assign):
                for t in n.targets:
                    for a in ast.walk(t):
                        if isinstance(a, ast.Attribute) and a.attr == "initial_kex_done" and isinstance(a.value, ast.Name) and a.value.id == "self":
                            found += 1
                            ok = qn.endswith("._parse_newkeys") or (qn.endswith(".__init__") and isinstance(n.value, ast.Constant) and n.value.value is False)
                            out.append(("structure::initial_kex_done_assigned_only_in_parse_newkeys(%s)" % qn, [], z3.BoolVal(bool(ok))))
    out.append(("structure::initial_kex_done_assignments_found", [], z3.BoolVal(found >= 2)))
    return out


CLAIMED = True
LEVEL_TEXT = ("Proof on the real AST: each of Transport.auth_none / auth_password / auth_publickey / auth_interactive / "
              "auth_interactive_dumb / auth_gssapi_with_mic / auth_gssapi_keyex creates an AuthHandler or starts an "
              "authentication request only when the transport is active and the first key exchange has completed, and raises "
              "before anything is started otherwise; in Transport.connect (statement-range fragment from the host key test "
              "to the authentication calls) an authentication method is invoked only if no host key was given, GSS key "
              "exchange was used, or the server's key has the same name and the same bytes; in SSHClient.connect (fragment "
              "from the host key decision to _auth / the auth strategy) credentials are offered only if GSS key exchange "
              "authenticated the host, or the host was unknown and the missing-host-key policy returned, or the key on file "
              "for the presented key's type is the presented key - a known host presenting another key, or a key type not "
              "on file, gets BadHostKeyException. initial_kex_done is set only in _parse_newkeys (structural obligation).")
LEVEL_NOTE = ("Assumed: PKey objects are identified by their public key material (get_name / asbytes are functions of it; "
              "equality is equality of that material); known-hosts lookup semantics are C41's; AuthHandler methods and the "
              "policy object are opaque (any exception). Not decided here: that NEWKEYS is accepted on a client only after "
              "_verify_key (C06, with C09's expectation invariant), that nothing is sent in plaintext by the auth handler "
              "itself (it sends through the transport, whose packet layer is C01/C03). Fragments are located by their first "
              "and last statements; if those are rewritten the check reports undecided.")
TECHNIQUE = "deductive: postconditions with ghost call counters on functions and statement-range fragments of the real AST, z3"
