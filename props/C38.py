"""C38 - peer protocol violations surface as SSH exceptions, not internal errors"""
from contracts import transport

ID = "C38"
T = "paramiko.transport.Transport."
TARGETS = [T + "_ensure_authed", transport.RUN_ITER]
REPLAY = {"capture": "c38.auth_reply_garbage", "*": "c38.replay_peer_garbage"}
MAX_PATHS = 20000


def setup(E):
    transport.declare_c38(E)
    from contracts import kex, negotiation
    import props.C08 as c08
    global TARGETS
    TARGETS = TARGETS[:2]
    # key-exchange handlers (contracts shared with C08): only the documented classes escape
    E2 = type(E)()
    kex.declare(E2)
    f2 = {c: dict(d["fields"]) for c, d in E2.classdecl.items()}
    for qn in c08.TARGETS:
        TARGETS.append((qn, "kex-handler", dict(E2.contracts[qn], **{
            "+replace": True, "+contracts": {k: v for k, v in E2.contracts.items() if k != qn}, "+fields": f2,
            "+engine": {"auto_opaque": True, "inline_ok": set(E2.inline_ok) | set(E.inline_ok),
                        "ghost_types": dict(E.ghost_types, **E2.ghost_types), "opaque_contracts": dict(E2.opaque_contracts)}})))
    # KEXINIT parsing / negotiation (contracts shared with C05)
    E3 = type(E)()
    negotiation.declare(E3)
    f3 = {c: dict(d["fields"]) for c, d in E3.classdecl.items()}
    qn = T + "_parse_kex_init"
    TARGETS.append((qn, "kexinit", dict(E3.contracts[qn], **{
        "+replace": True, "+contracts": {k: v for k, v in E3.contracts.items() if k != qn}, "+fields": f3,
        "+engine": {"auto_opaque": True, "inline_ok": set(E3.inline_ok) | set(E.inline_ok), "opaque_iter": dict(E3.opaque_iter),
                    "ghost_types": dict(E.ghost_types, **E3.ghost_types), "opaque_contracts": dict(E3.opaque_contracts)}})))


def lemmas(E):
    """the exception capture of Transport.run (the except clauses of its inner try): whatever a handler let escape, what
    is stored for the API (saved_exception, raised by the auth calls / start_client / returned by get_exception) is an
    SSHException, an EOFError or a socket error.  Read off the handlers' AST: a handler for one of those classes may store
    the caught object; any other handler (the catch-all) must store a freshly constructed SSHException."""
    import ast
    import z3
    out = []
    fi = E.src.funcs["paramiko.transport.Transport.run"]
    allowed = {"SSHException", "EOFError", "socket.error", "OSError"}
    nstores = 0
    for n in ast.walk(fi.node):
        if not isinstance(n, ast.ExceptHandler):
            continue
        ty = ast.unparse(n.type) if n.type is not None else "<bare>"
        for a in ast.walk(n):
            if isinstance(a, ast.Assign) and any(isinstance(t, ast.Attribute) and t.attr == "saved_exception" for t in a.targets):
                nstores += 1
                v = a.value
                stores_caught = isinstance(v, ast.Name) and v.id == (n.name or "")
                # a local bound in the handler to SSHException(...) (wrapped = SSHException(...); self.saved_exception = wrapped)
                constructed = isinstance(v, ast.Call) and ast.unparse(v.func) == "SSHException"
                if isinstance(v, ast.Name) and not stores_caught:
                    for b in ast.walk(n):
                        if isinstance(b, ast.Assign) and any(isinstance(t, ast.Name) and t.id == v.id for t in b.targets) \
                                and isinstance(b.value, ast.Call) and ast.unparse(b.value.func) == "SSHException":
                            constructed = True
                ok = constructed or (stores_caught and ty in allowed)
                out.append(("capture::what_is_stored_for_the_api_is_an_ssh_eof_or_socket_exception(handler %s #%d)"
                            % (ty, nstores), [], z3.BoolVal(bool(ok))))
    out.append(("capture::handlers_store_the_exception", [], z3.BoolVal(nstores >= 4)))
    return out


CLAIMED = True
LEVEL_TEXT = ("Proof of exceptional postconditions on the real AST, for arbitrary peer messages: one arbitrary iteration of "
              "Transport.run's dispatch loop (message type symbolic, handlers by contract) ends normally or with SSHException "
              "/ EOFError / OSError - in particular every message handed to the packet layer has a type byte; "
              "Transport._ensure_authed returns None or a sendable refusal, or raises SSHException, and decodes nothing; "
              "Transport._parse_kex_init lets only IncompatiblePeer / MessageOrderError / SSHException escape for any KEXINIT "
              "content (name lists of any length); every init / reply handler of KexGroup1, KexGex, KexNistp256 and "
              "KexCurve25519 lets only SSHException (plus send / receive failures) escape - no ValueError from point "
              "decoding, no IndexError, no KeyError.")
LEVEL_NOTE = ("Scope: the dispatch loop, the pre-authentication gate, KEXINIT negotiation and the key-exchange handlers - the "
              "code an unauthenticated peer reaches first; four genuine escapes found there were repaired (fix commits recorded "
              "in known_findings.json). The handlers behind authentication and the connection protocol (about 40 call sites of "
              "Message.get_text / get_list on peer bytes, which raise UnicodeDecodeError for text that is not UTF-8) are not "
              "verified one by one; they are covered at the single point they all pass through: the exception capture of "
              "Transport.run stores for the API only SSHException / EOFError / socket errors - the catch-all wraps anything "
              "else (obligation over the handlers' AST; found failing on the pinned tree and repaired). Not covered: "
              "_check_banner; struct.error for fields of 4 GiB; exceptions raised on the caller's own thread. "
              "Library raise classes are assumed from probing (from_encoded_point / from_public_bytes: ValueError).")
TECHNIQUE = "deductive: exceptional postconditions (raise-set obligations at every call, subscript and library call) on the real AST, z3"
