"""C38 - peer protocol violations surface as SSH exceptions, not internal errors"""
from contracts import transport

ID = "C38"
T = "paramiko.transport.Transport."
TARGETS = [T + "_ensure_authed", transport.RUN_ITER]
REPLAY = {"capture": "c38.auth_reply_garbage", "_perform_exchange": "c38.low_order_curve25519_point", "*": "c38.replay_peer_garbage"}
MAX_PATHS = 20000


def setup(E):
    transport.declare_c38(E)
    from contracts import kex, negotiation
    import props.C08 as c08
    global TARGETS
    TARGETS = TARGETS[:2]
    # key-exchange handlers (contracts shared with C08): only the documented classes escape
    E2 = type(E)()
    kex.declare(E2)
    f2 = {c: dict(d["fields"]) for c, d in E2.classdecl.items()}
    for qn in c08.TARGETS:
        TARGETS.append((qn, "kex-handler", dict(E2.contracts[qn], **{
            "+replace": True, "+contracts": {k: v for k, v in E2.contracts.items() if k != qn}, "+fields": f2,
            "+engine": {"auto_opaque": True, "inline_ok": set(E2.inline_ok) | set(E.inline_ok),
                        "ghost_types": dict(E.ghost_types, **E2.ghost_types), "opaque_contracts": dict(E2.opaque_contracts)}})))
    # KEXINIT parsing / negotiation (contracts shared with C05)
    E3 = type(E)()
    negotiation.declare(E3)
    f3 = {c: dict(d["fields"]) for c, d in E3.classdecl.items()}
    qn = T + "_parse_kex_init"
    TARGETS.append((qn, "kexinit", dict(E3.contracts[qn], **{
        "+replace": True, "+contracts": {k: v for k, v in E3.contracts.items() if k != qn}, "+fields": f3,
        "+engine": {"auto_opaque": True, "inline_ok": set(E3.inline_ok) | set(E.inline_ok), "opaque_iter": dict(E3.opaque_iter),
                    "ghost_types": dict(E.ghost_types, **E3.ghost_types), "opaque_contracts": dict(E3.opaque_contracts)}})))


def lemmas(E):
    """what is stored for the API (Transport.saved_exception: raised by the auth calls / start_client, returned by
    get_exception) is an SSHException, an EOFError or a socket error, at EVERY place that stores it in transport.py and
    auth_handler.py.  Read off the AST: a store is fine when it stores (a) a freshly constructed exception of the
    SSHException family, (b) the object caught by a handler for SSHException / EOFError / socket errors, or (c) a local
    bound in the same handler to a freshly constructed SSHException (the catch-all of Transport.run).  The GSS-API sites,
    which store what the GSS library raised (no peer bytes are parsed there), are listed exemptions."""
    import ast
    import z3
    out = []
    allowed = {"SSHException", "EOFError", "socket.error", "OSError"}
    exempt = {"_handle_local_gss_failure", "_parse_userauth_gssapi_token", "_parse_userauth_gssapi_mic"}

    def ssh_family(call):
        if not isinstance(call, ast.Call):
            return False
        nm = ast.unparse(call.func).rsplit(".", 1)[-1]
        try:
            return any(x.endswith("ssh_exception.SSHException") for x in E.exc_mro(nm))
        except Exception:
            return nm == "SSHException"
    nstores = 0
    for qn, fi in sorted(E.src.funcs.items()):
        if fi.module not in ("paramiko.transport", "paramiko.auth_handler") or "::" in qn or ".<locals>." in qn:
            continue
        fname = qn.rsplit(".", 1)[-1]
        handlers = [n for n in ast.walk(fi.node) if isinstance(n, ast.ExceptHandler)]
        k = 0
        for a in ast.walk(fi.node):
            if not (isinstance(a, ast.Assign) and any(isinstance(t, ast.Attribute) and t.attr == "saved_exception" for t in a.targets)):
                continue
            v = a.value
            if isinstance(v, ast.Constant) and v.value is None:
                continue
            nstores += 1
            k += 1
            ok = ssh_family(v)
            if isinstance(v, ast.Name):
                for h in handlers:
                    inside = any(x is a for x in ast.walk(h))
                    if not inside:
                        continue
                    ty = ast.unparse(h.type) if h.type is not None else "<bare>"
                    if v.id == (h.name or "") and ty in allowed:
                        ok = True
                    for bnd in ast.walk(h):
                        if isinstance(bnd, ast.Assign) and any(isinstance(t, ast.Name) and t.id == v.id for t in bnd.targets) \
                                and ssh_family(bnd.value):
                            ok = True
            if fname in exempt:
                ok = True
            out.append(("capture::what_is_stored_for_the_api_is_an_ssh_eof_or_socket_exception(%s #%d)" % (qn.replace("paramiko.", ""), k),
                        [], z3.BoolVal(bool(ok))))
    out.append(("capture::stores_found", [], z3.BoolVal(nstores >= 6)))
    return out


CLAIMED = True
LEVEL_TEXT = ("Proof of exceptional postconditions on the real AST, for arbitrary peer messages: one arbitrary iteration of "
              "Transport.run's dispatch loop (message type symbolic, handlers by contract) ends normally or with SSHException "
              "/ EOFError / OSError - in particular every message handed to the packet layer has a type byte; "
              "Transport._ensure_authed returns None or a sendable refusal, or raises SSHException, and decodes nothing; "
              "Transport._parse_kex_init lets only IncompatiblePeer / MessageOrderError / SSHException escape for any KEXINIT "
              "content (name lists of any length); every init / reply handler of KexGroup1, KexGex, KexNistp256 and "
              "KexCurve25519 lets only SSHException (plus send / receive failures) escape - no ValueError from point "
              "decoding, no IndexError, no KeyError.")
LEVEL_NOTE = ("Scope: the dispatch loop, the pre-authentication gate, KEXINIT negotiation and the key-exchange handlers - the "
              "code an unauthenticated peer reaches first; four genuine escapes found there were repaired (fix commits recorded "
              "in known_findings.json). The handlers behind authentication and the connection protocol (about 40 call sites of "
              "Message.get_text / get_list on peer bytes, which raise UnicodeDecodeError for text that is not UTF-8) are not "
              "verified one by one; they are covered at the single point they all pass through: the exception capture of "
              "Transport.run stores for the API only SSHException / EOFError / socket errors - the catch-all wraps anything "
              "else - and so does every other store of saved_exception in transport.py / auth_handler.py (obligation over the "
              "AST of each store; the GSS-API sites, which store what the GSS library raised, are listed exemptions; found "
              "failing on the pinned tree and repaired). Not covered: "
              "_check_banner; struct.error for fields of 4 GiB; exceptions raised on the caller's own thread. "
              "Library raise classes are assumed from probing (from_encoded_point / from_public_bytes: ValueError).")
TECHNIQUE = "deductive: exceptional postconditions (raise-set obligations at every call, subscript and library call) on the real AST, z3"
