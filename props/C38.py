"""C38 - peer protocol violations surface as SSH exceptions, not internal errors"""
from contracts import transport

ID = "C38"
T = "paramiko.transport.Transport."
TARGETS = [T + "_ensure_authed", transport.RUN_ITER]
REPLAY = {"*": "c38.replay_peer_garbage"}
MAX_PATHS = 20000


def setup(E):
    transport.declare_c38(E)
    from contracts import kex, negotiation
    import props.C08 as c08
    global TARGETS
    TARGETS = TARGETS[:2]
    # key-exchange handlers (contracts shared with C08): only the documented classes escape
    E2 = type(E)()
    kex.declare(E2)
    f2 = {c: dict(d["fields"]) for c, d in E2.classdecl.items()}
    for qn in c08.TARGETS:
        TARGETS.append((qn, "kex-handler", dict(E2.contracts[qn], **{
            "+replace": True, "+contracts": {k: v for k, v in E2.contracts.items() if k != qn}, "+fields": f2,
            "+engine": {"auto_opaque": True, "inline_ok": set(E2.inline_ok) | set(E.inline_ok),
                        "ghost_types": dict(E.ghost_types, **E2.ghost_types), "opaque_contracts": dict(E2.opaque_contracts)}})))
    # KEXINIT parsing / negotiation (contracts shared with C05)
    E3 = type(E)()
    negotiation.declare(E3)
    f3 = {c: dict(d["fields"]) for c, d in E3.classdecl.items()}
    qn = T + "_parse_kex_init"
    TARGETS.append((qn, "kexinit", dict(E3.contracts[qn], **{
        "+replace": True, "+contracts": {k: v for k, v in E3.contracts.items() if k != qn}, "+fields": f3,
        "+engine": {"auto_opaque": True, "inline_ok": set(E3.inline_ok) | set(E.inline_ok), "opaque_iter": dict(E3.opaque_iter),
                    "ghost_types": dict(E.ghost_types, **E3.ghost_types), "opaque_contracts": dict(E3.opaque_contracts)}})))


CLAIMED = True
LEVEL_TEXT = ("Proof of exceptional postconditions on the real AST, for arbitrary peer messages: one arbitrary iteration of "
              "Transport.run's dispatch loop (message type symbolic, handlers by contract) ends normally or with SSHException "
              "/ EOFError / OSError - in particular every message handed to the packet layer has a type byte; "
              "Transport._ensure_authed returns None or a sendable refusal, or raises SSHException, and decodes nothing; "
              "Transport._parse_kex_init lets only IncompatiblePeer / MessageOrderError / SSHException escape for any KEXINIT "
              "content (name lists of any length); every init / reply handler of KexGroup1, KexGex, KexNistp256 and "
              "KexCurve25519 lets only SSHException (plus send / receive failures) escape - no ValueError from point "
              "decoding, no IndexError, no KeyError.")
LEVEL_NOTE = ("Scope: the dispatch loop, the pre-authentication gate, KEXINIT negotiation and the key-exchange handlers - the "
              "code an unauthenticated peer reaches first; four genuine escapes found there were repaired (fix commits recorded "
              "in known_findings.json). NOT covered: the handlers behind authentication and the connection protocol, where "
              "Message.get_text on peer bytes (about 40 call sites: disconnect text, request names, user names ...) raises "
              "UnicodeDecodeError for text that is not UTF-8 - those handlers have generic contracts here ('raise only the "
              "documented classes'), so this check does not decide them; _check_banner; struct.error for fields of 4 GiB. "
              "Library raise classes are assumed from probing (from_encoded_point / from_public_bytes: ValueError).")
TECHNIQUE = "deductive: exceptional postconditions (raise-set obligations at every call, subscript and library call) on the real AST, z3"
