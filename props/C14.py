"""C14 - a server grants authentication only with its own approval and valid proof"""
from contracts import auth, specs

ID = "C14"
AH = "paramiko.auth_handler.AuthHandler."
TARGETS = [AH + "_parse_userauth_request", AH + "_send_auth_result", AH + "_get_session_blob",
           "paramiko.auth_handler.GssapiWithMicAuthHandler._parse_userauth_gssapi_mic"]
REPLAY = {"*": "c14.replay_auth", "publickey_success_only_with_verified_signature": "c14.publickey_without_proof",
          "_parse_userauth_request": "c14.partial_publickey_is_not_success"}
MAX_PATHS = 30000


def setup(E):
    auth.declare(E)

CLAIMED = True
LEVEL_TEXT = ("Proof on the real AST of the server-side request handler for every method branch (none, password, publickey, "
              "keyboard-interactive, gssapi-with-mic, gssapi-keyex, unknown): _send_auth_result - the only writer of "
              "'authenticated' and sender of USERAUTH_SUCCESS - has the precondition 'result == SUCCESS implies the "
              "application callback for this username returned SUCCESS', checked at each call site against ghost state "
              "recorded by the callback contracts; for publickey additionally a verify_ssh_sig that returned True over "
              "exactly the blob _get_session_blob builds, and that blob is proved to be string(session_id) || 50 || "
              "string(user) || string(service) || 'publickey' || 1 || string(algorithm) || string(key bits). verify_ssh_sig may raise (SSHException, ValueError, anything): the handler must not turn that into a success.")
LEVEL_NOTE = ("Assumed: ServerInterface callbacks return arbitrary values (recorded, never trusted); verify_ssh_sig is an "
              "uninterpreted predicate of (key, data, signature) - real signature checking is C35/C07; peer message fields "
              "are unconstrained values (reader contracts without cases). The interactive-response handler is not in the "
              "target list yet.")
TECHNIQUE = "deductive: typestate ghost (application verdict, verified blob) + call-site preconditions, z3"
