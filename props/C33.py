"""C33 - SFTP file attributes survive encoding and decoding"""
import os
from contracts import message, specs

ID = "C33"
L = "lemmas.c33."
M = "paramiko.message.Message."
# the Message methods _pack/_unpack go through are verified here too (same contracts as C39), so that a change to
# one of them is decided by this check and not only by its sibling (seed C33-c)
TARGETS = [M + n for n in ("add_int", "add_int64", "add_string", "get_bytes", "get_int", "get_int64", "get_string",
                           "get_remainder")] + \
          [L + "roundtrip_scalars", L + "roundtrip_extended", L + "decodes_are_independent"]
REPLAY = {"*": "c33.replay_roundtrip", "decodes_are_independent": "c33.decodes_are_independent"}
MAX_PATHS = 20000


def setup(E):
    message.declare(E)
    here = os.path.dirname(os.path.dirname(os.path.abspath(__file__)))
    E.src.add_file(os.path.join(here, "contracts", "lemmas_c33.py"), "lemmas.c33")
    E.declare_class("paramiko.sftp_attr.SFTPAttributes", {})
    E.inline("paramiko.sftp_attr.SFTPAttributes.__init__", "paramiko.sftp_attr.SFTPAttributes._pack",
             "paramiko.sftp_attr.SFTPAttributes._unpack")
    E.contract(L + "roundtrip_scalars",
               params={"size": "opt[u64]", "uid": "opt[u32]", "gid": "opt[u32]", "mode": "opt[u32]",
                       "atime": "opt[u32]", "mtime": "opt[u32]"}, raises={})
    E.contract(L + "roundtrip_extended",
               params={"size": "opt[u64]", "n": "int[0,3)", "k1": "bytes", "v1": "bytes", "k2": "bytes", "v2": "bytes"},
               requires=["len(k1) < 2**32", "len(v1) < 2**32", "len(k2) < 2**32", "len(v2) < 2**32"],
               raises={})
    E.contract(L + "decodes_are_independent", params={"size": "opt[u64]", "k1": "bytes", "v1": "bytes"},
               requires=["len(k1) < 2**32", "len(v1) < 2**32"], raises={})

CLAIMED = True
LEVEL_TEXT = ("Proof by symbolic execution of the real _pack and _unpack bodies between Message contracts: for every "
              "combination of present/absent size, uid+gid, permissions, times (all values symbolic) the decoded object "
              "has the same fields, absent fields stay None and each flag bit is set exactly for the present field; the "
              "extended-attribute map round-trips with symbolic names and values; objects are independent: an attribute set decoded "
              "(or built) after one carrying extended attributes has none of them and re-encodes none (lemma program with "
              "two decodes in a row - each object owns its map).")
LEVEL_NOTE = ("Extended-attribute maps are covered for sizes 0, 1 and 2 only (bounded in the number of entries, unbounded in "
              "their contents); st_atime/st_mtime are taken as integers (int(float) truncation is CPython's); the Message "
              "methods _pack/_unpack use carry the C39 contracts and are verified against their real bodies in this check as "
              "well; dict iteration order = insertion order.")
TECHNIQUE = "deductive: lemma program executing the real _pack/_unpack AST against Message contracts, z3"
