"""C04 - session keys follow the RFC 4253 section 7.2 derivation and match across the two peers"""
from contracts import kdf

ID = "C04"
T = "paramiko.transport.Transport."
TARGETS = [(T + "_compute_key", "own-body", {"cases": []}), T + "_activate_inbound", T + "_activate_outbound",
           (T + "_get_engine", "own-body", kdf.GET_ENGINE_OWN),
           "paramiko.packet.Packetizer.set_inbound_cipher", "paramiko.packet.Packetizer.set_outbound_cipher"]
REPLAY = {"_compute_key": "c04.replay_compute_key", "_activate_": "c04.replay_activate", "_get_engine": "c04.replay_activate",
          "set_inbound_cipher": "c04.replay_activate", "set_outbound_cipher": "c04.replay_activate"}
SEARCH = {"_compute_key": "c04.search_compute_key"}
EXTRA_AXIOMS = kdf.KS_AXIOMS
MAX_PATHS = 40000


def setup(E):
    kdf.declare_activate(E)

def lemmas(E):
    import z3
    from pyvc import smt
    from pyvc.extract import dec
    out = []
    # (1) distinct letters give distinct first hash inputs, whatever K, H and the session id are: with an ideal hash the
    #     six keys of one exchange are pairwise independent, in particular the two directions never share one
    P, S, X1, X2 = z3.Consts("lemP lemS lemX1 lemX2", smt.Seq)
    hyp = [smt.slen(X1) == 1, smt.slen(X2) == 1, smt.sat_(X1, 0) != smt.sat_(X2, 0), smt.slen(P) >= 0, smt.slen(S) >= 0]
    # (stated at the differing position, which implies the two strings differ)
    out.append(("distinct_letters_give_distinct_hash_inputs", hyp,
                smt.sat_(smt.scat(smt.scat(P, X1), S), smt.slen(P)) != smt.sat_(smt.scat(smt.scat(P, X2), S), smt.slen(P))))
    # (2) the stream is prefix-stable: cutting it after one more digest does not change its first n bytes
    a, L, n = z3.Ints("lema lemL lemn")
    KS, dl, dg = kdf._KS, kdf._dl, kdf._dg
    out.append(("key_stream_prefix_stable",
                [L >= dl(a), n >= 0, n <= L, smt.slen(KS(a, P, X1, S, L)) == L,
                 smt.slen(dg(a, smt.scat(P, KS(a, P, X1, S, L)))) >= 1],      # names the next digest (trigger term)
                smt.seqeq(smt.sslice(KS(a, P, X1, S, L + dl(a)), 0, n), smt.sslice(KS(a, P, X1, S, L), 0, n))))
    # (3) table obligations: the sizes in the real _cipher_info are the sizes the algorithms need
    attrs = E.tables["classes"]["paramiko.transport.Transport"]["attrs"]
    for name, info in sorted(dec(attrs["_cipher_info"]).items()):
        ks, bs, iv = info["key-size"], info["block-size"], info.get("iv-size", info["block-size"])
        if name.startswith("aes"):
            ok = ks * 8 == int(name[3:6]) and bs == 16 and iv == (12 if "gcm" in name else 16)
        elif name.startswith("3des"):
            ok = ks == 24 and bs == 8 and iv == 8
        else:
            ok = False      # an algorithm this check does not know: extend the table obligation with its true sizes
        out.append(("table::cipher_sizes_match_the_algorithm[%s]" % name, [], z3.BoolVal(bool(ok))))
        out.append(("table::aead_flag_only_on_gcm[%s]" % name, [], z3.BoolVal(bool(info.get("is_aead", False)) == ("gcm" in name))))
    return out


CLAIMED = True
LEVEL_TEXT = ("Proof on the real AST. _compute_key: for every shared secret, exchange hash, session id, letter, hash and length, "
              "the result is the first nbytes of the RFC 4253 section 7.2 key stream K1 || K2 || ... (loop invariant over the "
              "recursive specification KS, variant nbytes - len(out); the stream is shown prefix-stable). _activate_inbound / "
              "_activate_outbound: for every cipher and MAC entry (tables abstract, so any table), the cipher context is keyed "
              "with letter C/D, its IV (or the AES-GCM nonce) is letter A/B and the MAC key letter E/F in the hash's full "
              "digest length, client-to-server traffic always taking A, C, E and server-to-client B, D, F - hence a client's "
              "outbound keys are the server's inbound keys and vice versa; _get_engine builds the context from exactly that "
              "key, IV and direction; set_inbound_cipher / set_outbound_cipher install exactly what they are given. Distinct "
              "letters give distinct hash inputs (lemma), so with an ideal hash the two directions never share a key.")
LEVEL_NOTE = ("Assumed: hash objects digest the bytes they were constructed with (uninterpreted digest of positive length); "
              "cryptography's algorithm / mode / Cipher objects use the key, IV and direction passed to them; both peers agree "
              "on K, H, session id and algorithm names (C05, C06); 'never share a key' additionally needs the hash to be "
              "collision free on the distinct inputs (ideal hash, stated). _compute_key's callers see its result as the "
              "deterministic function kdf(hash, K, H, letter, session id, n) - the function is side-effect free apart from a "
              "logging flag. Table obligations tie today's _cipher_info sizes to the algorithms' true key / block / IV sizes.")
TECHNIQUE = "deductive: loop invariant over a recursive specification function (uninterpreted hash), modular contracts, z3"
