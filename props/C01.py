"""C01 - the encrypted packet layer delivers exactly the message stream that was sent"""
from contracts import packet_io, packet_frames

ID = "C01"
P = "paramiko.packet.Packetizer."
TARGETS = [P + "read_all", P + "write_all", "paramiko.util.constant_time_bytes_eq"]
TARGETS += [(P + "send_message", "%s-bs%d%s" % (m, bs, "-zlib" if z else ""), packet_frames.send_contract(m, bs, z))
            for m, bs, z in packet_frames.SEND_VARIANTS]
TARGETS += [(P + "read_message", "%s-bs%d%s" % (m, bs, "-zlib" if z else ""), packet_frames.read_contract(m, bs, z))
            for m, bs, z in packet_frames.READ_VARIANTS]
REPLAY = {"*": "c01.replay_stream"}
SEARCH = {"*": "c01.search_stream"}
MAX_PATHS = 20000


TARGETS += [("lemmas.c01.one_message", "%s-bs%d%s" % (m, bs, "-zlib" if z else ""), packet_frames.lemma_contract(m, bs, z))
            for m, bs, z in packet_frames.READ_VARIANTS]


def setup(E):
    import os
    packet_frames.declare_common(E)
    E.src.add_file(os.path.join(os.path.dirname(os.path.dirname(os.path.abspath(__file__))), "contracts", "lemmas_c01.py"), "lemmas.c01")
    E.contract("lemmas.c01.deliver", argnames=["m"], returns="none")
    E.contract("lemmas.c01.one_message", **{k: v for k, v in packet_frames.lemma_contract("classic", 16, False).items() if not k.startswith("+")})

CLAIMED = True
LEVEL_TEXT = ("Proof on the real AST, function by function. read_all returns exactly the next n bytes of the incoming stream "
              "for every way recv() cuts it (loop invariant, over-read bytes first, NeedRekeyException only before "
              "anything was consumed); write_all puts the whole buffer on the socket in order under every pattern of partial "
              "sends, time-outs and EAGAIN; send_message appends exactly one frame of the packet built by _build_packet "
              "(C03) in each framing mode - none, classic, encrypt-then-MAC, AES-GCM, with and without compression, block "
              "sizes 8 and 16, every payload length - as specified from RFC 4253 section 6 / RFC 5647; read_message, given a "
              "stream that starts with such a frame from a sender keyed alike and in step, returns exactly that packet's "
              "payload (type byte and body), consumes exactly that frame, and raises SSHException only for sequence-number "
              "wrap during the first key exchange or a peer ignoring re-key; both advance sequence number, cipher stream "
              "position, nonce and compression stream identically. A lemma program (clients of those two contracts only) "
              "shows one message through a sender and receiver in step arrives unchanged and leaves them in step again; "
              "induction over the message sequence is immediate. constant_time_bytes_eq(a, b) == (a == b) for all lengths.")
LEVEL_NOTE = ("Assumed (uninterpreted crypto, DESIGN section 4): a decryptor keyed like an encryptor inverts it at the same "
              "stream position for any cut at block boundaries; AES-GCM decrypt inverts encrypt under the same nonce and "
              "associated data; HMAC is a function of key, message and hash; the zlib decompressor stream inverts the "
              "compressor stream message by message and expands by at most 2n+64; os.urandom / struct.pack as in C03. "
              "Argued, not machine-checked: at a key change both ends install the same parameters for a direction at the "
              "same point of its message sequence (right after NEWKEYS; parameters equal by C04/C05), which re-establishes "
              "the in-step relation with fresh stream positions. The receiver proof takes the over-read remainder as empty "
              "(read_all's own contract shows over-read bytes are consumed first). Single reader thread, write lock held "
              "by send_message as in the code. AES-GCM nonce counter below 2**64 - 1 (OverflowError otherwise).")
TECHNIQUE = "deductive: contracts per function on the real AST, wire-format specification functions, lemma program over callee contracts, z3"
