"""C37 - malformed private key files fail with SSHException"""
from contracts import pkeyfile

ID = "C37"
P = "paramiko.pkey.PKey."
TARGETS = ["paramiko.pkey._unpad_openssh", P + "_read_private_key", P + "_read_private_key_openssh"]
TARGETS += [(P + "_uint32_cstruct_unpack", "format-" + f, pkeyfile.own_cstruct(f)) for f in ("sssur", "ss", "su", "uusr")]
TARGETS += ["paramiko.ed25519key.Ed25519Key.__init__::part[parse-key-file]"]
# (the text-mode read inside _read_private_key is converted there - own body above; the chain over msg / filename / file_obj
#  around it adds nothing that escapes)
TARGETS += ["paramiko.ed25519key.Ed25519Key.__init__::part[read-key-file]"]
TARGETS += ["paramiko.rsakey.RSAKey._decode_key", (P + "_read_private_key_file", "text-mode-read", pkeyfile.own_read_file())]
TARGETS += [(P + "_read_private_key_pem::part[decrypt]", "envelope", pkeyfile.own_pem_decrypt())]
BOUNDED = [("c37.encrypted_and_odd_files", "files damaged in the encryption envelope, loaded with a password (DEK-Info salt not hex / "
            "wrong size, ciphertext not a whole number of blocks), key files and caller-supplied text file objects over bytes that are "
            "not text, OpenSSH-format Ed25519 keys naming an AEAD cipher (Ed25519Key._parse_signing_key_data is an assumed contract)"),
           ("c37.body_with_wide_characters", "non-ASCII characters inside the base64 body, 5 bundled key files x 4 characters x 4 "
            "places x both entry points")]
REPLAY = {"*": "c37.replay_keyfiles", "_read_private_key_pem": "c37.body_with_wide_characters", "Ed25519Key": "c37.encrypted_and_odd_files",
          "_read_private_key_openssh": "c37.body_with_wide_characters", "_decode_key": "c37.decode_wrong_material", "_read_private_key_file": "c37.decode_wrong_material"}
MAX_PATHS = 20000


def setup(E):
    pkeyfile.declare_ed25519(E)
    pkeyfile.declare_decode(E)


CLAIMED = True
LEVEL_TEXT = ("Proof of exceptional postconditions on the real AST, for every byte / line content of the file: _unpad_openssh, "
              "_uint32_cstruct_unpack (each format string used: sssur, ss, su, uusr), PKey._read_private_key (BEGIN / END tag "
              "search over a list of lines of any length: every index is shown to be in range) and "
              "PKey._read_private_key_openssh let only SSHException or PasswordRequiredException escape - no IndexError from "
              "subscripts, no struct.error, and the ValueError / binascii.Error / UnicodeDecodeError that bcrypt, the cipher "
              "context, base64 and text decoding raise on malformed input are all converted; Ed25519Key's constructor "
              "(statement-range fragment around its parser call) converts the parser's internal AssertionError / TypeError / "
              "ValueError / UnicodeDecodeError into SSHException. RSAKey._decode_key turns numbers that do not fit together (the library's ValueError, a zero divisor) "
              "and a key of another type inside the block into SSHException; PKey._read_private_key_file turns the text-mode read's "
              "UnicodeDecodeError into SSHException; PKey._read_private_key itself converts the UnicodeDecodeError of f.readlines() (a caller's "
              "text-mode file object over bytes that are not text); the decryption part of PKey._read_private_key_pem (statement-range "
              "fragment from the cipher-table lookups to the unpadding) lets only SSHException escape although the salt string and the "
              "ciphertext come from the file (unhexlify, the cipher constructor, the decryptor and the unpadder may each raise ValueError); "
              "the if / elif chain of Ed25519Key.__init__ that reads the file (fragment) adds nothing that escapes.")
LEVEL_NOTE = ("The header loop of _read_private_key_pem (a dict with keys taken from the file) is outside the engine's subset: only its "
              "decryption part is under contract. ECDSAKey._decode_key's type check (fix f5d5686) is covered by the native battery only (decode_wrong_material), not by "
              "an obligation. Library exception classes are assumed from probing (bcrypt.kdf: ValueError for rounds < 1 or empty salt / "
              "password; CBC finalize: ValueError for a length that is not a multiple of 16; base64: binascii.Error). "
              "Ed25519Key._parse_signing_key_data's own raise set is an assumed contract (with its two local lists made abstract "
              "containers the engine accepts the function, but the concrete cipher table times the two loops did not finish exploring in "
              "25 minutes - tried and withdrawn), replayed natively with crafted files incl. every cipher name of the transport table. Not decided: the "
              "traditional PEM path inside cryptography (RSAKey._decode_key / ECDSAKey._decode_key), 'never yields a key "
              "whose halves disagree', and run time (a huge bcrypt round count makes loading very slow rather than failing).")
TECHNIQUE = "deductive: exceptional postconditions (no-raise obligations at every subscript and library call) on the real AST, z3"
