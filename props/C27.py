"""C27 - remote SFTP files behave like local Python binary files"""
from contracts import sftp_pos, sftp_handle

ID = "C27"
F = "paramiko.sftp_file.SFTPFile."
B = "paramiko.file.BufferedFile."
TARGETS = [F + "_write", B + "tell", F + "seek", B + "_write_all", F + "truncate"]
REPLAY = {"*": "c27.replay_programs", "SFTPHandle": "c27.server_handle_offsets"}


def setup(E):
    sftp_pos.declare(E)
    global TARGETS
    # the server side of an open file, in its own contract environment
    E3 = type(E)()
    sftp_handle.declare(E3)
    TARGETS = [t for t in TARGETS if not (isinstance(t, tuple) and t[1] == "server-handle")]
    for fn in ("__init__", "read", "write"):
        qn = "paramiko.sftp_handle.SFTPHandle." + fn
        TARGETS.append((qn, "server-handle", dict(E3.contracts[qn], **{
            "+replace": True, "+contracts": {k: v for k, v in E3.contracts.items() if k != qn},
            "+fields": {k: dict(d["fields"]) for k, d in E3.classdecl.items()},
            "+engine": {"auto_opaque": True, "ghost_types": dict(E.ghost_types, **E3.ghost_types)}})))
    # BufferedFile.read / readline with their C42 contracts (loops and all) plus the clause a local file satisfies:
    # data written earlier and still buffered goes out before anything is read
    from contracts import bufferedfile
    E2 = type(E)()
    bufferedfile.declare(E2)
    TARGETS = [t for t in TARGETS if not (isinstance(t, tuple) and t[1] == "writes-first")]
    for fn in ("read", "readline"):
        qn = B + fn
        c = dict(E2.contracts[qn])
        c["ensures"] = {"data_written_earlier_goes_out_before_anything_is_read": "len(self._wbuffer.getvalue()) == 0"}
        TARGETS.append((qn, "writes-first", dict(c, **{
            "+replace": True, "+contracts": {k: v for k, v in E2.contracts.items() if k != qn},
            "+fields": {k: dict(d["fields"]) for k, d in E2.classdecl.items()},
            "+engine": {"ghost_types": dict(E.ghost_types, **E2.ghost_types), "inline_ok": set(E2.inline_ok) | set(E.inline_ok)}})))


CLAIMED = True
LEVEL_TEXT = ("The statement is a differential one over all programs; contracts decide it clause by clause on the position "
              "bookkeeping every operation goes through, with the invariant _realpos == _pos + len(read-ahead): "
              "SFTPFile._write tells the server to write at the position the caller sees (tell()), dropping any read-ahead, "
              "one request of at most 32768 bytes; BufferedFile._write_all moves the position by exactly what was written "
              "(in append mode: to the new end of file) and leaves no read-ahead behind; tell() counts data still in the "
              "write buffer; SFTPFile.seek flushes buffered writes first, puts both positions at the target for all three "
              "whence values (SEEK_END relative to the size the server reports), drops read-ahead and refuses a position "
              "before the start; SFTPFile.truncate flushes buffered writes before the size change reaches the server and keeps no "
              "read-ahead from before it. With C42 (read/readline return the next bytes of the stream, position advanced by their "
              "length) and C28 (SFTPFile._read returns the file's bytes at the underlying position) every read returns the "
              "bytes at tell() and every write lands at tell(). Two obligations fail on the real code and are listed known "
              "findings: read() and readline() do not flush data written earlier with buffering on.")
LEVEL_NOTE = ("Level 'other' while the findings are open. NOT decided by contracts: readlines/iteration (readline "
              "plus an emptiness test), mode 'x' creation, close; server side SFTPHandle offset tracking. Labelled bounded "
              "stand-in for the statement as a whole (thorough tier): harness c27.replay_programs - random programs of up to "
              "12 operations, modes r/r+/w/w+/a/a+, bufsize -1/0/1/2/64/8192/65536, pipelined or not, against a real "
              "SFTPServer and a local file, restricted to programs that flush between a buffered write and a read (the "
              "listed finding) and, in append mode, before tell() (CPython reports a position no byte ever has). In append "
              "mode the cached end-of-file position is documented as approximate (not compared after a truncate). Four "
              "defects found on the pinned tree are repaired (fix commits c31ec7c, 52e31a6, 51232e5, 2ecac14).")
TECHNIQUE = ("deductive: position-coherence invariant and ghost request address on the real AST, z3; known-finding filter with "
             "native witness programs; differential replay against a local file")
BOUNDED = [("c27.replay_programs", "differential programs against a local file (bounded stand-in for the statement as a whole)")]
