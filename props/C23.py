"""C23 - live channel IDs are unique within a transport and fit in 24 bits"""
import ast
import z3
from contracts import transport

ID = "C23"
TARGETS = ["paramiko.transport.Transport._next_channel"]
REPLAY = {"*": "c23.replay_next_channel"}
CLAIMED = True
LEVEL_TEXT = ("Proof for every counter value and every set of live ids (uninterpreted predicate): _next_channel returns an "
              "id that is not live, lies in [0, 2^24), advances the counter modulo 2^24 and terminates (variant: cyclic "
              "distance to a free id); every call site in the package is proved to sit inside "
              "lock.acquire()/try/finally release() by a structural obligation on the real AST.")
LEVEL_NOTE = ("Assumed: ChannelMap.get(id) is None exactly for ids not live (weak references die only with the channel); "
              "threading.Lock gives mutual exclusion. Argued, not proved: an id handed out but not yet registered "
              "cannot be handed out again before 2^24 further allocations (counter moves past it).")
TECHNIQUE = "deductive: loop invariant + variant on the real AST, z3; structural lock-dominance obligations"
ARGUED = ["pending (allocated, not yet registered) ids stay unique because the counter only moves forward cyclically"]


def setup(E):
    transport.declare(E)
    transport.declare_c23(E)


def _call_sites(E):
    """every call of _next_channel in the package, with the chain of enclosing statements"""
    sites = []
    for qn, fi in sorted(E.src.funcs.items()):
        parents = {}
        for n in ast.walk(fi.node):
            for ch in ast.iter_child_nodes(n):
                parents[id(ch)] = n
        for n in ast.walk(fi.node):
            if isinstance(n, ast.Call) and isinstance(n.func, ast.Attribute) and n.func.attr == "_next_channel":
                sites.append((qn, fi, n, parents))
    return sites


def _is_lock_call(stmt, meth):
    return (isinstance(stmt, ast.Expr) and isinstance(stmt.value, ast.Call)
            and ast.unparse(stmt.value.func) == "self.lock." + meth)


def lemmas(E):
    out = []
    sites = _call_sites(E)
    out.append(("structure::next_channel_has_call_sites", [], z3.BoolVal(len(sites) >= 1)))
    counts = {}
    for qn, fi, call, parents in sites:
        k = counts.get(qn, 0)
        counts[qn] = k + 1
        # climb to the enclosing Try whose finalbody releases self.lock and which directly follows self.lock.acquire()
        ok = False
        n = call
        while id(n) in parents:
            p = parents[id(n)]
            if isinstance(p, ast.Try) and any(_is_lock_call(s, "release") for s in p.finalbody) and n in p.body:
                gp = parents.get(id(p))
                for field in ("body", "orelse", "finalbody"):
                    blk = getattr(gp, field, None)
                    if isinstance(blk, list) and p in blk:
                        i = blk.index(p)
                        if i > 0 and _is_lock_call(blk[i - 1], "acquire"):
                            ok = True
                break_outer = ok
                if break_outer:
                    break
            n = p
        out.append(("structure::lock_held_at(%s::call(_next_channel)#%d)" % (qn, k), [], z3.BoolVal(ok)))
    return out
