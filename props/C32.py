"""C32 - SFTP check-file returns the correct hashes for the requested ranges"""
from contracts import sftp_server, specs

ID = "C32"
TARGETS = ["paramiko.sftp_server.SFTPServer._check_file"]
REPLAY = {"*": "c32.replay_check_file"}
EXTRA_AXIOMS = specs.BLOCK_HASH_AXIOMS
MAX_PATHS = 20000


def setup(E):
    sftp_server.declare_c32(E)

CLAIMED = True
LEVEL_TEXT = ("Proof with nested loop invariants and variants on the real _check_file, for every file content, start, length "
              "and block size: the reply carries sum_out with sum_out ++ G(offset) == G(start) maintained by the block loop, "
              "where G(o) is the specification 'hashes of the consecutive blocks from o to the end of the range'; the chunk "
              "loop hashes exactly file[block_start:block_start+blocklen] however the handle cuts its reads; the range is "
              "clamped at end of file when the length is zero or runs past it; block sizes under 256 are refused; both loops "
              "terminate (variants), and exactly one response is sent on every path.")
LEVEL_NOTE = ("Assumed: SFTPHandle.read(offset, n) returns a non-empty prefix of file[offset:offset+n] while offset is before "
              "end of file (or an error code), stat() reports the true size, hash objects digest the concatenation of their "
              "updates (uninterpreted digest). The algorithm list is modelled with one entry (bounded in the list length). "
              "G is an uninterpreted function with its unfolding axioms; its meaning is validated natively against hashlib.")
TECHNIQUE = "deductive: nested loop invariants + variants over a recursive specification function, z3 (E-matching)"
