"""C32 - SFTP check-file returns the correct hashes for the requested ranges"""
from contracts import sftp_server, specs

ID = "C32"
TARGETS = ["paramiko.sftp_server.SFTPServer._check_file"]
REPLAY = {"*": "c32.replay_check_file"}
EXTRA_AXIOMS = specs.BLOCK_HASH_AXIOMS
MAX_PATHS = 20000


def setup(E):
    sftp_server.declare_c32(E)
    # _check_file reads the file through SFTPHandle.read: that read returns the file's bytes at the requested offset given
    # the handle's representation invariant (its idea of the file position is the real one or none), which the constructor
    # establishes - own bodies, contract shared with C27
    from contracts import sftp_handle
    E3 = type(E)()
    sftp_handle.declare(E3)
    global TARGETS
    TARGETS = [t for t in TARGETS if not (isinstance(t, tuple) and t[1] == "server-handle")]
    for fn in ("__init__", "read"):
        qn = "paramiko.sftp_handle.SFTPHandle." + fn
        TARGETS.append((qn, "server-handle", dict(E3.contracts[qn], **{
            "+replace": True, "+contracts": {k: v for k, v in E3.contracts.items() if k != qn},
            "+fields": {k: dict(d["fields"]) for k, d in E3.classdecl.items()},
            "+engine": {"auto_opaque": True, "ghost_types": dict(E3.ghost_types)}})))

CLAIMED = True
LEVEL_TEXT = ("Proof with nested loop invariants and variants on the real _check_file, for every file content, start, length "
              "and block size: the reply carries sum_out with sum_out ++ G(offset) == G(start) maintained by the block loop, "
              "where G(o) is the specification 'hashes of the consecutive blocks from o to the end of the range'; the chunk "
              "loop hashes exactly file[block_start:block_start+blocklen] however the handle cuts its reads; the range is "
              "clamped at end of file when the length is zero or runs past it; block sizes under 256 are refused; both loops "
              "terminate (variants), and exactly one response is sent on every path.")
LEVEL_NOTE = ("SFTPHandle.read(offset, n) returns a non-empty prefix of file[offset:offset+n] while offset is before "
              "end of file (or an error code): verified on SFTPHandle.read and SFTPHandle.__init__ (position-cache invariant, shared with C27) over an abstract file object. Assumed: stat() reports the true size, hash objects digest the concatenation of their "
              "updates (uninterpreted digest). The algorithm list is modelled with one entry (bounded in the list length). "
              "G is an uninterpreted function with its unfolding axioms; its meaning is validated natively against hashlib.")
TECHNIQUE = "deductive: nested loop invariants + variants over a recursive specification function, z3 (E-matching)"
