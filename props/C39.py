"""C39 - SSH wire encoding round-trips and integers are encoded canonically"""
import os
import z3
from contracts import message, specs

ID = "C39"
M = "paramiko.message.Message."
L = "lemmas.c39."
TARGETS = [M + n for n in (
    "add_bytes", "add_byte", "add_boolean", "add_int", "add_int64", "add_string",
    "get_bytes", "get_byte", "get_boolean", "get_int", "get_int64", "get_string", "get_binary", "get_text",
    "get_so_far", "get_remainder", "rewind", "add_mpint", "get_mpint", "add_adaptive_int", "get_adaptive_int")] + [L + n for n in (
    "roundtrip_int", "roundtrip_int64", "roundtrip_boolean", "roundtrip_string", "roundtrip_binary", "roundtrip_text",
    "roundtrip_byte", "sequence_in_order", "roundtrip_mpint", "roundtrip_adaptive_int")]
REPLAY = {"add_mpint": "c39.replay_add_mpint"}
EXTRA_AXIOMS = specs.MPINT_AXIOMS


def setup(E):
    message.declare(E)
    message.declare_mpint(E)
    here = os.path.dirname(os.path.dirname(os.path.abspath(__file__)))
    E.src.add_file(os.path.join(here, "contracts", "lemmas_c39.py"), "lemmas.c39")
    B = {"prefix": "bytes", "suffix": "bytes"}
    small = ["len(prefix) < 2**20", "len(suffix) < 2**20"]
    E.contract(L + "roundtrip_int", params=dict(B, v="u32"), requires=small, raises={})
    E.contract(L + "roundtrip_int64", params=dict(B, v="u64"), requires=small, raises={})
    E.contract(L + "roundtrip_boolean", params=dict(B, v="bool"), requires=small, raises={})
    E.contract(L + "roundtrip_string", params=dict(B, v="bytes"), requires=small + ["len(v) < 2**32"], raises={})
    E.contract(L + "roundtrip_binary", params=dict(B, v="bytes"), requires=small + ["len(v) < 2**32"], raises={})
    E.contract(L + "roundtrip_text", params=dict(B, v="str"), requires=small + ["len(utf8enc(v)) < 2**32"], raises={})
    E.contract(L + "roundtrip_byte", params=dict(B, v="bytes"), requires=small + ["len(v) == 1"], raises={})
    E.contract(L + "roundtrip_mpint", params=dict(B, v="int"), requires=small + ["len(mpint_spec(v)) < 2**32"], raises={})
    E.contract(L + "roundtrip_adaptive_int", params=dict(B, v="nat"), requires=small + ["len(mpint_spec(v)) < 2**32"], raises={})
    E.contract(L + "sequence_in_order", params={"a": "u32", "b": "bytes", "c": "bool", "d": "u64"},
               requires=["len(b) < 2**32"], raises={})

BOUNDED = [("c39.validate_spec", "util.deflate_long / util.inflate_long against the mpint specification functions at every "
            "byte and sign boundary up to 4096 bits (contracts of these two functions are otherwise assumed)")]
CLAIMED = True
LEVEL_TEXT = ("Proof over all values, prefixes and suffixes: every Message writer appends exactly the specified encoding "
              "(behaviour contracts verified on the real AST), every reader returns the decoded value and advances the "
              "position, get_so_far()+get_remainder() is the whole buffer; round trips (byte, boolean, uint32, uint64, "
              "string, binary, text, mpint, adaptive int, a mixed sequence in order) are lemma programs checked against the contracts "
              "only. add_mpint emits RFC 4251's canonical form incl. zero = empty string, relative to the "
              "deflate_long/inflate_long contracts.")
LEVEL_NOTE = ("Assumed: io.BytesIO model (write at end appends, read returns the slice), struct big-endian pack/unpack "
              "inverse, utf-8 encode/decode inverse. util.deflate_long/inflate_long are NOT proved: their contracts "
              "against the specification functions mpint_spec/tcval are assumed and backed by a bounded native check "
              "(labelled bounded). Name-lists (join/split on commas) are not covered yet.")
TECHNIQUE = "deductive: behaviour contracts + lemma programs over contracts, VCs from the real AST, z3/cvc5"
