"""C45 - agent signing requests ask for the hash the caller requested"""
from contracts import message, agent, specs

ID = "C45"
A = "paramiko.agent."
TARGETS = [A + "AgentKey.sign_ssh_data", A + "AgentSSH._send_message", A + "AgentSSH._read_all"]
REPLAY = {"sign_ssh_data": "c45.replay_sign", "AgentKey": "c45.sign_twice"}


def setup(E):
    message.declare(E)
    agent.declare(E)
    # reply type other than SSH2_AGENT_SIGN_RESPONSE (14) must raise: stated as: a normal return implies type 14
    c = E.contracts[A + "AgentKey.sign_ssh_data"]
    c["ensures"]["only_sign_response_accepted"] = "ghost('reply_type') == 14"
    c["requires"]["fresh"] = "not ghost('stream_short')"
    E.declare_ghost(reply_type="int")
    E.contracts[A + "AgentSSH._send_message"]["ghost"]["reply_type"] = "result[0]"

CLAIMED = True
LEVEL_TEXT = ("Proof for every data string and every algorithm name: the bytes handed to the agent connection are exactly "
              "uint32(len) || 13 || string(key blob) || string(data) || uint32(flags) with flags 2/4 for the four rsa-sha2 "
              "names (the spec's literals, not the code's table) and 0 otherwise; a normal return implies reply type 14 and "
              "returns the reply's string field unchanged; _send_message frames the request and takes the next frame of the "
              "reply stream; _read_all's loop (invariant + variant) returns exactly the next `wanted` bytes however recv "
              "cuts the stream.")
LEVEL_NOTE = ("Assumed: the connection is an ordered byte stream (recv returns a prefix of what is pending, send takes "
              "everything); AgentKey.asbytes() is an uninterpreted blob < 2^20 bytes (for certificates it is the inner "
              "key's bytes, as the code comments); Message methods through their C39 contracts; data < 2^31 bytes.")
TECHNIQUE = "deductive: contracts + ghost wire state, loop invariant for _read_all, VCs from the real AST, z3"
