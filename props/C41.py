"""C41 - known-hosts lookup, save and reload agree and loading is idempotent (the duplicate-suppression loop of load)"""
from pyvc.values import VRef
from contracts import specs

ID = "C41"
FRAG = "paramiko.hostkeys.HostKeys.load::whole-loop#1"
TARGETS = [(FRAG, "two-hostnames", {}), (FRAG, "three-hostnames", {"+n": 3})]
REPLAY = {"*": "c41.replay_load_twice", "check": "c41.check_agrees_with_lookup", "the_only_state_of_HostKeys": "c41.lookup_follows_the_entries"}


def make_pre(n):
    def pre(I, fr):
        """an entry just parsed from a line naming n hosts; _hostnames is the alias the real code creates"""
        st = I.st
        entry = st.alloc("paramiko.hostkeys.HostKeyEntry")
        hs = st.alloc("list", "list")
        names = [I.fresh_of_type("str", "h%d" % i) for i in range(n)]
        st.heap[hs.ref].data = list(names)
        st.heap[entry.ref].fields["hostnames"] = hs
        st.heap[entry.ref].fields["key"] = I.fresh_of_type("opaque:PKey", "key")
        fr.locals["entry"] = entry
        for i, x in enumerate(names):
            fr.locals["h_orig%d" % i] = x
        # distinct names on one line (as written by save / by OpenSSH)
        import z3
        for i in range(n):
            for j in range(i + 1, n):
                st.assume(z3.Not(I.equal(names[i], names[j])) if not isinstance(I.equal(names[i], names[j]), bool) else True)
    return pre


def setup(E):
    E.declare_class("paramiko.hostkeys.HostKeys", {"_entries": "opaque:EntryList"})
    E.declare_class("paramiko.hostkeys.HostKeyEntry", {})
    for fn_ in ("check", "_has_entry"):      # whichever duplicate test the loop uses: an uninterpreted predicate of (name, key)
        E.contract("paramiko.hostkeys.HostKeys." + fn_, params={"hostname": "str", "key": "opaque:PKey"}, returns="bool",
                   ensures=["result == fn('already_known', 'bool', hostname, key)"], modifies=[])
    for n in (2, 3):
        ens = {}
        for i in range(n):
            ens["kept_iff_not_already_known_%d" % i] = ("(h_orig%d in entry.hostnames) == (not fn('already_known', 'bool', h_orig%d, entry.key))" % (i, i))
        ens["nothing_else_added"] = "len(entry.hostnames) <= %d" % n
        E.contract(FRAG + ("" if n == 2 else "#3"), params={"self": "obj:HostKeys"}, pre_hook=make_pre(n), ensures=ens, raises={},
                   returns="none", modifies=None)
    # the driver looks contracts up by the fragment name; the 3-host variant swaps the contract in
    E.contracts[FRAG + "::three"] = E.contracts.pop(FRAG + "#3")
    global TARGETS
    TARGETS[:] = [FRAG, (FRAG, "three-hostnames", dict(E.contracts[FRAG + "::three"])),
                  (HAS, "two-entries", setup_has_entry(E)),
                  ("paramiko.hostkeys.HostKeys.check", "agrees-with-lookup", setup_check(E))]


def setup_check(E):
    """check(host, key) is DEFINED through lookup: true exactly when lookup(host) reports, for the key's type, a key with the
    same bytes (lookup honours the first entry of each type; a host listed twice with different keys of one type has one
    answer, and check must give the same)"""
    E.declare_ghost(lookups="int", lk_host="str", lk_some="bool", lk_type="str", lk_key="int", lk_key_some="bool", gets="int")
    HK = "paramiko.hostkeys.HostKeys."
    cs = {
        HK + "lookup": dict(params={"hostname": "str"}, returns="opt[opaque:SubDict]", modifies=[], raises={},
                            ghost={"lookups": "ghost('lookups') + 1", "lk_host": "hostname", "lk_some": "notnone(result)"}),
        "SubDict.get": dict(argnames=["self", "name", "default"], returns="opt[opaque:PKey]",
                            ghost={"gets": "ghost('gets') + 1", "lk_type": "name", "lk_key": "opaque_id(result)", "lk_key_some": "notnone(result)"}),
        "PKey.get_name": dict(argnames=["self"], returns="str", ensures=["result == fn('key_type', 'str', self)"]),
        "PKey.asbytes": dict(argnames=["self"], returns="bytes", ensures=["result == fn('key_bytes', 'bytes', self)"]),
    }
    ASKED = ("ghost('lookups') == old(ghost('lookups')) + 1 and ghost('lk_host') == hostname")
    GOT = ("ghost('gets') == old(ghost('gets')) + 1 and ghost('lk_type') == fn('key_type', 'str', key)")
    return dict(params={"hostname": "str", "key": "opaque:PKey"}, returns="bool", raises={}, modifies=[],
                ensures={
                    "the_answer_comes_from_what_lookup_reports_for_this_host": ASKED,
                    "true_only_for_the_key_lookup_reports_for_that_type":
                        "implies(result, ghost('lk_some') and %s and ghost('lk_key_some') and"
                        " fn('key_bytes', 'bytes', ghost('lk_key')) == fn('key_bytes', 'bytes', key))" % GOT,
                    "false_only_when_lookup_reports_nothing_or_another_key":
                        "implies(not result, (not ghost('lk_some')) or (%s and ((not ghost('lk_key_some')) or"
                        " fn('key_bytes', 'bytes', ghost('lk_key')) != fn('key_bytes', 'bytes', key))))" % GOT},
                **{"+contracts": cs})


HAS = "paramiko.hostkeys.HostKeys._has_entry"


def pre_entries(I, fr):
    """self._entries holds two entries (bounded); names / keys symbolic"""
    st = I.st
    lst = st.alloc("list", "list")
    items = []
    for i in range(2):
        e = st.alloc("paramiko.hostkeys.HostKeyEntry")
        st.heap[e.ref].fields["key"] = I.fresh_of_type("opaque:PKey", "ekey%d" % i)
        st.heap[e.ref].hint = "entry%d" % i
        items.append(e)
        fr.locals["e%d" % i] = e
    st.heap[lst.ref].data = items
    st.heap[fr.locals["self"].ref].fields["_entries"] = lst


def setup_has_entry(E):
    E.contract("paramiko.hostkeys.HostKeys._hostname_matches", params={"hostname": "str", "entry": "obj:HostKeyEntry"},
               returns="bool", ensures=["result == fn('lists_host', 'bool', entry, hostname)"], modifies=[])
    E.contract("PKey.get_name", argnames=["self"], returns="str", ensures=["result == fn('key_type', 'str', self)"])
    E.contract("PKey.asbytes", argnames=["self"], returns="bytes", ensures=["result == fn('key_bytes', 'bytes', self)"])
    same = lambda e: ("(fn('lists_host', 'bool', %s, hostname) and fn('key_type', 'str', %s.key) == fn('key_type', 'str', key)"
                      " and fn('key_bytes', 'bytes', %s.key) == fn('key_bytes', 'bytes', key))" % (e, e, e))
    return dict(params={"hostname": "str", "key": "opaque:PKey"}, pre_hook=pre_entries, returns="bool",
                ensures={"true_iff_some_entry_lists_the_host_with_exactly_this_key": "result == (%s or %s)" % (same("e0"), same("e1"))},
                raises={}, modifies=[])

def lemmas(E):
    """lookup / check are functions of the entries: HostKeys keeps no other state - every `self.<attr> = ...` in the class
    stores into _entries (a cache of earlier answers would have to be invalidated by every way an entry can be added, by
    plain or by hashed name; there is none to get wrong)"""
    import ast
    import z3
    out = []
    n = 0
    for qn, fi in sorted(E.src.funcs.items()):
        if not qn.startswith("paramiko.hostkeys.HostKeys.") or "::" in qn or ".<locals>." in qn:
            continue
        def walk_own(node):
            # the function's own statements, not those of classes or functions defined inside it (lookup's SubDict)
            for ch in ast.iter_child_nodes(node):
                if isinstance(ch, (ast.ClassDef, ast.FunctionDef, ast.Lambda)):
                    continue
                yield ch
                yield from walk_own(ch)
        for a in walk_own(fi.node):
            tg = a.targets if isinstance(a, ast.Assign) else ([a.target] if isinstance(a, (ast.AugAssign, ast.AnnAssign)) else [])
            for t in tg:
                for x in ast.walk(t):
                    if isinstance(x, ast.Attribute) and isinstance(x.value, ast.Name) and x.value.id == "self":
                        n += 1
                        out.append(("structure::the_only_state_of_HostKeys_is_its_entries(%s.%s)" % (qn.rsplit(".", 1)[-1], x.attr), [],
                                    z3.BoolVal(x.attr == "_entries")))
    out.append(("structure::HostKeys_state_found", [], z3.BoolVal(n >= 1)))
    return out


CLAIMED = True
LEVEL_TEXT = ("Proof (real iterator semantics) that load()'s duplicate-suppression loop leaves in a freshly parsed entry exactly "
              "the names that are not already known with that key - for lines naming two and three hosts - so a second load "
              "of the same file appends nothing; _has_entry is verified (two stored entries) to answer true exactly when "
              "some entry lists the host with a key of the same type and bytes, i.e. it looks at every entry, not only the "
              "first of a type; check(host, key) answers from what lookup(host) reports: true exactly when lookup reports, for the "
              "key's type, a key with the same bytes (lookup is its definition, used through a contract).")
LEVEL_NOTE = ("Bounded in the number of names per line (2, 3) and stored entries (2); unbounded in names and keys. "
              "_hostname_matches (plain / hashed names, HMAC) is an uninterpreted predicate; lookup()'s SubDict, save(), "
              "from_line/to_line (base64, parsing) are covered only by the native replay (load twice, save, reload), not by "
              "contracts.")
TECHNIQUE = "deductive: loop fragment with real list-iterator semantics + bounded lemma on the duplicate test, z3"
