"""C20 - channel flow control never deadlocks while the receiver keeps reading"""
import z3
from contracts import channel, specs

ID = "C20"
C = "paramiko.channel.Channel."
TARGETS = [C + "_feed", C + "_feed_extended", C + "_set_window", C + "_check_add_window"]
REPLAY = {"_feed_extended": "c20.replay_feed_extended", "*": "c20.replay_feed_extended"}


def setup(E):
    channel.declare_c20(E)


def lemmas(E):
    """progress measure over the contracts: a reader that has drained both streams leaves the peer with window"""
    sofar, thr, ws, received, credited, consumed = z3.Ints("sofar thr ws received credited consumed")
    hyps = [0 <= sofar, sofar <= thr, thr < ws,            # monitor invariant + _set_window's postcondition
            consumed - credited == sofar,                # exact accounting (_check_add_window)
            consumed == received]                        # the application has read everything that arrived
    return [("progress::drained_reader_leaves_peer_window_positive", hyps, ws - (received - credited) > 0)]

CLAIMED = True
LEVEL_TEXT = ("Proof of the conservation and progress-measure part: _feed and _feed_extended (every extended type, incl. "
              "those paramiko discards) either buffer each received data byte for the application or count it as consumed "
              "(ghost totals); _check_add_window accounts exactly (credit returned + credit pending = previous pending + "
              "consumed) and keeps 0 <= pending <= threshold (monitor invariant on Channel.lock); _set_window makes threshold "
              "< window for every window >= 1; an SMT lemma over these contracts shows a reader that has drained both "
              "streams leaves the peer a strictly positive window.")
LEVEL_NOTE = ("'Eventually' is argued, not proved: it needs fairness of the threads and of the peer; liveness is outside "
              "contract-based verification. BufferedPipe.feed is used by contract (fed bytes become readable: C26). A credit "
              "of 2^32 or more cannot be encoded and raises struct.error (needs a window that large).")
TECHNIQUE = "deductive: ghost conservation totals + monitor invariant + SMT progress lemma over the contracts"
ARGUED = ["liveness: with positive peer window, a fair peer and fair scheduling the sender transfers all pending data"]
