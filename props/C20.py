"""C20 - channel flow control never deadlocks while the receiver keeps reading"""
import z3
from contracts import channel, specs

ID = "C20"
C = "paramiko.channel.Channel."
TARGETS = [C + "_feed", C + "_feed_extended", C + "_set_window", C + "_check_add_window"]
REPLAY = {"_feed_extended": "c20.replay_feed_extended", "*": "c20.replay_feed_extended"}


def setup(E):
    channel.declare_c20(E)
    # the sender's side of "never deadlocks": a window grant wakes every parked sender (contract shared with C19)
    E2 = type(E)()
    channel.declare_c19(E2)
    qn = C + "_window_adjust"
    global TARGETS
    TARGETS = [t for t in TARGETS if not (isinstance(t, tuple) and t[1] == "wakes-all")]
    TARGETS.append((qn, "wakes-all", dict(E2.contracts[qn], **{
        "+replace": True, "+contracts": {k: v for k, v in E2.contracts.items() if k != qn},
        "+fields": {k: dict(d["fields"]) for k, d in E2.classdecl.items()},
        "+engine": {"monitors": E2.monitors, "ghost_types": dict(E.ghost_types, **E2.ghost_types),
                    "inline_ok": set(E2.inline_ok) | set(E.inline_ok)}})))


def lemmas(E):
    """progress measure over the contracts: a reader that has drained both streams leaves the peer with window"""
    sofar, thr, ws, received, credited, consumed = z3.Ints("sofar thr ws received credited consumed")
    hyps = [0 <= sofar, sofar <= thr, thr < ws,            # monitor invariant + _set_window's postcondition
            consumed - credited == sofar,                # exact accounting (_check_add_window)
            consumed == received]                        # the application has read everything that arrived
    return [("progress::drained_reader_leaves_peer_window_positive", hyps, ws - (received - credited) > 0)]

CLAIMED = True
LEVEL_TEXT = ("Proof of the conservation and progress-measure part: _feed and _feed_extended (every extended type, incl. "
              "those paramiko discards) either buffer each received data byte for the application or count it as consumed "
              "(ghost totals); _check_add_window accounts exactly (credit returned + credit pending = previous pending + "
              "consumed) and keeps 0 <= pending <= threshold (monitor invariant on Channel.lock); _set_window makes threshold "
              "< window for every window >= 1; an SMT lemma over these contracts shows a reader that has drained both "
              "streams leaves the peer a strictly positive window.")
LEVEL_NOTE = ("'Eventually' is argued, not proved: it needs fairness of the threads and of the peer; liveness is outside "
              "contract-based verification. BufferedPipe.feed is used by contract (fed bytes become readable: C26). A credit "
              "of 2^32 or more cannot be encoded and raises struct.error (needs a window that large).")
TECHNIQUE = "deductive: ghost conservation totals + monitor invariant + SMT progress lemma over the contracts"
ARGUED = ["liveness: with positive peer window, a fair peer and fair scheduling the sender transfers all pending data"]
