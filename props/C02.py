"""C02 - tampered encrypted traffic is never accepted as different data"""
from contracts import packet_frames

ID = "C02"
P = "paramiko.packet.Packetizer."
TARGETS = [(P + "read_message", "any-input-%s-bs%d" % (m, bs), packet_frames.read_contract_c02(m, bs))
           for m, bs in packet_frames.C02_VARIANTS]
TARGETS += ["paramiko.util.constant_time_bytes_eq", P + "read_all",
            # the AEAD nonce: the invocation counter goes up by exactly one per packet and never stays where it is (at the top
            # of its 64 bits the function raises instead) - a nonce used twice lets whole packets be dropped or replayed
            (P + "_inc_iv_counter", "own-body", {"+replace": True,
                "params": {"iv": "bytes"}, "requires": ["len(iv) == 12"], "returns": "bytes", "modifies": [],
                "ensures": {"fixed_part_kept_and_counter_incremented_by_exactly_one":
                         "len(result) == 12 and result[0:4] == iv[0:4] and bacc(0, result[4:12]) == bacc(0, iv[4:]) + 1"},
                # (bacc(0, s) is the big-endian value of the byte string s, the meaning of int.from_bytes / to_bytes)
                "raises": {"OverflowError": "bacc(0, iv[4:]) >= 2**64 - 1"}})]
REPLAY = {"*": "c02.replay_tamper", "_inc_iv_counter": "c02.nonce_counter"}
SEARCH = {"_inc_iv_counter": "c02.nonce_counter"}
MAX_PATHS = 20000


def setup(E):
    packet_frames.declare_common(E)


def lemmas(E):
    """table obligations: every MAC offered has a positive size not above its digest, so the slice compared is non-empty,
    and every non-AEAD cipher is only ever installed together with such a MAC (see _activate_inbound, C04)"""
    import z3
    out = []
    sp = E.tables["special"]
    for name, mi in sorted(sp["mac_info"].items()):
        ok = isinstance(mi["size"], int) and isinstance(mi["digest_size"], int) and 0 < mi["size"] <= mi["digest_size"]
        out.append(("table::mac_size_positive_and_within_digest[%s]" % name, [], z3.BoolVal(bool(ok))))
    return out


CLAIMED = True
LEVEL_TEXT = ("Proof on the real AST, for an ARBITRARY incoming byte stream (no assumption on what the peer or an attacker "
              "sent), per framing mode and block size: read_message returns a message only on paths where the integrity "
              "check ran exactly once and passed - classic: constant_time_bytes_eq(HMAC(key_in, seqno_in || length || "
              "plaintext packet)[:mac_size], the mac_size bytes that followed the packet on the wire) returned True; "
              "encrypt-then-MAC: the same over seqno_in || the length field and ciphertext exactly as consumed from the wire, "
              "before anything was decrypted; AES-GCM: decrypt(nonce_in, all consumed bytes after the length field, aad = "
              "the length field) returned - and the delivered type and body are cut from exactly those authenticated bytes "
              "by the RFC 4253 formula payload = packet[1 : length - padding]. constant_time_bytes_eq(a, b) == (a == b) "
              "for all byte strings (quantified loop invariant). read_all never returns fewer bytes than asked. Packetizer._inc_iv_counter (the AEAD nonce) keeps the fixed four bytes and moves the 64-bit invocation counter "
              "up by exactly one, refusing (OverflowError) at the top instead of reusing a nonce.")
LEVEL_NOTE = ("Argued on top of those postconditions (cryptographic, not machine-checked): with an unforgeable MAC / ideal "
              "AEAD the only (message, tag) pairs an attacker can present for sequence number k are the sender's k-th "
              "packet, so what is delivered is a prefix of what was sent; a corrupted length in classic mode makes read_all "
              "wait or the block-alignment test raise. Assumed: HMAC is a function of (key, message, hash); AES-GCM decrypt "
              "raises InvalidTag unless the tag matches; compression off (the decompressor runs after the check). A packet "
              "that passes the check but is shorter than its own padding raises IndexError instead of SSHException (C38). "
              "The receiver proof takes the over-read remainder as empty.")
TECHNIQUE = "deductive: postconditions with ghost monitors on the comparison / MAC / decrypt calls, real AST, arbitrary input stream, z3"
