"""C26 - channel receive buffers are lossless FIFOs with correct close and timeout rules"""
from contracts import buffered_pipe, specs

ID = "C26"
B = "paramiko.buffered_pipe.BufferedPipe."
TARGETS = [B + "feed", B + "read", B + "empty", B + "close"]
REPLAY = {"*": "c26.replay_pipe"}


def setup(E):
    buffered_pipe.declare(E)

CLAIMED = True
LEVEL_TEXT = ("Proof with the monitor rule on BufferedPipe._lock and ghost histories fed/taken: the invariant fed == taken ++ "
              "buffer is re-established at every release and before every wait by feed, read, empty and close (so under every "
              "interleaving the concatenation of everything read and emptied is a prefix of everything fed, in order, and "
              "nothing is lost); read(n>=1) returns at most n bytes, returns empty only when closed and drained, and raises "
              "PipeTimeout only with an empty buffer and without consuming anything; the wait loop carries the invariant.")
LEVEL_NOTE = ("Trusted: threading.Lock/Condition semantics; array('B') modelled as a byte sequence (frombytes appends, slice "
              "deletion removes, tobytes copies). Ghost effects are committed at the lock release (linearisation point). The "
              "event/pipe signalling used for select() is not part of this proof (C24 is not applicable).")
TECHNIQUE = "deductive: monitor invariant over ghost histories, VCs from the real AST, z3"
