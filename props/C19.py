"""C19 - channel senders never exceed the peer's window or maximum packet size"""
import ast
import z3
from contracts import channel, specs

ID = "C19"
C = "paramiko.channel.Channel."
TARGETS = [C + "_wait_for_send_window", C + "_send", C + "_window_adjust", C + "_set_remote_channel", C + "_check_add_window",
           "paramiko.transport.Transport._sanitize_packet_size", C + "recv", C + "recv_stderr", C + "set_combine_stderr"]
REPLAY = {"*": "c19.replay_window", "set_combine_stderr": "c19.late_combine", "_feed_extended": "c20.replay_feed_extended"}


def setup(E):
    channel.declare_c19(E)
    channel.declare_recv(E)
    # moving buffered stderr data over to stdout is not consumption: no window goes back to the peer for it
    E.declare_class("paramiko.buffered_pipe.BufferedPipe", {})
    E.contract("paramiko.buffered_pipe.BufferedPipe.empty", returns="bytes", modifies=[], raises={})
    E.contract("paramiko.buffered_pipe.BufferedPipe.feed", params={"data": "bytes"}, returns="none", modifies=[], raises={})
    E.declare_ghost(credit_calls="int")
    E.contracts[C + "_check_add_window"]["ghost"] = dict(E.contracts[C + "_check_add_window"].get("ghost") or {},
                                                         credit_calls="ghost('credit_calls') + 1")
    E.contract(C + "set_combine_stderr", params={"combine": "bool"},
               ensures={"moving_buffered_data_hands_no_window_back":
                        "ghost('credit_calls') == old(ghost('credit_calls')) and ghost('user_sent_count') == old(ghost('user_sent_count'))"},
               returns="bool", raises={})


    # receiver side, the arrival path: a byte that arrives is either buffered for the application (and credited back when the
    # application reads it - recv / recv_stderr above) or counted as consumed on the spot (extended data of a type paramiko
    # discards), never both - a byte credited twice is window the application never consumed.  Contract shared with C20.
    E2 = type(E)()
    channel.declare_c20(E2)
    global TARGETS
    TARGETS = [t for t in TARGETS if not (isinstance(t, tuple) and t[1] == "arrival-path")]
    for fn in ("_feed", "_feed_extended"):
        qn = C + fn
        TARGETS.append((qn, "arrival-path", dict(E2.contracts[qn], **{
            "+replace": True, "+contracts": {k: v for k, v in E2.contracts.items() if k != qn},
            "+fields": {k: dict(d["fields"]) for k, d in E2.classdecl.items()},
            "+engine": {"monitors": E2.monitors, "ghost_types": dict(E2.ghost_types), "inline_ok": set(E2.inline_ok)}})))


WRITERS = {
    "out_window_size": {"__init__", "_set_remote_channel", "_window_adjust", "_wait_for_send_window"},
    "in_window_sofar": {"__init__", "_set_window", "_check_add_window"},
}


def lemmas(E):
    """frame scan: the window counters are assigned only by the functions under contract"""
    out = []
    for field, allowed in WRITERS.items():
        found = 0
        for qn, fi in sorted(E.src.funcs.items()):
            if fi.module != "paramiko.channel" or "::" in qn:
                continue
            for n in ast.walk(fi.node):
                tgt = None
                if isinstance(n, ast.Assign):
                    tgt = n.targets
                elif isinstance(n, ast.AugAssign):
                    tgt = [n.target]
                for t in tgt or []:
                    if isinstance(t, ast.Attribute) and t.attr == field:
                        found += 1
                        out.append(("frame::%s_written_only_by_contracted_functions(%s)" % (field, qn), [],
                                    z3.BoolVal(qn.rsplit(".", 1)[-1] in allowed)))
        out.append(("frame::%s_has_writers" % field, [], z3.BoolVal(found >= 2)))
    return out


CLAIMED = True
LEVEL_TEXT = ("Proof with the monitor rule on Channel.lock (every access to the window counters and close/eof flags is under the "
              "lock; invariant out_window_size >= 0 and in_window_sofar >= 0 re-established at every release and wait, fields "
              "havocked after every acquire/wait): _wait_for_send_window returns 0 <= n <= min(requested, window, "
              "max_packet-64) and debits exactly n; _send puts exactly s[:n] into the one message it sends; _window_adjust "
              "credits exactly the peer's uint32; _set_remote_channel honours the peer's max packet size when >= 4096; "
              "_check_add_window never returns more than was consumed and recv/recv_stderr send exactly that in "
              "WINDOW_ADJUST; set_combine_stderr, which moves buffered data between the two receive buffers, hands no window back "
              "(ghost count of _check_add_window calls and of messages handed to the transport unchanged); on the arrival path (_feed, _feed_extended, contract shared with C20) every byte is either buffered for the application or counted as consumed on the spot, never both, so no byte is credited twice. Holds for every interleaving by the monitor rule; counters have no other writers (frame scan).")
LEVEL_NOTE = ("Trusted: threading.Lock/Condition semantics (mutual exclusion, wait releases and reacquires atomically). "
              "_set_remote_channel/_set_window write without the lock (before the channel is handed out) - listed as allowed "
              "unlocked accesses. The debited message is sent after the lock is released (order on the wire vs EOF/CLOSE is "
              "C22's business). BufferedPipe.read is used by contract (C26).")
TECHNIQUE = "deductive: monitor invariants + ghost synchronisation points, VCs from the real AST, z3"
