"""C07 - signatures must use the negotiated or declared signature algorithm"""
from contracts import sigalg, auth, specs

ID = "C07"
TARGETS = ["paramiko.transport.Transport._verify_key", "paramiko.auth_handler.AuthHandler._parse_userauth_request"]
MAX_PATHS = 30000
REPLAY = {"*": "c07.replay_sigalg", "_generate_key_from_request": "c07.replay_sigalg"}


def setup(E):
    sigalg.declare_client(E)
    verify_key_contract = E.contracts["PKey.verify_ssh_sig"]
    auth.declare(E, keep_readers=("get_string",))
    # both uses of verify_ssh_sig (host key check, user auth) share one contract: merge the ghost effects
    c = E.contracts["PKey.verify_ssh_sig"]
    c["ghost"].update({"verify_called": "True", "verify_result": "result", "sig_ok": "result", "sig_blob": "data",
                       "sig_wellformed": "len(msg.packet.getvalue()) >= 4 and unpack32(msg.packet.getvalue()[0:4]) <= len(msg.packet.getvalue()) - 4",
                       "sig_alg": "msg.packet.getvalue()[4:4 + unpack32(msg.packet.getvalue()[0:4])]"})
    c["raises"] = {"Exception": {"when": "True", "ghost": {"verify_raised": "True"}}}
    E.contracts["paramiko.message.Message.get_string"]["cases_fork"] = False
    E.contracts["paramiko.auth_handler.AuthHandler._send_auth_result"]["requires"][
        "publickey_success_only_if_signature_names_the_declared_algorithm"] = (
        "implies(result == 0 and method == 'publickey' and ghost('sig_wellformed'), ghost('sig_alg') == ghost('declared_alg'))")
    # the only place the server checks that the DECLARED algorithm is one it has enabled: a key comes back only for such an
    # algorithm, on every request (the check is not skipped for a key blob seen before)
    AHq = "paramiko.auth_handler.AuthHandler."
    E3 = type(E)()
    E3.auto_opaque = True
    E3.opaque_iter = {"NameList": "str"}
    E3.declare_class("paramiko.auth_handler.AuthHandler", {"transport": "obj:Transport"})
    # (preferred_pubkeys, a property computed from the configuration on every read, is modelled as a field holding the
    # list that is enabled at the time of the call)
    E3.declare_class("paramiko.transport.Transport", {"_key_info": "opaque:KeyTable", "preferred_pubkeys": "opaque:NameList"})
    E3.contract("NameList.__contains__", argnames=["self", "x"], returns="bool",
                cases=[dict(name="membership", when="True", result="fn('in_list', 'bool', opaque_id(self), x)")])
    E3.contract("KeyTable.__getitem__", argnames=["self", "k"], returns="opaque:KeyCtor", raises={"KeyError": "True"})
    E3.opaque_contracts["KeyCtor"] = dict(argnames=["self", "m"], returns="opaque:PKey", raises={"SSHException": "True", "Exception": "True"})
    E3.contract(AHq + "_log", params={"level": "int", "msg": "str"}, returns="none", modifies=[])
    from contracts import message as _msg
    _msg.declare(E3)
    c3 = dict(params={"algorithm": "str", "keyblob": "bytes"}, returns="opt[opaque:PKey]", modifies=[],
              raises={"SSHException": "True", "Exception": "True", "KeyError": "True"},
              ensures={"a_key_is_returned_only_for_a_declared_algorithm_that_is_enabled":
                       "implies(notnone(result), fn('in_list', 'bool', opaque_id(self.transport.preferred_pubkeys),"
                       " fn('str_replace', 'str', algorithm, '-cert-v01@openssh.com', '')))"})
    global TARGETS
    TARGETS = [t for t in TARGETS if not (isinstance(t, tuple) and t[1] == "enabled-algorithm")]
    TARGETS.append((AHq + "_generate_key_from_request", "enabled-algorithm", dict(c3, **{
        "+replace": True, "+contracts": dict(E3.contracts), "+fields": {k: dict(d["fields"]) for k, d in E3.classdecl.items()},
        "+engine": {"auto_opaque": True, "opaque_iter": dict(E3.opaque_iter), "ghost_types": dict(E3.ghost_types),
                    "opaque_contracts": dict(E3.opaque_contracts)}})))

CLAIMED = True
LEVEL_TEXT = ("Proof on the real callers: Transport._verify_key returns normally only if verify_ssh_sig returned True and the "
              "algorithm name inside a well-formed signature blob equals the negotiated host_key_type with a certificate "
              "suffix removed; the server's USERAUTH_REQUEST handler reaches _send_auth_result(SUCCESS) for publickey only if "
              "the verified blob's algorithm name equals the algorithm declared in the request (same stripping), as a "
              "call-site precondition over ghost state set by the verify contract.")
LEVEL_NOTE = ("Assumed: verify_ssh_sig is an uninterpreted predicate of (key, data, blob) that may also raise; that the "
              "negotiated / declared algorithm is one the verifying side enabled is negotiation's business (C05) and "
              "_generate_key_from_request's check against preferred_pubkeys (now a target: a key comes back only for an enabled "
              "declared algorithm, on every request). Malformed blobs "
              "(length field beyond the blob) are left to the key's own verification.")
TECHNIQUE = "deductive: postcondition / call-site precondition over ghost signature metadata, uninterpreted str.replace, z3"
