"""C07 - signatures must use the negotiated or declared signature algorithm"""
from contracts import sigalg, auth, specs

ID = "C07"
TARGETS = ["paramiko.transport.Transport._verify_key", "paramiko.auth_handler.AuthHandler._parse_userauth_request"]
MAX_PATHS = 30000
REPLAY = {"*": "c07.replay_sigalg"}


def setup(E):
    sigalg.declare_client(E)
    verify_key_contract = E.contracts["PKey.verify_ssh_sig"]
    auth.declare(E, keep_readers=("get_string",))
    # both uses of verify_ssh_sig (host key check, user auth) share one contract: merge the ghost effects
    c = E.contracts["PKey.verify_ssh_sig"]
    c["ghost"].update({"verify_called": "True", "verify_result": "result", "sig_ok": "result", "sig_blob": "data",
                       "sig_wellformed": "len(msg.packet.getvalue()) >= 4 and unpack32(msg.packet.getvalue()[0:4]) <= len(msg.packet.getvalue()) - 4",
                       "sig_alg": "msg.packet.getvalue()[4:4 + unpack32(msg.packet.getvalue()[0:4])]"})
    c["raises"] = {"Exception": {"when": "True", "ghost": {"verify_raised": "True"}}}
    E.contracts["paramiko.message.Message.get_string"]["cases_fork"] = False
    E.contracts["paramiko.auth_handler.AuthHandler._send_auth_result"]["requires"][
        "publickey_success_only_if_signature_names_the_declared_algorithm"] = (
        "implies(result == 0 and method == 'publickey' and ghost('sig_wellformed'), ghost('sig_alg') == ghost('declared_alg'))")

CLAIMED = True
LEVEL_TEXT = ("Proof on the real callers: Transport._verify_key returns normally only if verify_ssh_sig returned True and the "
              "algorithm name inside a well-formed signature blob equals the negotiated host_key_type with a certificate "
              "suffix removed; the server's USERAUTH_REQUEST handler reaches _send_auth_result(SUCCESS) for publickey only if "
              "the verified blob's algorithm name equals the algorithm declared in the request (same stripping), as a "
              "call-site precondition over ghost state set by the verify contract.")
LEVEL_NOTE = ("Assumed: verify_ssh_sig is an uninterpreted predicate of (key, data, blob) that may also raise; that the "
              "negotiated / declared algorithm is one the verifying side enabled is negotiation's business (C05) and "
              "_generate_key_from_request's check against preferred_pubkeys (read, not verified here). Malformed blobs "
              "(length field beyond the blob) are left to the key's own verification.")
TECHNIQUE = "deductive: postcondition / call-site precondition over ghost signature metadata, uninterpreted str.replace, z3"
