"""C21 - channel byte streams arrive intact, in order and on the right stream"""
from contracts import channel

ID = "C21"
C = "paramiko.channel.Channel."
TARGETS = [C + "_feed", C + "_feed_extended", C + "set_combine_stderr"]
REPLAY = {"BufferedPipe": "c26.replay_pipe", "*": "c21.replay_streams",
          "the_move_happens_inside_the_critical_section": "c21.schedule_feed_between_empty_and_move",
          "routing_decision_and_delivery_under_the_channel_lock": "c21.schedule_switch_between_decision_and_delivery"}


B = "paramiko.buffered_pipe.BufferedPipe."
TARGETS += [(B + f, "fifo", {}) for f in ("feed", "read", "empty", "close")]
MAX_PATHS = 20000


def setup(E):
    channel.declare_c21(E)
    # the buffers themselves (contracts shared with C26) in their own environment: lossless FIFOs, partial reads included
    from contracts import buffered_pipe
    E2 = type(E)()
    buffered_pipe.declare(E2)
    fields = {c: dict(d["fields"]) for c, d in E2.classdecl.items()}
    global TARGETS
    for i, t in enumerate(TARGETS):
        if isinstance(t, tuple) and t[1] == "fifo":
            qn = t[0]
            TARGETS[i] = (qn, "fifo", dict(E2.contracts[qn], **{
                "+replace": True,
                "+contracts": {k: v for k, v in E2.contracts.items() if k != qn},
                "+fields": fields,
                "+engine": {"monitors": E2.monitors, "inline_ok": set(E2.inline_ok) | set(E.inline_ok),
                            "ghost_types": dict(E.ghost_types, **E2.ghost_types)}}))


CLAIMED = True
LEVEL_TEXT = ("Proof over ghost byte streams (stdout / stderr as fed so far) on the real AST: _feed appends exactly the message's "
              "string (or the given bytes) to the stdout stream and nothing to stderr; _feed_extended appends data of type 1 "
              "to the stderr stream, or to stdout when combining is on, and drops any other type from both; "
              "set_combine_stderr returns the previous setting, installs the new one and, when switching on, moves exactly "
              "the still unread stderr bytes to the end of the stdout stream. Together with C26 (each buffer is a lossless "
              "FIFO, partial reads included), C19/C20 (window accounting) and the per-channel dispatch of C12/C15's loop "
              "fragment, the bytes read are the bytes fed, per stream, in order. The switch-and-move of "
              "set_combine_stderr and the decide-and-deliver of _feed_extended are each one critical section of the channel lock.")
LEVEL_NOTE = ("Repaired defect (fix: commit, see known_findings.json): the move used to happen after the lock was released, so "
              "stderr data arriving in the gap landed ahead of the older data; schedules replayed by harness "
              "c21.schedule_feed_between_empty_and_move / schedule_switch_between_decision_and_delivery. BufferedPipe.feed / empty are used "
              "through contracts here (verified against their bodies under C26, which is part of this check's command "
              "through the shared targets below). Exit status: Channel._handle_request stores the peer's value (C18 "
              "verifies that function's other branches); the harness replays it. Cross-channel isolation: handlers touch "
              "only their own channel object (frame conditions), channels are looked up by id (C23).")
TECHNIQUE = "deductive: ghost stream postconditions on the real AST, monitor rule and lock-held ghost monitors, z3; native schedule replay"
