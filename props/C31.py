"""C31 - SFTP attribute changes have their local-filesystem meaning"""
from contracts import sftp_server, specs

ID = "C31"
TARGETS = ["paramiko.sftp_server.SFTPServer.set_file_attr"]
REPLAY = {"*": "c31.replay_set_file_attr"}


def setup(E):
    sftp_server.declare_c31(E)

CLAIMED = True
LEVEL_TEXT = ("Proof on the real set_file_attr against an abstract file (ghost content) and a log of metadata calls: with the "
              "size flag the content becomes old[:n] zero-extended to n (what os.truncate does) for every old content and n, "
              "without it the content is untouched; chmod / chown / utime are each called exactly once with the attribute's "
              "values and the given path iff their flag is set, for every flag combination.")
LEVEL_NOTE = ("Assumed file-system model: open(path, mode) empties the file for w-modes and keeps it for r+; truncate(n) cuts "
              "or zero-extends; os.chmod/chown/utime are recorded, not interpreted (validated by the native replay on a "
              "temporary file). Only the by-path helper is under contract; SFTPHandle.chattr delegates to the user's "
              "subclass and the client-side setstat encoding is C33.")
TECHNIQUE = "deductive: ghost file-system state + call log, VCs from the real AST, z3"
