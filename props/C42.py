"""C42 - buffered file wrappers preserve stream content and line structure"""
from contracts import bufferedfile

ID = "C42"
F = "paramiko.file.BufferedFile."
TARGETS = [F + "read", F + "_write_all", F + "flush", F + "write", F + "readline"]
REPLAY = {"*": "c42.replay_file"}
MAX_PATHS = 20000


def setup(E):
    bufferedfile.declare(E)


CLAIMED = True
LEVEL_TEXT = ("Proof on the real AST of BufferedFile, with the underlying stream as ghost byte strings and _read / _write "
              "returning arbitrary non-empty pieces: read(n) and read() return exactly the next bytes of the stream (buffered "
              "bytes first), at most n, short only at end of stream, and leave the rest pending in order (definitional loop "
              "invariants over the stream); readline(size) in byte-exact newline mode returns the next bytes, never more "
              "than size, with no newline before its last byte, ending at a newline unless cut by size or end of stream, and "
              "nothing is skipped or duplicated - in particular bytes set aside by the size limit stay pending; "
              "_write_all puts every byte on the stream in order whatever the partial-write pattern; flush empties the write "
              "buffer onto the stream; write() never loses or reorders data in any buffering mode and holds nothing back "
              "when unbuffered. Iteration (__next__, readlines) is readline plus an emptiness test.")
LEVEL_NOTE = ("Scope of readline: binary files without the deprecated universal-newline flag (that mode rewrites bytes, so the "
              "byte-exact statement does not apply) and no pending carriage return. Text mode decoding (util.u) is total for "
              "valid UTF-8 and not part of the statement. 'Line-buffered writes are delivered through each newline "
              "immediately' is replayed natively by the harness (rfind-based split) and covered here by the conservation "
              "clause only. ChannelFile / SFTPFile supply _read / _write; their own contracts are C21/C26 and C27.")
TECHNIQUE = "deductive: definitional loop invariants over ghost streams on the real AST, quantified newline clauses, z3/cvc5"
