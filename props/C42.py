"""C42 - buffered file wrappers preserve stream content and line structure"""
from contracts import bufferedfile

ID = "C42"
F = "paramiko.file.BufferedFile."
TARGETS = [F + "read", F + "_write_all", F + "flush", F + "write", F + "readline"]
REPLAY = {"*": "c42.replay_file", "sendall": "c25.replay_sendall", "_send_all": "c25.replay_sendall", "Channel": "c25.replay_sendall"}
MAX_PATHS = 20000


def setup(E):
    bufferedfile.declare(E)
    # the channel-backed wrappers: ChannelFile._write / ChannelStderrFile._write hand the whole block to sendall and report
    # all of it written; sendall / sendall_stderr (own bodies, contract shared with C25) return only after every byte of the
    # block went to send() in order - a block handed over in part would be a hole in the stream the reader sees
    from contracts import channel
    E2 = type(E)()
    channel.declare_c19(E2)
    channel.declare_c25(E2)
    for cls in ("ChannelFile", "ChannelStderrFile"):
        E2.declare_class("paramiko.channel." + cls, {"channel": "obj:paramiko.channel.Channel"})
    which = {"ChannelFile": "sendall", "ChannelStderrFile": "sendall_stderr"}
    for cls in ("ChannelFile", "ChannelStderrFile"):
        E2.contract("paramiko.channel.%s._write" % cls, params={"data": "bytes"}, requires={"fits": "len(data) < 2**31"},
                    ensures={"the_whole_block_went_to_the_channel_in_order": "ghost('delivered') == old(ghost('delivered')) + data",
                             "and_all_of_it_is_reported_written": "result == len(data)"},
                    raises={"OSError": "True", "TimeoutError": "True", "EOFError": "True", "SSHException": "True"}, returns="int")
    global TARGETS
    TARGETS = [t for t in TARGETS if not (isinstance(t, tuple) and t[1] == "channel-backed")]
    for qn in ["paramiko.channel.ChannelFile._write", "paramiko.channel.ChannelStderrFile._write",
               "paramiko.channel.Channel.sendall", "paramiko.channel.Channel.sendall_stderr"]:
        TARGETS.append((qn, "channel-backed", dict(E2.contracts[qn], **{
            "+replace": True, "+contracts": {k: v for k, v in E2.contracts.items() if k != qn},
            "+fields": {k: dict(d["fields"]) for k, d in E2.classdecl.items()},
            "+engine": {"monitors": E2.monitors, "ghost_types": dict(E2.ghost_types), "inline_ok": set(E2.inline_ok)}})))


CLAIMED = True
LEVEL_TEXT = ("Proof on the real AST of BufferedFile, with the underlying stream as ghost byte strings and _read / _write "
              "returning arbitrary non-empty pieces: read(n) and read() return exactly the next bytes of the stream (buffered "
              "bytes first), at most n, short only at end of stream, and leave the rest pending in order (definitional loop "
              "invariants over the stream); readline(size) in byte-exact newline mode returns the next bytes, never more "
              "than size, with no newline before its last byte, ending at a newline unless cut by size or end of stream, and "
              "nothing is skipped or duplicated - in particular bytes set aside by the size limit stay pending; "
              "_write_all puts every byte on the stream in order whatever the partial-write pattern; flush empties the write "
              "buffer onto the stream; write() never loses or reorders data in any buffering mode and holds nothing back "
              "when unbuffered. Iteration (__next__, readlines) is readline plus an emptiness test.")
LEVEL_NOTE = ("Scope of readline: binary files without the deprecated universal-newline flag (that mode rewrites bytes, so the "
              "byte-exact statement does not apply) and no pending carriage return. Text mode decoding (util.u) is total for "
              "valid UTF-8 and not part of the statement. 'Line-buffered writes are delivered through each newline "
              "immediately' is replayed natively by the harness (rfind-based split) and covered here by the conservation "
              "clause only. ChannelFile / SFTPFile supply _read / _write; their own contracts are C21/C26 and C27; ChannelFile._write / ChannelStderrFile._write and the sendall loops under them are verified here too (contract shared with C25).")
TECHNIQUE = "deductive: definitional loop invariants over ghost streams on the real AST, quantified newline clauses, z3/cvc5"
