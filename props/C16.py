"""C16 - a server pins one username per connection and caps failed attempts"""
from contracts import auth, specs

ID = "C16"
AH = "paramiko.auth_handler.AuthHandler."
TARGETS = [AH + "_parse_userauth_request", AH + "_send_auth_result"]
REPLAY = {"*": "c16.replay_pin"}
MAX_PATHS = 30000


def setup(E):
    auth.declare(E)
    # the pin and the failure count live in the server's AuthHandler: it is created once, at the first NEWKEYS, and a
    # re-key (which may complete in the middle of the authentication phase) must keep the one that exists
    from contracts import transport
    global TARGETS
    TARGETS = [t for t in TARGETS if not (isinstance(t, tuple) and t[1] == "handler-lifetime")]
    TARGETS.append(transport.newkeys_variant(E, "handler-lifetime", {
        "an_existing_auth_handler_survives_a_rekey":
            "implies(notnone(old(self.auth_handler)), opaque_id(self.auth_handler) == old(opaque_id(self.auth_handler))"
            " and ghost('handlers_created') == old(ghost('handlers_created')))",
        "a_server_gets_its_handler_at_the_first_newkeys":
            "implies(self.server_mode and isnone(old(self.auth_handler)), notnone(self.auth_handler)"
            " and ghost('handlers_created') == old(ghost('handlers_created')) + 1)"}))


CLAIMED = True
LEVEL_TEXT = ("Proof on the real AST: whenever the application is consulted during a USERAUTH_REQUEST, the username it is "
              "asked about equals the handler's pinned auth_username, which is unchanged if it was already set, and the "
              "requested service is 'ssh-connection'; a disconnect without consultation sends no verdict and authenticates "
              "nobody; _send_auth_result increases auth_fail_count by exactly one per plain failure and the count reaching "
              "ten implies a disconnect (transport inactive, so the dispatch loop evaluates nothing further); Transport._parse_newkeys "
              "creates the server's AuthHandler only when there is none and keeps an existing one across a re-key, so the pin "
              "and the count survive a re-key in the middle of the authentication phase.")
LEVEL_NOTE = ("Assumed: _disconnect_* close the transport (contract: active becomes False); the dispatch loop stops when "
              "active is False (C12/C15 fragment). The service comparison is read through the function's local variable "
              "'service' (a rename makes the check report a checker fault, not a violation).")
TECHNIQUE = "deductive: postconditions over ghost consultation log on the real AST, z3"
