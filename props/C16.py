"""C16 - a server pins one username per connection and caps failed attempts"""
from contracts import auth, specs

ID = "C16"
AH = "paramiko.auth_handler.AuthHandler."
TARGETS = [AH + "_parse_userauth_request", AH + "_send_auth_result"]
REPLAY = {"*": "c16.replay_pin"}
MAX_PATHS = 30000


def setup(E):
    auth.declare(E)
    # the pin and the failure count live in the server's AuthHandler: it is created once, at the first NEWKEYS, and a
    # re-key (which may complete in the middle of the authentication phase) must keep the one that exists
    T = "paramiko.transport.Transport."
    E2 = type(E)()
    E2.auto_opaque = True
    E2.declare_ghost(handlers_created="int")
    E2.declare_class("paramiko.transport.Transport", {
        "server_mode": "bool", "auth_handler": "opt[opaque:AuthH]", "initial_kex_done": "bool", "in_kex": "bool",
        "completion_event": "opt[opaque:Event]", "packetizer": "opaque:Pk", "clear_to_send_lock": "opaque:Lock",
        "clear_to_send": "opaque:Event", "K": "opt[int]", "kex_engine": "opt[opaque:Kex]", "local_kex_init": "opt[bytes]",
        "remote_kex_init": "opt[bytes]", "authenticated": "bool"})
    E2.contract(T + "_activate_inbound", returns="none", raises={"SSHException": "True"}, modifies=[])
    E2.contract(T + "is_authenticated", returns="bool", modifies=[])
    E2.contract("paramiko.auth_handler.AuthHandler", argnames=["t"], returns="opaque:AuthH", constructor=True,
                ghost={"handlers_created": "ghost('handlers_created') + 1"})
    E2.contract("Pk.need_rekey", argnames=["self"], returns="bool")
    E2.contract("Pk._initial_kex_done.setter", argnames=["self", "v"], returns="none")
    E2.contract("Event.set", argnames=["self"], returns="none")
    c = dict(params={"m": "opaque:Msg"}, returns="none", raises={"SSHException": "True"},
             ensures={"an_existing_auth_handler_survives_a_rekey":
                      "implies(notnone(old(self.auth_handler)), opaque_id(self.auth_handler) == old(opaque_id(self.auth_handler))"
                      " and ghost('handlers_created') == old(ghost('handlers_created')))",
                      "a_server_gets_its_handler_at_the_first_newkeys":
                      "implies(self.server_mode and isnone(old(self.auth_handler)), notnone(self.auth_handler)"
                      " and ghost('handlers_created') == old(ghost('handlers_created')) + 1)"})
    global TARGETS
    TARGETS = [t for t in TARGETS if not (isinstance(t, tuple) and t[1] == "handler-lifetime")]
    TARGETS.append((T + "_parse_newkeys", "handler-lifetime", dict(c, **{
        "+replace": True, "+contracts": dict(E2.contracts), "+fields": {k: dict(d["fields"]) for k, d in E2.classdecl.items()},
        "+engine": {"auto_opaque": True, "ghost_types": dict(E.ghost_types, **E2.ghost_types)}})))


CLAIMED = True
LEVEL_TEXT = ("Proof on the real AST: whenever the application is consulted during a USERAUTH_REQUEST, the username it is "
              "asked about equals the handler's pinned auth_username, which is unchanged if it was already set, and the "
              "requested service is 'ssh-connection'; a disconnect without consultation sends no verdict and authenticates "
              "nobody; _send_auth_result increases auth_fail_count by exactly one per plain failure and the count reaching "
              "ten implies a disconnect (transport inactive, so the dispatch loop evaluates nothing further); Transport._parse_newkeys "
              "creates the server's AuthHandler only when there is none and keeps an existing one across a re-key, so the pin "
              "and the count survive a re-key in the middle of the authentication phase.")
LEVEL_NOTE = ("Assumed: _disconnect_* close the transport (contract: active becomes False); the dispatch loop stops when "
              "active is False (C12/C15 fragment). The service comparison is read through the function's local variable "
              "'service' (a rename makes the check report a checker fault, not a violation).")
TECHNIQUE = "deductive: postconditions over ghost consultation log on the real AST, z3"
