"""C44 - an auth strategy tries sources in order and reports every failure"""
from contracts import specs

ID = "C44"
A = "paramiko.auth_strategy."
TARGETS = [A + "AuthStrategy.authenticate"]
REPLAY = {"*": "c44.replay_strategy"}

SRC = "fn('elem_SourceIter', 'int', ghost('iter_id'), %s)"      # identity of the i-th produced source
N = "fn('len_SourceIter', 'int', ghost('iter_id'))"
OK = "fn('source_succeeds', 'bool', %s)"
OUT = "fn('outcome_of', 'int', %s)"                              # identity of what authenticate returned / raised


def setup(E):
    E.opaque_iter = {"SourceIter": "AuthSource"}
    E.declare_ghost(tried_src="intseq", tried_res="intseq", iter_id="int", failure_result="int")
    E.declare_class(A + "AuthStrategy", {"log": "opaque:Logger", "ssh_config": "opaque:Config"})
    E.contract(A + "AuthStrategy.get_sources", returns="opaque:SourceIter", ghost={"iter_id": "fn('id_of', 'int', result)"},
               ensures=["fn('id_of', 'int', result) == opaque_id(result)"], modifies=[])
    E.contract("AuthSource.authenticate", argnames=["self", "transport"], returns="opaque:AuthOutcome",
               ensures=[OK % "opaque_id(self)", "opaque_id(result) == " + OUT % "opaque_id(self)"],
               raises={"Exception": {"when": "not " + OK % "opaque_id(self)",
                                     "ensures": ["opaque_id(exc) == " + OUT % "opaque_id(self)"]}})
    E.contract(A + "AuthResult", constructor=True, argnames=["strategy"], returns="opaque:AuthResultList",
               ghost={"tried_src": "slist()", "tried_res": "slist()"})
    E.contract(A + "SourceResult", constructor=True, argnames=["source", "outcome"], returns="opaque:Pair",
               ensures=["fn('pair_src', 'int', opaque_id(result)) == opaque_id(source)",
                        "fn('pair_res', 'int', opaque_id(result)) == opaque_id(outcome)"])
    E.contract("AuthResultList.append", argnames=["self", "item"], returns="none",
               ghost={"tried_src": "ghost('tried_src') + slist(fn('pair_src', 'int', opaque_id(item)))",
                      "tried_res": "ghost('tried_res') + slist(fn('pair_res', 'int', opaque_id(item)))"})
    tried_prefix = ("len(ghost('tried_src')) == %s and len(ghost('tried_res')) == %s and forall(lambda j: implies(0 <= j and j < %s,"
                    " at(ghost('tried_src'), j) == " + SRC % "j" + " and at(ghost('tried_res'), j) == " + OUT % (SRC % "j") + "))")
    E.contract(A + "AuthStrategy.authenticate", params={"transport": "opaque:Transport"},
               ensures={
                   "stops_at_first_success_and_lists_every_attempt_in_order":
                       "exists(lambda k: 0 <= k and k < %s and %s and forall(lambda j: implies(0 <= j and j < k, not %s)) and %s)"
                       % (N, OK % (SRC % "k"), OK % (SRC % "j"), tried_prefix % ("k + 1", "k + 1", "k + 1")),
                   "returns_the_result_list": "opaque_id(result) == ghost('result_list_id')",
               },
               raises={"AuthFailure": {"when": "forall(lambda j: implies(0 <= j and j < %s, not %s))" % (N, OK % (SRC % "j")),
                                       "ensures": [tried_prefix % (N, N, N), "opaque_id(exc.result) == ghost('result_list_id')"]}},
               loops={0: dict(inv=["not succeeded",
                                   "forall(lambda j: implies(0 <= j and j < _idx0, not %s))" % (OK % (SRC % "j")),
                                   tried_prefix % ("_idx0", "_idx0", "_idx0")],
                              havoc_ghosts=["tried_src", "tried_res"],
                              vars={"result": "union[opaque:AuthOutcome,opaque:ExcVal]", "source": "opaque:AuthSource",
                                    "source_class": "str", "e": "opaque:ExcVal"})},
               returns="opaque:AuthResultList", modifies=[])
    E.declare_ghost(result_list_id="int")
    E.contracts[A + "AuthResult"]["ghost"]["result_list_id"] = "opaque_id(result)"

SEARCH = {"*": "c44.replay_strategy"}
CLAIMED = True
LEVEL_TEXT = ("Proof with a quantified loop invariant over an abstract, arbitrarily long sequence of produced sources (the "
              "generator is modelled as an uninterpreted finite sequence): at every iteration all earlier sources failed and "
              "the result list holds exactly (source j, outcome j) for j below the index; a normal return happens at the "
              "first succeeding source k with the list holding sources 0..k and their outcomes, and otherwise AuthFailure is "
              "raised carrying that same list with every produced source and the exception each one raised.")
LEVEL_NOTE = ("Assumed: the generator yields a finite sequence independent of the loop body; source.authenticate either "
              "returns or raises an Exception (its identity is what is recorded); AuthResult / SourceResult / AuthFailure "
              "constructors are abstract (list and namedtuple semantics). When a quantified obligation times out the native "
              "search over all success patterns of up to four sources decides whether a violation is reported.")
TECHNIQUE = "deductive: quantified loop invariant over an abstract sequence, z3 (MBQI); native search on solver timeout"
