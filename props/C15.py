"""C15 - unauthenticated clients cannot reach connection-layer services"""
import ast
import z3
from contracts import transport, specs

ID = "C15"
T = "paramiko.transport.Transport."
TARGETS = [T + "_ensure_authed", transport.RUN_ITER]
REPLAY = {"*": "c15.replay_unauth"}
MAX_PATHS = 20000


def setup(E):
    transport.declare_c15(E)
    # when verifying the loop fragment, _ensure_authed is used through its (verified) contract


def lemmas(E):
    """structural: channels are only ever constructed in open_channel (client side) and _parse_channel_open"""
    allowed = {T + "open_channel", T + "_parse_channel_open"}
    out = []
    found = 0
    for qn, fi in sorted(E.src.funcs.items()):
        if fi.module != "paramiko.transport" or "::" in qn:
            continue
        for n in ast.walk(fi.node):
            if isinstance(n, ast.Call) and isinstance(n.func, ast.Name) and n.func.id == "Channel":
                found += 1
                out.append(("structure::Channel_constructed_only_in_open_paths(%s)" % qn, [], z3.BoolVal(qn in allowed)))
    out.append(("structure::Channel_constructor_sites_found", [], z3.BoolVal(found >= 2)))
    return out


CLAIMED = True
LEVEL_TEXT = ("Proof: _ensure_authed returns a refusal for every type > 79 whenever the transport is a server whose peer is not "
              "authenticated (and None otherwise); one arbitrary iteration of the dispatch loop in that state (fragment of "
              "Transport.run, symbolic type) invokes no handler for any connection-layer type - so the application is not "
              "consulted and no channel is constructed - and answers CHANNEL_OPEN / GLOBAL_REQUEST with exactly one refusal; "
              "channel messages find no channel because none was ever allocated. Channel construction sites are pinned by a "
              "structural obligation.")
LEVEL_NOTE = ("Assumed: ChannelMap.get returns None while no channel has been allocated; handlers are the only code that "
              "calls into ServerInterface (their bodies are verified under C14/C16/C18, here they have generic contracts and "
              "are shown not to be called); the CHANNEL_OPEN refusal decodes peer text and may raise UnicodeDecodeError "
              "(C38's business).")
TECHNIQUE = "deductive: function contract + loop-body fragment with ghost call counter, z3; structural obligations"
