"""C43 - group-exchange modulus selection honours the client's size range"""
from contracts import primes

ID = "C43"
TARGETS = ["paramiko.primes.ModulusPack.get_modulus"]
REPLAY = {"*": "c43.replay_get_modulus"}
SEARCH = {"*": "c43.search_get_modulus"}


def setup(E):
    primes.declare(E)

CLAIMED = True
LEVEL_TEXT = ("Proof over every moduli table (symbolic int-keyed map), and every (min, prefer, max): get_modulus returns a "
              "(generator, modulus) taken from pack[K] where K is the least in-range size >= prefer if one exists, else the "
              "greatest in-range size; quantified loop invariants for both selection loops are discharged on the real AST; "
              "SSHException exactly for an empty table; no KeyError/IndexError can escape.")
LEVEL_NOTE = ("Assumed: sorted(dict.keys()) enumerates exactly the keys in increasing order; every list stored in pack is "
              "non-empty (rep invariant established by _parse_modulus, which appends right after creating a list); "
              "_roll_random(n) returns 0<=r<n (probabilistic termination not proved). The admission test of _parse_modulus "
              "(primality-test fields, bit length) is read from the code but not under contract yet: that clause of the "
              "statement is not decided here.")
TECHNIQUE = "deductive: quantified loop invariants over a symbolic map, z3 (MBQI) on VCs from the real AST"
