"""C03 - outgoing packets are framed and padded as RFC 4253 section 6 requires"""
import z3
from contracts import packet, message

ID = "C03"
TARGETS = ["paramiko.packet.Packetizer._build_packet", "paramiko.packet.Packetizer.send_message"]
REPLAY = {"*": "c03.replay_build_packet"}
TRUSTED = ["os.urandom(n) returns n bytes", "struct.pack('>IB') big-endian digits (pack32 opaque + lemmas)"]


def setup(E):
    message.declare(E)
    packet.declare(E)
    packet.declare_send(E)


def lemmas(E):
    """table obligations: the sizes in the real _cipher_info / _mac_info satisfy the preconditions used above"""
    out = []
    sp = E.tables["special"]
    for name, ci in sorted(sp["cipher_info"].items()):
        bs = ci["block-size"]
        out.append(("table::cipher_block_size_in_8_252[%s]" % name, [], z3.BoolVal(isinstance(bs, int) and 8 <= bs <= 252)))
    for name, mi in sorted(sp["mac_info"].items()):
        ok = isinstance(mi["size"], int) and isinstance(mi["digest_size"], int) and 0 < mi["size"] <= mi["digest_size"]
        out.append(("table::mac_size_le_digest_size[%s]" % name, [], z3.BoolVal(ok)))
    return out
