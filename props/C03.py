"""C03 - outgoing packets are framed and padded as RFC 4253 section 6 requires"""
import z3
from contracts import packet, message

ID = "C03"
TARGETS = ["paramiko.packet.Packetizer._build_packet", "paramiko.packet.Packetizer.send_message"]
REPLAY = {"_build_packet": "c03.replay_build_packet", "send_message": "c03.replay_send_message"}
TRUSTED = ["os.urandom(n) returns n bytes", "struct.pack('>IB') big-endian digits (pack32 opaque + lemmas)"]


def setup(E):
    message.declare(E)
    packet.declare(E)
    packet.declare_send(E)


def lemmas(E):
    """table obligations: the sizes in the real _cipher_info / _mac_info satisfy the preconditions used above"""
    out = []
    sp = E.tables["special"]
    for name, ci in sorted(sp["cipher_info"].items()):
        bs = ci["block-size"]
        out.append(("table::cipher_block_size_in_8_252[%s]" % name, [], z3.BoolVal(isinstance(bs, int) and 8 <= bs <= 252)))
    for name, mi in sorted(sp["mac_info"].items()):
        ok = isinstance(mi["size"], int) and isinstance(mi["digest_size"], int) and 0 < mi["size"] <= mi["digest_size"]
        out.append(("table::mac_size_le_digest_size[%s]" % name, [], z3.BoolVal(ok)))
    return out

CLAIMED = True
LEVEL_TEXT = ("Proof, for every payload length and every block size in [8,252] (and table obligations tying the real "
              "_cipher_info/_mac_info entries to that range): _build_packet's length field, padding 4..255, block "
              "alignment per framing mode and payload placement are postconditions discharged by SMT on the real AST; "
              "send_message's bytes-on-wire length = packet + MAC/tag length is a postcondition over ghost wire state.")
LEVEL_NOTE = ("Assumed: cipher update() is length preserving, AES-GCM encrypt adds a 16-byte tag, HMAC digest length = "
              "digest_size (uninterpreted), os.urandom(n) has length n, struct.pack big-endian; compression off and "
              "dump_packets covered; set_outbound_cipher/_activate_outbound establishing mac_size<=digest_size is a table "
              "obligation, the call chain itself is verified under C04.")
TECHNIQUE = "deductive: sidecar contracts + VC generation from the real AST, z3/cvc5"
