"""C03 - outgoing packets are framed and padded as RFC 4253 section 6 requires"""
import z3
from contracts import packet

ID = "C03"
TARGETS = ["paramiko.packet.Packetizer._build_packet"]
REPLAY = {"*": "c03.replay_build_packet"}
TRUSTED = ["os.urandom(n) returns n bytes", "struct.pack('>IB') big-endian digits (pack32 opaque + lemmas)"]


def setup(E):
    packet.declare(E)
