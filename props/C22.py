"""C22 - channel EOF and CLOSE are sent at most once and end data transmission"""
from contracts import channel

ID = "C22"
C = "paramiko.channel.Channel."
TARGETS = [C + "_send_eof", C + "_close_internal", C + "_wait_for_send_window", C + "_send", C + "_handle_close"]
REPLAY = {"*": "c22.replay_eof_close"}


def setup(E):
    channel.declare_c22(E)


CLAIMED = True
LEVEL_TEXT = ("Proof with the monitor rule on Channel.lock (fields re-read after every wait, invariant at every release): "
              "_send_eof creates the EOF message exactly when none was created before and marks it sent; _close_internal "
              "creates CLOSE exactly when the channel is active and not yet closed, preceded by EOF unless that was already "
              "sent, and marks both; eof_sent / closed are written nowhere else (structural obligation), so at most one of "
              "each is ever created; _wait_for_send_window grants window only while neither flag is set - also after being "
              "woken by a late WINDOW_ADJUST - and _send builds a data message only then; _handle_close answers the peer's "
              "CLOSE with ours unless already sent, as the last message, and releases the channel. One obligation fails on "
              "the pinned tree and is a listed known finding: the data message is handed to the transport after the lock "
              "is released, so another thread's EOF / CLOSE can overtake it on the wire.")
LEVEL_NOTE = ("Known finding (design-level, not repaired: the code releases the lock on purpose to avoid a re-key deadlock): "
              "wire order EOF CLOSE DATA under the schedule replayed by harness c22.schedule_close_between_debit_and_send. "
              "'Released on both sides once both CLOSEs were exchanged' is shown for the receiving side (_handle_close "
              "unlinks); the closing side's release when the peer's CLOSE arrives is the same function. Assumed: "
              "threading.Lock / Condition semantics; BufferedPipe.close and the pipe objects have no effect on these flags.")
TECHNIQUE = "deductive: monitor invariants + postconditions on the real AST, ghost record of messages handed to the transport, z3"


def lemmas(E):
    """structural: eof_sent and closed are assigned only in __init__, _send_eof and _set_closed"""
    import ast
    import z3
    out = []
    allowed = {"eof_sent": {C + "__init__", C + "_send_eof"}, "closed": {C + "__init__", C + "_set_closed"}}
    found = 0
    for qn, fi in sorted(E.src.funcs.items()):
        if not qn.startswith("paramiko.") or "::" in qn:
            continue
        for n in ast.walk(fi.node):
            tg = []
            if isinstance(n, ast.Assign):
                tg = n.targets
            elif isinstance(n, (ast.AugAssign, ast.AnnAssign)):
                tg = [n.target]
            for t in tg:
                for a in ast.walk(t):
                    if isinstance(a, ast.Attribute) and a.attr in allowed and fi.cls == "paramiko.channel.Channel":
                        found += 1
                        out.append(("structure::%s_assigned_only_where_expected(%s)" % (a.attr, qn), [], z3.BoolVal(qn in allowed[a.attr])))
    out.append(("structure::flag_assignments_found", [], z3.BoolVal(found >= 4)))
    return out
