"""C36 - keys survive serialisation and new key files are private to the owner (the part within reach of contracts)"""
from contracts import pkey_eq

ID = "C36"
P = "paramiko.pkey.PKey."
TARGETS = [P + "__eq__", P + "__hash__", "paramiko.rsakey.RSAKey._fields", P + "_write_private_key_file",
           "paramiko.ecdsakey.ECDSAKey.asbytes"]
REPLAY = {"*": "c36.replay_keys", "ECDSAKey.asbytes": "c36.ecdsa_short_coordinate"}


def setup(E):
    pkey_eq.declare(E)
    pkey_eq.declare_ecdsa_blob(E)


CLAIMED = True
LEVEL_TEXT = ("Proof on the real AST of the two clauses contracts can reach: PKey.__eq__ returns True exactly when the other "
              "object is a key whose tuple of public material (_fields) is the same, and PKey.__hash__ is a function of that "
              "tuple only; RSAKey._fields is (algorithm name, e, n) and nothing else; PKey._write_private_key_file creates "
              "the file with exactly one os.open carrying flags O_WRONLY|O_TRUNC|O_CREAT and mode 0o600, and the key is "
              "written only after that open - there is no window in which the file exists with wider permissions.")
LEVEL_NOTE = ("NOT decided (stated, not claimed): that a key's public encoding parses back into an equal key, that a written "
              "private key loads back (with or without passphrase) - serialisation, encryption and PEM handling are inside "
              "the cryptography library, an uninterpreted external here; the harness replays one write/load round trip and "
              "the file mode under umask 0 natively. ECDSAKey / Ed25519Key._fields have the same shape (name plus public "
              "numbers / verify key) and are covered by the harness only. hash() of a tuple is a function of the tuple.")
TECHNIQUE = "deductive: postconditions over an abstract 'public material' function and ghost record of the os.open call, real AST, z3"
