"""C05 - algorithm negotiation picks the client's first mutually supported algorithm"""
from contracts import negotiation

ID = "C05"
T = "paramiko.transport.Transport."
TARGETS = [T + "_parse_kex_init", T + "_send_kex_init"]
REPLAY = {"*": "c05.replay_negotiation", "_filter_algorithm": "c05.filter_follows_configuration"}
MAX_PATHS = 20000


def setup(E):
    negotiation.declare(E)
    negotiation.declare_send(E)
    global TARGETS
    TARGETS = [t for t in TARGETS if not (isinstance(t, tuple) and str(t[1]).startswith("filter-"))]
    for kind in ("kex", "ciphers", "macs", "keys", "compression", "pubkeys"):
        TARGETS.append(negotiation.filter_variant(E, kind))


def lemmas(E):
    """table obligations: no preference list of the real Transport contains a marker pseudo-algorithm, and every kex name
    it can prefer has an engine (so stripping markers from the peer's list cannot change a first-match result, and the
    table lookup of the chosen kex cannot fail)"""
    import z3
    from pyvc.extract import dec
    out = []
    attrs = E.tables["classes"]["paramiko.transport.Transport"]["attrs"]
    for cat in ("_preferred_kex", "_preferred_keys", "_preferred_ciphers", "_preferred_macs", "_preferred_compression", "_preferred_pubkeys"):
        names = dec(attrs[cat])
        ok = all(isinstance(x, str) and not x.startswith("ext-info-") and not x.startswith("kex-strict-") for x in names)
        out.append(("table::no_marker_in%s" % cat, [], z3.BoolVal(bool(ok))))
    kinfo = dec(attrs["_kex_info"]) if attrs["_kex_info"]["k"] == "dict" else {}
    out.append(("table::every_preferred_kex_has_an_engine", [], z3.BoolVal(all(x in kinfo for x in dec(attrs["_preferred_kex"])))))
    return out


CLAIMED = True
LEVEL_TEXT = ("Proof on the real AST of Transport._parse_kex_init with name lists of ANY length (abstract sequences; filter() "
              "given the observable part of its definition): for kex, host key, cipher, MAC and compression - each direction "
              "- the name stored is the first element of the CLIENT's list that the server's list contains, in both roles "
              "(server: peer's list iterated, own preference tested; client: own preference iterated, peer's list tested); "
              "the host key type is additionally one the server holds a key for; IncompatiblePeer is raised only when some "
              "category (or direction) has no common name or the server holds no key of the agreed type; every chosen name "
              "is a member of the local preference list (hence not disabled); MessageOrderError is raised exactly when "
              "strict kex was agreed, the first exchange is unfinished and the KEXINIT's sequence number is not 0; all "
              "negotiated name fields are set on return. _send_kex_init puts on the wire, as its kex list, the preference "
              "list that selection will use (the obligation that exposed the fixed group-exchange defect). Table "
              "obligations: no preferred list contains an ext-info / kex-strict marker; every preferred kex has an engine.")
LEVEL_NOTE = ("Both peers agree: each side's result is the same function (client's first in server's list) of the two lists "
              "exchanged - argued from the two role-symmetric postconditions, replayed natively by harness c05 on two real "
              "transports. Assumed: removing the marker entries from the peer's kex list leaves membership of every other "
              "name and their order unchanged (list.pop of exactly the marker positions; the strip loop's effect on the "
              "abstract list is not modelled) - with the table obligation this cannot change a first-match result. "
              "preferred_* lists are functions of the configuration (disabled_algorithms filtering is _filter_algorithm, a "
              "one-line generator). Message.get_list / add_list are C39's.")
TECHNIQUE = "deductive: existential first-match postconditions over abstract sequences with a specified filter(), real AST, z3"
