"""C10 - long-lived sessions are re-keyed and peers that refuse re-keying are dropped"""
from contracts import packet_frames, transport, kdf

ID = "C10"
P = "paramiko.packet.Packetizer."
MODES = [("none", 8, False), ("classic", 16, False), ("etm", 16, False), ("aead", 16, False), ("classic", 8, False)]
TARGETS = [(P + "send_message", "%s-bs%d" % (m, bs), packet_frames.send_contract(m, bs, z)) for m, bs, z in MODES]
TARGETS += [(P + "read_message", "%s-bs%d" % (m, bs), packet_frames.read_contract(m, bs, z)) for m, bs, z in MODES]
TARGETS += [P + "read_all", P + "set_inbound_cipher", P + "set_outbound_cipher",
            (transport.RUN_ITER, "rekey-start", {})]
REPLAY = {"*": "c10.replay_rekey"}
MAX_PATHS = 20000


def setup(E):
    packet_frames.declare_common(E)
    # leaving the exchange: in_kex is cleared on what the packetizer says AFTER the inbound direction has switched too (it
    # drops its need-rekey flag when the second direction switches); asked earlier, the answer is the stale "needed" and
    # in_kex stays set for good - no later threshold crossing would start an exchange
    global TARGETS
    TARGETS = [t for t in TARGETS if not (isinstance(t, tuple) and t[1] == "leaving-the-exchange")]
    TARGETS.insert(len(TARGETS) - 1, transport.newkeys_variant(E, "leaving-the-exchange", {
        "the_exchange_is_left_on_the_packetizers_state_after_both_directions_switched":
            "ghost('inbound_switched') and ghost('need_asked_after_switch') and self.in_kex == (old(self.in_kex) and ghost('need_answer'))"}))
    kdf.declare_setters(E)
    # the loop fragment is verified in its own environment (handlers generic, packetizer by contract)
    saved = dict(E.contracts)
    transport.declare_c10(E)
    packet_frames.declare_fields(E)
    kdf.declare_setters(E)
    loop_env = {k: v for k, v in E.contracts.items() if saved.get(k) is not v}
    for k in list(E.contracts):
        if k in saved:
            E.contracts[k] = saved[k]
        elif k != transport.RUN_ITER:
            pass
    TARGETS[-1] = (transport.RUN_ITER, "rekey-start", dict(E.contracts[transport.RUN_ITER], **{"+contracts": {
        k: v for k, v in loop_env.items() if k != transport.RUN_ITER}}))


CLAIMED = True
LEVEL_TEXT = ("Proof on the real AST with the thresholds symbolic (any positive REKEY_* values): send_message and read_message "
              "count every packet and its wire bytes, set the re-key request exactly when a counter reaches its threshold, "
              "restart the overflow allowance only at the moment the request is first raised, and - while the request is "
              "pending - read_message counts the peer's packets and bytes against the allowance and raises SSHException as "
              "soon as either reaches its maximum (a normal return implies both are still below it); read_all raises "
              "NeedRekeyException only before consuming anything; set_inbound_cipher / set_outbound_cipher zero the "
              "counters of their direction and clear the request only after both directions have switched; one arbitrary "
              "iteration of Transport.run's loop starts a key exchange before the next read whenever a request is pending "
              "and no exchange is running. Induction over the traffic is immediate.")
LEVEL_NOTE = ("Framing modes none / classic / EtM / AES-GCM, block sizes 8 and 16, well-formed peer frames (contracts shared "
              "with C01). 'Traffic continues intact after the exchange' is C01 plus C11 and is not decided here. Idle "
              "connections: the NeedRekeyException path of read_all is shown to lose no data; that the loop iterates again "
              "is part of the loop-fragment obligation.")
TECHNIQUE = "deductive: postconditions over counters with symbolic thresholds on the real AST, loop-body fragment, z3"
