"""C40 - SSH config lookup follows OpenSSH first-obtained-value semantics (structural core)"""
import os
from contracts import specs

ID = "C40"
L = "lemmas.c40."
TARGETS = [L + "hostnames_total", L + "lookup_first_obtained_value", L + "lookup_identityfile_repeated_within_a_block"]
REPLAY = {"*": "c40.replay_config"}
MAX_PATHS = 20000


def setup(E):
    here = os.path.dirname(os.path.dirname(os.path.abspath(__file__)))
    E.src.add_file(os.path.join(here, "contracts", "lemmas_c40.py"), "lemmas.c40")
    E.auto_opaque = True
    E.declare_class("paramiko.config.SSHConfig", {})
    E.inline("paramiko.config.SSHConfig.__init__", "paramiko.config.SSHConfig.get_hostnames", "paramiko.config.SSHConfig._lookup",
             "paramiko.config.SSHConfig._does_match")
    E.contract("paramiko.config.SSHConfig._pattern_matches", params={"patterns": "any", "target": "str"}, returns="bool",
               ensures=["result == fn('block_applies', 'bool', patterns, target)"], modifies=[])
    E.contract("paramiko.config.SSHConfig._expand_variables", returns="expr:config", modifies=[])
    S = {"h1": "str", "h2": "str", "h3": "str"}
    E.contract(L + "hostnames_total", params=dict(S, first_is_host="bool", second_is_host="bool"), raises={})
    E.contract(L + "lookup_first_obtained_value",
               params={"hostname": "str", "p1": "str", "p2": "str", "u1": "str", "u2": "str", "port2": "str",
                       "id1": "str", "id2": "str", "id3": "str"},
               requires=["id1 != id2", "id2 != id3"], raises={})
    E.contract(L + "lookup_identityfile_repeated_within_a_block",
               params={"hostname": "str", "p1": "str", "p2": "str", "id1": "str", "id2": "str", "id3": "str"}, raises={})

CLAIMED = True
LEVEL_TEXT = ("Proof of the structural core by lemma programs that build a configuration the way parse() does and run the "
              "real get_hostnames and _lookup bodies: get_hostnames is total and returns every Host pattern when Host and "
              "Match blocks are mixed; for three blocks with symbolic patterns, values and applicability, each scalar option "
              "comes from the first applying block, IdentityFile is the ordered duplicate-free union over applying blocks, "
              "and the stored configuration is not modified by a lookup.")
LEVEL_NOTE = ("Bounded in the number of blocks (leading 'Host *' plus two) and in the option keys used (user, port, "
              "identityfile); unbounded in all strings and in which blocks apply. 'A Host block applies' is the uninterpreted "
              "predicate returned by _pattern_matches (fnmatch, negation), Match-block evaluation, parse() (regular "
              "expressions, shlex) and %-token expansion are assumed, not verified.")
TECHNIQUE = "deductive: lemma programs over the real bodies with an uninterpreted applicability predicate, z3 (bounded in block count)"
