"""C30 - every SFTP request completes with exactly one well-formed response"""
from contracts import sftp_server, specs

ID = "C30"
S = "paramiko.sftp_server.SFTPServer."
RESP = dict(ensures={"one_packet": "ghost('resp_count') == old(ghost('resp_count')) + 1",
                     "type_as_given": "ghost('resp_type') == t",
                     "carries_request_id_first": "ghost('resp_payload')[0:4] == pack32(request_number)",
                     "same_request_id": "ghost('resp_id') == request_number"},
            returns="none", modifies=[], raises={"struct.error": "True"}, ghost=None)
TARGETS = [S + "_process",
           (S + "_response", "code,desc,lang", dict(RESP, params={"request_number": "u32", "t": "int", "args": "tuple[int,str,str]"})),
           (S + "_response", "data", dict(RESP, params={"request_number": "u32", "t": "int", "args": "tuple[bytes]"})),
           (S + "_response", "count,name,longname,attrs", dict(RESP, params={"request_number": "u32", "t": "int", "args": "tuple[int,str,str,obj:SFTPAttributes]"})),
           (S + "_send_status", "own-body", dict(params={"request_number": "u32", "code": "int", "desc": "opt[str]"}, ghost=None,
                                            ensures={"one_status_packet": "ghost('resp_count') == old(ghost('resp_count')) + 1 and ghost('resp_type') == 101 and ghost('resp_id') == request_number"},
                                            raises={"Exception": "ghost('resp_count') == old(ghost('resp_count'))"},
                                            returns="none", modifies=[]))]
REPLAY = {"*": "c30.replay_process", "_check_file": "c30.replay_check_file",
          "answers_are_taken_off_the_wire": "c30.listdir_iter_with_pipelined_write"}
MAX_PATHS = 20000


def setup(E):
    sftp_server.declare_c30(E)
    # client half ("a client whose server answers every request never blocks forever"): a request is registered before it
    # is sent, and every answer taken off the wire is returned or handed to the owner of that request (shared with C29)
    from contracts import sftp_file
    TARGETS[:] = [t for t in TARGETS if not (isinstance(t, tuple) and t[1] in ("registration", "dispatch"))]
    TARGETS.extend(sftp_file.client_variants(E))
    sftp_server.declare_c30_helpers(E)
    # _check_file against its own body (C30-a: a second response after a failed read), in this property's own
    # environment: generic handle contracts, response counter carried through both loops
    TARGETS.append((S + "_check_file", "own-body", sftp_server.c30_check_file_contract(E)))
    E.contract("paramiko.message.Message.get_list", requires={}, returns="tuple[str]", raises={"UnicodeDecodeError": "True"},
               ensures=["0 <= self.packet.tell() and self.packet.tell() <= len(self.packet.getvalue())"],
               modifies=["self.packet.pos"])
    E.contract("paramiko.sftp_attr.SFTPAttributes._pack", params={"msg": "obj:Message"}, returns="none",
               requires=["msg.packet.tell() == len(msg.packet.getvalue())"],
               # appends some encoding of the attributes (C33 says which); written definitionally to keep the buffer's shape
               cases=[dict(name="appended", when="True",
                           post={"msg.packet.buf": "msg.packet.getvalue() + fn('packed_attrs', 'bytes', self)",
                                 "msg.packet.pos": "len(msg.packet.getvalue()) + len(fn('packed_attrs', 'bytes', self))"})],
               modifies=["msg.packet.buf", "msg.packet.pos"], raises={"struct.error": "True"})

def lemmas(E):
    """structural: on the client, answers are taken off the wire only by the dispatch loop SFTPClient._read_response (which
    returns the awaited one and hands every other to its owner); a second reader would take answers that belong to
    someone else and leave their owners waiting"""
    import ast
    import z3
    out = []
    found = 0
    for qn, fi in sorted(E.src.funcs.items()):
        if fi.module not in ("paramiko.sftp_client", "paramiko.sftp_file") or "::" in qn:
            continue
        for n in ast.walk(fi.node):
            if isinstance(n, ast.Call) and isinstance(n.func, ast.Attribute) and n.func.attr == "_read_packet":
                found += 1
                out.append(("structure::answers_are_taken_off_the_wire_only_by_the_dispatch_loop(%s)" % qn, [],
                            z3.BoolVal(qn.endswith("SFTPClient._read_response"))))
    out.append(("structure::the_dispatch_loop_reads_packets", [], z3.BoolVal(found >= 1)))
    return out


CLAIMED = True
LEVEL_TEXT = ("Proof for the server side: _process, for every request type 0..255 and every message, either returns normally "
              "having caused exactly one response packet whose id is the request's and whose type is STATUS or the type "
              "valid for that request (HANDLE, DATA, NAME, ATTRS, EXTENDED_REPLY), or raises having sent nothing (so that "
              "start_subsystem's handler sends the one STATUS(FAILURE)); _response (three argument shapes) and _send_status "
              "are verified to emit exactly one packet of the given type that starts with the request id (the id of a response "
              "is defined as the first uint32 of the packet given to _send_packet); _check_file is verified against its own "
              "body with both loops under an invariant on the response counter: one STATUS or EXTENDED_REPLY with the "
              "request's id on return, nothing sent when the user's handle raises. What the reply contains and that the "
              "loops terminate are proved under C32. Client side, two safety clauses behind 'never blocks forever' (contracts shared "
              "with C29): SFTPClient._async_request registers a request, under the number it returns and the object given, "
              "before it goes out on the wire; SFTPClient._read_response returns only the awaited answer and hands every other "
              "answer it takes off the wire to the owner of that very request; nothing else on the client takes answers off the "
              "wire (structural obligation over sftp_client.py / sftp_file.py).")
LEVEL_NOTE = ("Assumed (generic contracts): the user's SFTPServerInterface / SFTPHandle callbacks return values or raise; "
              "_send_handle_response, _open_folder and _read_folder send one packet of their two possible types (not yet "
              "verified against their bodies); start_subsystem's catch-all is read, not verified. The client-side half of the "
              "statement (a client never blocks forever when every request is answered) is liveness over threads and waits: "
              "only the two safety clauses above (registration before sending, delivery to the owner) are decided; together "
              "with C28's retire clauses and C29's status collection they are what the waits rely on. A structural obligation "
              "keeps the dispatch loop the only reader of answers (found and repaired: listdir_iter read raw packets, fix "
              "3e458fc).")
TECHNIQUE = "deductive: ghost response counter/type over the dispatch function, symbolic request type, z3"
