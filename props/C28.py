"""C28 - prefetched and vectored SFTP reads return exactly the file's bytes"""
import ast
import z3
from contracts import prefetch

ID = "C28"
F = "paramiko.sftp_file.SFTPFile."
UNDER_CONTRACT = ["_data_in_prefetch_buffers", "_read_prefetch", "_async_response", "_read", "readv", "prefetch",
                  "_prefetch_thread", "seek"]
TARGETS = [F + f for f in UNDER_CONTRACT]
REPLAY = {"*": "c28.replay_reads",
          "every_answer_to_a_prefetch_read_retires_its_request": "c28.readv_past_end_then_read",
          "end_of_file_is_not_an_error": "c28.short_read_then_end_of_file_answer",
          "prefetch_is_restarted_only_with_something_to_fetch": "c28.readv_nothing_to_fetch_then_read"}
MAX_PATHS = 20000


def setup(E):
    prefetch.declare(E)
    prefetch.declare_answers(E)
    prefetch.declare_requests(E)


def lemmas(E):
    """structural: the prefetch buffer and the request table are reached only from functions under contract here (plus
    __init__, which creates them empty, and _data_in_prefetch_requests, which only reads the request table) - the
    soundness condition of carrying their invariant in the contracts of the abstract map types"""
    out = []
    found = 0
    allowed = set(UNDER_CONTRACT) | {"__init__"}
    for qn, fi in sorted(E.src.funcs.items()):
        if not qn.startswith("paramiko.") or "::" in qn:
            continue
        for n in ast.walk(fi.node):
            if isinstance(n, ast.Attribute) and n.attr in ("_prefetch_data", "_prefetch_extents"):
                found += 1
                fn = qn.rsplit(".", 1)[-1]
                ok = qn.startswith(F) and (fn in allowed or (fn == "_data_in_prefetch_requests" and n.attr == "_prefetch_extents"
                                                              and isinstance(n.ctx, ast.Load)))
                if fn == "__init__":
                    ok = ok and True
                out.append(("structure::prefetch_tables_reached_only_from_functions_under_contract(%s.%s)" % (fn, n.attr), [],
                            z3.BoolVal(bool(ok))))
    out.append(("structure::prefetch_table_uses_found", [], z3.BoolVal(found >= 10)))
    return out


BOUNDED = [("c28.replay_reads", "prefetch / readv programs against a real server with arbitrary short reads (bounded stand-in "
            "for the server assumption and the thread interplay; thorough tier only)", "thorough")]
CLAIMED = True
LEVEL_TEXT = ("Proof on the real AST with the remote file as a ghost byte string FILE and the prefetch buffer as an abstract map "
              "whose operations carry the data-structure invariant 'every entry holds FILE's bytes at its own key' (stores "
              "must establish it - an obligation at each of the three store sites -, lookups may rely on it; the dict is "
              "reached from nowhere else: structural obligation). _data_in_prefetch_buffers reports only a buffer that covers "
              "the offset; _read_prefetch returns either nothing or between 1 and size bytes that are FILE's bytes at the "
              "underlying position, and what it puts back (head and tail of a split buffer) is again true content at its "
              "own offset; _read returns FILE's bytes at the underlying position whether they come from the buffers or from "
              "a synchronous READ; _prefetch_thread records for each request number exactly the range it asked for; "
              "_async_response stores a DATA answer at the offset recorded for that very request, retires the request for "
              "every answer to a prefetch read (DATA or status) and for nothing else, marks the prefetch done once nothing "
              "is recorded, does not treat an end-of-file answer as an error and saves any other refusal; prefetch() and "
              "readv() restart the machinery only with at least one request; seek() puts both positions at the offset and "
              "drops read-ahead; every block readv() yields is exactly FILE's bytes in that chunk's own range, cut at the end "
              "of the file (obligation at the yield, with the read buffer coherent as loop invariant).")
LEVEL_NOTE = ("ASSUMED of the server: the DATA answer to READ(offset, n) is FILE[offset:offset+k] with 1 <= k <= n (short reads "
              "allowed), end of file is answered with the EOF status, every request is answered once, the file does not "
              "change while it is read. Assumed contracts: BufferedFile.read in position form (its stream form is verified "
              "under C42), SFTPClient._async_request / _request / _read_response (the dispatch is verified under C29). "
              "Sequential reasoning: the reader and the request thread share the two tables; the request table is always "
              "touched under _prefetch_lock, the buffer dict is written by the reader's own thread only (answers are "
              "dispatched from the reader's _read_response call) - stated, not proved. Liveness of the wait loop in "
              "_read_prefetch is argued from the three clauses about retiring requests, not proved as a termination "
              "obligation. Three defects this check found on the pinned tree are repaired (fix commits 46a5e8a, 41bb9ba, "
              "ae728a1).")
TECHNIQUE = ("deductive: abstract-map contracts carrying a data-structure invariant over a ghost file, yield obligations, "
             "call-site preconditions, real AST, z3")
