"""C13 - blocking calls return once the connection ends"""
from contracts import blocking

ID = "C13"
T = "paramiko.transport.Transport."
TARGETS = [T + "accept", T + "close", "paramiko.transport.ServiceRequestingTransport.ensure_session",
           "paramiko.proxy.ProxyCommand.recv", T + "run::part[shutdown]", (T + "open_channel::part[wait-for-the-peer]", "polling", {})]
REPLAY = {"*": "c13.replay_blocking", "_wait_for_send_window": "c13.sender_parked_when_the_link_ends"}


def setup(E):
    blocking.declare(E)
    blocking.declare_shutdown(E)
    saved = dict(E.classdecl[E.resolve_class('paramiko.transport.Transport')]['fields'])
    blocking.declare_open_channel(E)
    global TARGETS
    qn = T + 'open_channel::part[wait-for-the-peer]'
    TARGETS[-1] = (qn, 'polling', dict(E.contracts[qn], **{'+fields': {'paramiko.transport.Transport': {'_channels': 'opaque:ChanMap2'}}}))
    E.classdecl[E.resolve_class('paramiko.transport.Transport')]['fields'] = saved
    # a sender parked on an exhausted channel window when the connection ends: _set_closed wakes it (notify_all) and the
    # wait must then END - the loop contract of _wait_for_send_window (shared with C19 / C22 / C25) says: a waiter woken
    # while closed or eof_sent holds leaves the loop, and nothing is granted
    from contracts import channel
    E2 = type(E)()
    channel.declare_c22(E2)
    wq = "paramiko.channel.Channel._wait_for_send_window"
    TARGETS[:] = [t for t in TARGETS if not (isinstance(t, tuple) and t[1] == "woken-by-close")]
    TARGETS.insert(len(TARGETS) - 1, (wq, "woken-by-close", dict(E2.contracts[wq], **{
        "+replace": True, "+contracts": {k: v for k, v in E2.contracts.items() if k != wq},
        "+fields": {k: dict(d["fields"]) for k, d in E2.classdecl.items()},
        "+engine": {"monitors": E2.monitors, "ghost_types": dict(E2.ghost_types),
                    "inline_ok": set(E2.inline_ok) | set(E.inline_ok)}})))


CLAIMED = True
LEVEL_TEXT = ("Proof of sequential progress obligations on the real AST: Transport.accept never executes a wait without a "
              "timeout on a transport that has already ended; Transport.close notifies the accept condition, so a thread "
              "blocked in accept() is woken; the polling loop of ServiceRequestingTransport.ensure_session cannot start "
              "another round once the transport is inactive (it raises the saved exception or SSHException); "
              "ProxyCommand.recv leaves its select loop as soon as a read returns end of file; the shutdown block at the end "
              "of Transport.run (statement-range fragment) unlinks every channel, leaves the transport inactive and - when "
              "the loop itself ended the session - closes the packetizer, sets the completion event and every channel "
              "event, aborts the auth handler and notifies accept(). Together with C01 (read_all raises EOFError on an "
              "empty recv), C25 (a sender waiting for window stops when the channel closes) and C26 (readers return when "
              "the pipe is closed) the blocking calls cannot outlive the connection.")
LEVEL_NOTE = ("Decided here: the four sites that did NOT satisfy the property on the pinned tree (each re-derived as a failed "
              "obligation, reproduced natively and repaired - see known_findings.json) plus the shutdown block. 'Promptly' "
              "(bounded time), real threads and the interplay of the run loop with stop_thread are outside what contracts "
              "can state; the waits that carry a timeout (auth handler, channel open, global request: 0.1 s polls that test "
              "transport.active) are not re-verified here. Assumed: threading.Condition / Event semantics, os.read returns "
              "an empty string exactly at end of file.")
TECHNIQUE = "deductive: progress obligations (ghost counter of unbounded waits, exit invariants of polling loops) and a statement-range fragment, z3"
