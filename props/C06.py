"""C06 - key exchange authenticates the server's host key (the clauses contracts can reach)"""
import ast
import z3
from contracts import kexauth

ID = "C06"
T = "paramiko.transport.Transport."
TARGETS = [T + "_verify_key", T + "_set_K_H"]
REPLAY = {"*": "c06.replay_hostkey_signature"}
MAX_PATHS = 20000


def setup(E):
    kexauth.declare(E)
    # the client-side reply handlers (contracts shared with C08): _set_K_H before _verify_key, keys activated only after it
    from contracts import kex
    E2 = type(E)()
    kex.declare(E2)
    f2 = {c: dict(d["fields"]) for c, d in E2.classdecl.items()}
    global TARGETS
    TARGETS = TARGETS[:2]
    for qn in sorted(E2.contracts):
        if qn.endswith("_reply") and qn.startswith("paramiko.kex_"):
            TARGETS.append((qn, "reply-handler", dict(E2.contracts[qn], **{
                "+replace": True, "+contracts": {k: v for k, v in E2.contracts.items() if k != qn}, "+fields": f2,
                "+engine": {"auto_opaque": True, "inline_ok": set(E2.inline_ok) | set(E.inline_ok),
                            "ghost_types": dict(E.ghost_types, **E2.ghost_types), "opaque_contracts": dict(E2.opaque_contracts)}})))


def lemmas(E):
    """structural: session_id is assigned only in __init__ (None) and _set_K_H"""
    out = []
    found = 0
    for qn, fi in sorted(E.src.funcs.items()):
        if not qn.startswith("paramiko.") or "::" in qn:
            continue
        for n in ast.walk(fi.node):
            if isinstance(n, ast.Assign):
                for t in n.targets:
                    for a in ast.walk(t):
                        if isinstance(a, ast.Attribute) and a.attr == "session_id" and fi.cls and fi.cls.endswith("Transport"):
                            found += 1
                            ok = qn.endswith("._set_K_H") or (qn.endswith(".__init__") and isinstance(n.value, ast.Constant) and n.value.value is None)
                            out.append(("structure::session_id_assigned_only_in_set_K_H(%s)" % qn, [], z3.BoolVal(bool(ok))))
    out.append(("structure::session_id_assignments_found", [], z3.BoolVal(found >= 2)))
    return out


CLAIMED = True
LEVEL_TEXT = ("Proof on the real AST of the clauses contracts can reach: Transport._verify_key returns normally only if "
              "verify_ssh_sig was called and returned True, on the key object parsed from exactly the host key blob it was "
              "given, over exactly self.H (the current exchange hash) and the signature it was given, with the signature "
              "naming the negotiated algorithm, and it stores that key as the remote server key; _set_K_H stores K and H and "
              "sets the session identifier only when there is none yet; session_id is assigned nowhere else (structural "
              "obligation); every client-side reply handler (group1/14/16, group exchange, nistp256/384/521, curve25519) "
              "stores this exchange's K and H before the signature check and switches keys on only after it (with C08: only "
              "with a peer value in range). Hence a re-key cannot complete on a stale or missing signature check and the "
              "session id never changes.")
LEVEL_NOTE = ("NOT decided: that both peers compute the same K and H (transcript symmetry between the client and server "
              "handlers of each method - a relational property over pairs of functions - and the Diffie-Hellman algebra, "
              "which is external), and that an altered reply field changes H (needs an ideal hash). verify_ssh_sig itself is "
              "C35/C07. Assumed: the key class parses the blob it is handed.")
TECHNIQUE = "deductive: postconditions with ghost monitors on key parsing and signature verification, call-order preconditions, z3"
