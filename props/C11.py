"""C11 - key re-exchange is transparent to whatever traffic is in flight (the safety clauses contracts can reach)"""
from contracts import channel, transport

ID = "C11"
C = "paramiko.channel.Channel."
T = "paramiko.transport.Transport."
TARGETS = [C + f for f in ("_send", "recv", "recv_stderr", "_feed_extended", "close", "shutdown", "_request_failed", "_handle_close")]
TARGETS += [(T + "_send_user_message", "gate", {})]
REPLAY = {"*": "c11.replay_rekey_gate", "_send_user_message": "c11.inflight_request_during_exchange",
          "_parse_newkeys": "c11.inflight_request_during_exchange", "ungated_send": "c11.inflight_transport_handled_requests"}
BOUNDED = [("c11.inflight_request_during_exchange", "a channel request wanting a reply in flight towards the side that started a "
            "re-exchange (either side, link latency 0.3 s): the exchange completes, the session stays up, data flows afterwards"),
           ("c11.inflight_transport_handled_requests", "a global request wanting a reply / a channel open in flight towards the side that "
            "started a re-exchange: no connection-layer reply leaves before NEWKEYS, the session stays up, the open is answered"),
           ("c11.keepalive_due_during_exchange", "a keepalive falling due while the peer's NEWKEYS is held back 1.2 s, for a "
            "re-exchange started by the byte threshold, by the client and by the server", "thorough")]


def setup(E):
    channel.declare_c11(E)
    E2 = type(E)()
    transport.declare_c11(E2)
    qn = T + "_send_user_message"
    global TARGETS
    TARGETS[-1] = (qn, "gate", dict(E2.contracts[qn], **{
        "+replace": True, "+contracts": {k: v for k, v in E2.contracts.items() if k != qn},
        "+fields": {c: dict(d["fields"]) for c, d in E2.classdecl.items()},
        "+engine": {"monitors": {}, "ghost_types": dict(E.ghost_types, **E2.ghost_types), "inline_ok": set(E.inline_ok) | set(E2.inline_ok)}}))
    # the other half: what the transport thread held back during the exchange goes out in _parse_newkeys - every message, once,
    # under the lock and before 'clear to send' lets anybody else send
    TARGETS[:] = [t for t in TARGETS if not (isinstance(t, tuple) and t[1] == "held-back-traffic-goes-out")]
    TARGETS.insert(len(TARGETS) - 1, transport.newkeys_variant(E, "held-back-traffic-goes-out", {
        "every_message_held_back_during_the_exchange_is_sent":
            "ghost('flushed') == old(ghost('flushed')) + len(old(self._held_user_messages))",
        "and_before_anybody_else_may_send":
            "implies(not old(ghost('gate_open')), ghost('flushed_after_set') == old(ghost('flushed_after_set')))",
        "then_sending_is_open_again": "ghost('gate_open')",
        "nothing_stays_behind_to_be_sent_twice": "len(self._held_user_messages) == 0"}))


def lemmas(E):
    """structural, over the real AST of Transport: the ungated Transport._send_message is called only by the gate itself
    (_send_user_message, and _parse_newkeys flushing what was held back), by the key exchange's own messages (_send_kex_init,
    _activate_outbound: NEWKEYS / EXT_INFO), by ensure_session (SERVICE_REQUEST, before any connection-layer traffic) and by the
    run loop for MSG_UNIMPLEMENTED (a transport-layer message) - every other handler of the transport, whose replies are
    connection-layer messages (REQUEST_SUCCESS / FAILURE, CHANNEL_OPEN_CONFIRMATION / FAILURE), goes through the gate, which
    holds a reply back while an exchange is under way"""
    import ast
    import z3
    out = []
    allowed = {"_send_user_message", "_parse_newkeys", "_send_kex_init", "_activate_outbound", "ensure_session"}
    found = 0
    nth = {}
    for qn, fi in sorted(E.src.funcs.items()):
        if "::" in qn or not qn.startswith("paramiko.transport.") or "Transport." not in qn:
            continue
        fname = qn.rsplit(".", 1)[1]
        # statement lists, to look at what is built right before a call in the run loop
        for n in ast.walk(fi.node):
            for fld in ("body", "orelse", "finalbody"):
                blk = getattr(n, fld, None)
                if not (isinstance(blk, list) and blk and isinstance(blk[0], ast.stmt)):
                    continue
                for k, st in enumerate(blk):
                    if not (isinstance(st, ast.Expr) and isinstance(st.value, ast.Call) and isinstance(st.value.func, ast.Attribute)
                            and st.value.func.attr == "_send_message" and isinstance(st.value.func.value, ast.Name)
                            and st.value.func.value.id == "self"):
                        continue
                    found += 1
                    ok = fname in allowed
                    if fname == "run":
                        ok = any("cMSG_UNIMPLEMENTED" in ast.unparse(p) for p in blk[:k])
                    nth[qn] = nth.get(qn, 0) + 1
                    out.append(("structure::ungated_send_only_for_transport_layer_messages(%s #%d)" % (qn, nth[qn]), [], z3.BoolVal(ok)))
    out.append(("structure::ungated_sends_found", [], z3.BoolVal(found >= 4)))
    return out


CLAIMED = True
LEVEL_TEXT = ("Proof of the two safety clauses the re-exchange relies on, on the real AST: (1) every hand-over of a "
              "connection-layer message to Transport._send_user_message in Channel._send, recv, recv_stderr, _feed_extended, "
              "close, shutdown, _request_failed and _handle_close happens with no lock held (call-site precondition) - "
              "_send_user_message may block for the whole exchange while the transport thread needs Channel.lock in its "
              "handlers to get through it; (2) Transport._send_user_message calls _send_message only with clear_to_send set and "
              "clear_to_send_lock held - the lock under which _send_kex_init / _negotiate_keys clear the event - sends at most "
              "once, and releases the lock on every path; (3) the half of 'the re-exchange completes' that is a per-call "
              "property: when _send_user_message runs on the transport thread itself (a handler answering peer traffic that was in "
              "flight, the keepalive) it never waits for the exchange - no Event.wait, no time-out - and the message is sent at once, "
              "held back, or dropped because the connection is dead; _parse_newkeys sends every held-back message once, under the "
              "lock, before clear_to_send is set, and leaves none behind. Two native scenarios over a latency-controlled link "
              "(bounded, labelled) exercise the whole: a request wanting a reply in flight towards the side that started the "
              "exchange, and a keepalive due while the peer's NEWKEYS is delayed.")
LEVEL_NOTE = ("'Emits only transport-layer and key-exchange messages between its KEXINIT and its NEWKEYS' is decided in this form: "
              "every connection-layer message passes the gate (structural obligation over the call sites of the ungated "
              "_send_message in Transport, plus the gate's own contract); the authentication layer's messages (AuthHandler calls "
              "_send_message directly) are outside this property's statement and not covered. NOT decided as a whole: that the "
              "exchange completes and that queued traffic is delivered afterwards (liveness) - only the per-call half above. The "
              "other channel methods that send requests take no lock at all. Together with C22's known finding this shows "
              "the trade-off the code makes: data leaves the lock before it reaches the transport.")
TECHNIQUE = "deductive: call-site preconditions over ghost lock state and event state on the real AST, z3"
