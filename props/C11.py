"""C11 - key re-exchange is transparent to whatever traffic is in flight (the safety clauses contracts can reach)"""
from contracts import channel, transport

ID = "C11"
C = "paramiko.channel.Channel."
T = "paramiko.transport.Transport."
TARGETS = [C + f for f in ("_send", "recv", "recv_stderr", "_feed_extended", "close", "shutdown", "_request_failed", "_handle_close")]
TARGETS += [(T + "_send_user_message", "gate", {})]
REPLAY = {"*": "c11.replay_rekey_gate", "_send_user_message": "c11.inflight_request_during_exchange",
          "_parse_newkeys": "c11.inflight_request_during_exchange"}
BOUNDED = [("c11.inflight_request_during_exchange", "a channel request wanting a reply in flight towards the side that started a "
            "re-exchange (either side, link latency 0.3 s): the exchange completes, the session stays up, data flows afterwards"),
           ("c11.keepalive_due_during_exchange", "a keepalive falling due while the peer's NEWKEYS is held back 1.2 s, for a "
            "re-exchange started by the byte threshold, by the client and by the server", "thorough")]


def setup(E):
    channel.declare_c11(E)
    E2 = type(E)()
    transport.declare_c11(E2)
    qn = T + "_send_user_message"
    global TARGETS
    TARGETS[-1] = (qn, "gate", dict(E2.contracts[qn], **{
        "+replace": True, "+contracts": {k: v for k, v in E2.contracts.items() if k != qn},
        "+fields": {c: dict(d["fields"]) for c, d in E2.classdecl.items()},
        "+engine": {"monitors": {}, "ghost_types": dict(E.ghost_types, **E2.ghost_types), "inline_ok": set(E.inline_ok) | set(E2.inline_ok)}}))
    # the other half: what the transport thread held back during the exchange goes out in _parse_newkeys - every message, once,
    # under the lock and before 'clear to send' lets anybody else send
    TARGETS[:] = [t for t in TARGETS if not (isinstance(t, tuple) and t[1] == "held-back-traffic-goes-out")]
    TARGETS.insert(len(TARGETS) - 1, transport.newkeys_variant(E, "held-back-traffic-goes-out", {
        "every_message_held_back_during_the_exchange_is_sent":
            "ghost('flushed') == old(ghost('flushed')) + len(old(self._held_user_messages))",
        "and_before_anybody_else_may_send":
            "implies(not old(ghost('gate_open')), ghost('flushed_after_set') == old(ghost('flushed_after_set')))",
        "then_sending_is_open_again": "ghost('gate_open')",
        "nothing_stays_behind_to_be_sent_twice": "len(self._held_user_messages) == 0"}))


CLAIMED = True
LEVEL_TEXT = ("Proof of the two safety clauses the re-exchange relies on, on the real AST: (1) every hand-over of a "
              "connection-layer message to Transport._send_user_message in Channel._send, recv, recv_stderr, _feed_extended, "
              "close, shutdown, _request_failed and _handle_close happens with no lock held (call-site precondition) - "
              "_send_user_message may block for the whole exchange while the transport thread needs Channel.lock in its "
              "handlers to get through it; (2) Transport._send_user_message calls _send_message only with clear_to_send set and "
              "clear_to_send_lock held - the lock under which _send_kex_init / _negotiate_keys clear the event - sends at most "
              "once, and releases the lock on every path; (3) the half of 'the re-exchange completes' that is a per-call "
              "property: when _send_user_message runs on the transport thread itself (a handler answering peer traffic that was in "
              "flight, the keepalive) it never waits for the exchange - no Event.wait, no time-out - and the message is sent at once, "
              "held back, or dropped because the connection is dead; _parse_newkeys sends every held-back message once, under the "
              "lock, before clear_to_send is set, and leaves none behind. Two native scenarios over a latency-controlled link "
              "(bounded, labelled) exercise the whole: a request wanting a reply in flight towards the side that started the "
              "exchange, and a keepalive due while the peer's NEWKEYS is delayed.")
LEVEL_NOTE = ("NOT decided: that a transport emits only transport-layer messages between its KEXINIT and its NEWKEYS for "
              "replies generated ON the transport thread (handlers such as _parse_global_request / _parse_channel_open call "
              "_send_message directly - a typestate obligation on about 20 call sites that the pinned tree does not satisfy "
              "by design), that the exchange completes, and that queued traffic is delivered afterwards (liveness). The "
              "other channel methods that send requests take no lock at all. Together with C22's known finding this shows "
              "the trade-off the code makes: data leaves the lock before it reaches the transport.")
TECHNIQUE = "deductive: call-site preconditions over ghost lock state and event state on the real AST, z3"
