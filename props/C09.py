"""C09 - strict key exchange stops handshake sequence-number manipulation (Terrapin)"""
from contracts import transport, kdf, kex
import props.C08 as c08

ID = "C09"
T = "paramiko.transport.Transport."
P = "paramiko.packet.Packetizer."
TARGETS = [T + "_enforce_strict_kex", transport.RUN_ITER, (transport.RUN_ITER, "two-expected", {}),
           (T + "_activate_inbound", "seqno", {}), (T + "_activate_outbound", "seqno", {}),
           (P + "reset_seqno_in", "own", {}), (P + "reset_seqno_out", "own", {})]
REPLAY = {"*": "c09.replay_strict"}
MAX_PATHS = 20000


def setup(E):
    # the loop fragment with two expected packet types: same contract, its own environment
    transport.declare_c09(E, 2)
    two = dict(E.contracts[transport.RUN_ITER])
    cls2 = dict(E.classdecl[E.resolve_class("paramiko.transport.Transport")]["fields"])
    transport.declare_c09(E, 1)
    loop_env = dict(E.contracts)
    # key activation (contracts shared with C04): sequence numbers restart under strict kex
    kdf.declare_activate(E)
    act_env = {k: v for k, v in E.contracts.items() if loop_env.get(k) is not v}
    act_fields = dict(E.classdecl[E.resolve_class("paramiko.transport.Transport")]["fields"])
    for k, v in loop_env.items():
        E.contracts[k] = v
    transport.declare_c09(E, 1)
    one_fields = dict(E.classdecl[E.resolve_class("paramiko.transport.Transport")]["fields"])

    def fields_hook(fields):
        def h(E_):
            E_.classdecl[E_.resolve_class("paramiko.transport.Transport")]["fields"].update(fields)
        return h
    global TARGETS
    TARGETS[2] = (transport.RUN_ITER, "two-expected", dict(two, **{"+fields": {"paramiko.transport.Transport": {"_expected_packet": "tuple[u8,u8]"}}}))
    for i, fn in ((3, "_activate_inbound"), (4, "_activate_outbound")):
        TARGETS[i] = (T + fn, "seqno", dict(act_env[T + fn], **{"+contracts": {k: v for k, v in act_env.items() if k != T + fn},
                                                                "+fields": {"paramiko.transport.Transport": {
                                                                    k: v for k, v in act_fields.items() if one_fields.get(k) != v}}}))
    for i, fn in ((5, "reset_seqno_in"), (6, "reset_seqno_out")):
        TARGETS[i] = (P + fn, "own", dict(act_env[P + fn]))
    # the key-exchange handlers (contracts shared with C08) in their own environment: each registers the next expected packet
    import copy
    E2 = type(E)()
    kex.declare(E2)
    kx_fields = {c: dict(d["fields"]) for c, d in E2.classdecl.items()}
    del TARGETS[7:]
    for qn in c08.TARGETS:
        if qn.endswith("_perform_exchange"):
            continue
        TARGETS.append((qn, "expects-next", dict(E2.contracts[qn], **{
            "+contracts": {k: v for k, v in E2.contracts.items() if k != qn},
            "+fields": kx_fields,
            "+engine": {"auto_opaque": True, "inline_ok": set(E2.inline_ok) | set(E.inline_ok), "ghost_types": dict(E.ghost_types, **E2.ghost_types),
                        "opaque_contracts": dict(E2.opaque_contracts)}})))


CLAIMED = True
LEVEL_TEXT = ("Proof of the mechanism on the real AST: _enforce_strict_kex raises MessageOrderError exactly when strict mode was "
              "agreed and the first key exchange is unfinished, and returns otherwise; one arbitrary iteration of "
              "Transport.run's loop in that state with one or two expected packet types (message type symbolic 0..255, "
              "handlers by contract) completes only for an expected type - IGNORE, DEBUG, UNIMPLEMENTED, unknown types "
              "and every other message raise MessageOrderError before any handler or reply, DISCONNECT leaves the loop; "
              "every reply / init handler of KexGroup1, KexGex, KexNistp256 and KexCurve25519 returns only after "
              "registering the next expected packet (directly or through _activate_outbound, which expects NEWKEYS), so an "
              "expectation is pending throughout the first exchange; _activate_inbound zeroes the inbound sequence number "
              "and _activate_outbound zeroes the outbound one immediately after NEWKEYS went out and before anything else "
              "is sent, whenever strict mode was agreed; reset_seqno_in/out set the counters to 0.")
LEVEL_NOTE = ("Not machine-checked here: the KEXINIT-was-the-first-packet test and the marker detection inside "
              "_parse_kex_init (a 230-line negotiation function over name lists; see C05 in DESIGN.md), the server-side gex "
              "request handlers, start_kex of each engine, and the end-to-end conclusion that a shifted session needs a forged "
              "MAC (paper argument on top of these clauses and C02). Handlers other than the kex ones have generic contracts.")
TECHNIQUE = "deductive: exceptional postconditions, loop-body fragment with symbolic message type, ghost expectation state, z3"
