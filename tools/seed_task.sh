#!/bin/sh
# tools/seed_task.sh <seed-id> <property-id> [extra hint text]: scratch worktree /tmp/wt_<seed-id> + task file /tmp/seedtask_<seed-id>.md
# (the sub-agent gets the property record and its own worktree, nothing from /verif)
sid=$1; pid=$2; hint=$3
wt=/tmp/wt_$sid
git -C /repo worktree remove --force $wt 2>/dev/null
git -C /repo worktree add -q --detach $wt HEAD || exit 1
python3 - "$sid" "$pid" "$wt" "$hint" <<'PY'
import json, sys
sid, pid, wt, hint = sys.argv[1:5]
rec = [json.loads(l) for l in open('/verif/properties.jsonl') if json.loads(l)['id'] == pid][0]
txt = f"""# Task {sid}

You are working in a scratch git worktree of the paramiko repository (a pure-Python SSHv2 library) at `{wt}`.
Python with every dependency installed: `/venv/bin/python`. There is no network. Work only inside `{wt}`;
do not touch or read `/repo` or `/verif`.

Run the test suite with (takes about 80 s, expect `534 passed`):

    cd {wt} && /venv/bin/python -m pytest -q -p no:cacheprovider -o addopts= -x

## The property

id: {rec['id']} - {rec['title']}

Statement: {rec['statement']}

Quantified over: {json.dumps(rec['quantifier'])}

Why the tests cannot settle it: {rec['why_tests_cant']}

Anchors in the code: {json.dumps(rec['anchors'])}

## What to produce

A change to the library source (files under `paramiko/` only) that BREAKS this property while the code still imports
and the whole existing test suite still passes. The change must be realistic: something that could plausibly slip in as a
refactoring, optimisation, clean-up or well-meant bug fix, and it must need something specific in order to manifest - a
particular interleaving, a fault at a particular point, a multi-step sequence of operations, an unusual input or boundary
value, or two cooperating sites that each look fine alone. NOT something that ordinary use would expose at once.
{hint}

Deliver, in `{wt}/`:

* `patch.diff` - `git diff` of `paramiko/` only; must apply to HEAD with `git apply patch.diff`.
* `demo_{pid}.py` - a standalone program run as `PYTHONPATH=<tree> /venv/bin/python demo_{pid}.py` from the tree's root.
  It checks the property (not the patch!) natively against the library: exits 0 and prints `{pid} holds` when the property
  holds on that tree; exits 1 with a short description of what went wrong when it is violated. It must exit 0 on the
  unpatched HEAD and exit 1 with the patch applied, be deterministic, finish in under 60 s, and use no network beyond
  loopback sockets / socketpairs.
* `NOTES.md` - one short paragraph: what the change is and exactly what it needs in order to manifest.

Confirm yourself: demo on unpatched tree -> exit 0; demo on patched tree -> exit 1; full test suite on the patched tree ->
534 passed. Then leave the working tree UNPATCHED (`git checkout -- paramiko`) with the three files present (untracked). Never use `git stash` (the stash is shared with other worktrees of this repository): switch between patched and unpatched with `git apply patch.diff` / `git apply -R patch.diff` / `git checkout -- paramiko`.

Final answer: the one-sentence "needs in order to manifest" text and the outcomes of the three confirmations.
"""
open(f'/tmp/seedtask_{sid}.md', 'w').write(txt)
PY
echo "$wt /tmp/seedtask_$sid.md"
