#!/usr/bin/env python3
"""regenerate /verif/MANIFEST.json from props/*.py metadata and na_reasons.json"""
import ast, json, os, re, sys
V = os.path.dirname(os.path.dirname(os.path.abspath(__file__)))
props = [json.loads(l) for l in open(os.path.join(V, "properties.jsonl"))]
na = json.load(open(os.path.join(V, "tools", "na_reasons.json")))
checks, napp = [], []
# a property with a listed (unrepaired) known finding is not proved: one of its obligations fails on the real code.  Its
# check is then claimed at level "other" (proof of the remaining obligations + reproduced finding), never as "proof".
open_findings = {k["property"] for k in json.load(open(os.path.join(V, "known_findings.json"))) if isinstance(k, dict)}
served = []
for p in props:
    pid = p["id"]
    f = os.path.join(V, "props", pid + ".py")
    meta = {}
    if os.path.exists(f):
        tree = ast.parse(open(f).read())
        for n in tree.body:
            if isinstance(n, ast.Assign) and isinstance(n.targets[0], ast.Name) and n.targets[0].id in (
                    "CLAIMED", "LEVEL_TEXT", "LEVEL_NOTE", "TECHNIQUE", "DESIGN_REF", "CATEGORY"):
                meta[n.targets[0].id] = ast.literal_eval(n.value)
    if meta.get("CLAIMED"):
        served.append(pid)
        checks.append({
            "property_id": pid,
            "quick_cmd": "./check %s --tier quick" % pid,
            "thorough_cmd": "./check %s --tier thorough" % pid,
            "evidence_file": "/verif/evidence/%s.json" % pid,
            "replay_cmd_template": "./check %s --replay {path}" % pid,
            "engine": "pyvc",
            "level_claimed": {"category": "other" if pid in open_findings else meta.get("CATEGORY", "proof"), "text": meta["LEVEL_TEXT"],
                              "design_ref": meta.get("DESIGN_REF", "DESIGN.md section 7, " + pid)},
            "level_note": meta["LEVEL_NOTE"],
            "technique": meta.get("TECHNIQUE", "contract-based deductive verification: VCs generated from the real "
                                               "AST (pyvc), discharged by z3/cvc5"),
        })
    else:
        napp.append({"property_id": pid, "reason": na.get(pid, "contracts designed (DESIGN.md section 7), not machine-checked")})
m = {
    "version": 1,
    "setup_cmd": "true",
    "hooks": {"guard": "PARAMIKO_VERIF",
              "enable": "no repository hooks: contracts are sidecar files under /verif/contracts; every check re-reads /repo's working tree (VERIF_REPO overrides the path)",
              "baseline_off_cmd": "cd /repo && /venv/bin/python -m pytest -ra -q -p no:cacheprovider --timeout=900 --continue-on-collection-errors",
              "source_commits": [], "add_only": True},
    "engines": [{"name": "pyvc", "path": "/verif/pyvc", "serves_properties": served,
                 "kind_free_text": "verification-condition generator over the real Python AST (symbolic execution with loop invariants, modular callee contracts, ghost state), obligations discharged by z3 5.1 (path solver, ground-instantiated query, quantified query) and cvc5 1.0.3; counter-models replayed natively under /venv/bin/python"}],
    "checks": checks,
    "notes": "exit codes of ./check: 0 held, 1 violation (VIOLATION line), 2 undecided (solver limit / outside subset), 3 checker fault. See DESIGN.md.",
    "not_applicable": napp,
}
json.dump(m, open(os.path.join(V, "MANIFEST.json"), "w"), indent=1)
print("claimed:", served)
