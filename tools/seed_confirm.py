#!/usr/bin/env python3
"""tools/seed_confirm.py <seed-id> <property> <worktree-with-patch.diff-and-demo> "<what it needs to manifest>" [--no-tests]
Confirm a seeded change independently in a fresh scratch worktree of /repo HEAD:
 demo passes without the patch, fails with it, test suite still passes with it; then run ./check <property>
 against the patched tree and record everything in /verif/seeded/<seed-id>/meta.json."""
import json, os, shutil, subprocess, sys, time
sid, pid, src, needs = sys.argv[1:5]
run_tests = "--no-tests" not in sys.argv
V = os.path.dirname(os.path.dirname(os.path.abspath(__file__)))
dst = os.path.join(V, "seeded", sid)
os.makedirs(dst, exist_ok=True)
demo = [f for f in os.listdir(src) if f.startswith("demo_") and f.endswith(".py")][0]
shutil.copy(os.path.join(src, "patch.diff"), os.path.join(dst, "patch.diff"))
shutil.copy(os.path.join(src, demo), os.path.join(dst, demo))
sc = "/tmp/sc_" + sid
subprocess.run(["git", "-C", "/repo", "worktree", "remove", "--force", sc], capture_output=True)
subprocess.run(["git", "-C", "/repo", "worktree", "add", "-q", "--detach", sc, "HEAD"], check=True)
prev = json.load(open(os.path.join(dst, "meta.json"))) if os.path.exists(os.path.join(dst, "meta.json")) else {}
meta = {"seed": sid, "property": pid, "needs": needs, "repo_head": subprocess.run(["git", "-C", "/repo", "rev-parse", "--short", "HEAD"], capture_output=True, text=True).stdout.strip()}
try:
    env = dict(os.environ, PYTHONPATH=sc)
    def rundemo():
        shutil.copy(os.path.join(dst, demo), os.path.join(sc, demo))      # demos are written to run from the tree's root
        p = subprocess.run(["/venv/bin/python", os.path.join(sc, demo)], cwd=sc, env=env, capture_output=True, text=True, timeout=600)
        return p.returncode, (p.stdout + p.stderr)[-400:]
    meta["demo_without_patch"] = rundemo()
    a = subprocess.run(["git", "-C", sc, "apply", os.path.join(dst, "patch.diff")], capture_output=True, text=True)
    meta["patch_applies"] = a.returncode == 0
    meta["demo_with_patch"] = rundemo()
    if run_tests:
        t0 = time.time()
        p = subprocess.run(["/venv/bin/python", "-m", "pytest", "-q", "-p", "no:cacheprovider", "--timeout=900", "-o", "addopts=", "-x"],
                           cwd=sc, capture_output=True, text=True, timeout=1800)
        tail = [l for l in p.stdout.splitlines() if " passed" in l or " failed" in l or " error" in l][-1:]
        meta["tests_with_patch"] = {"rc": p.returncode, "summary": tail, "secs": round(time.time() - t0)}
    c = subprocess.run(["./check", pid], cwd=V, env=dict(os.environ, VERIF_REPO=sc), capture_output=True, text=True, timeout=3600)
    lines = [l for l in c.stdout.splitlines() if l.startswith(("VIOLATION", "FAILED-OBLIGATION", "UNDECIDED", "CHECKER-FAULT", pid + ":"))]
    meta["check"] = {"cmd": "VERIF_REPO=<patched tree> ./check %s" % pid, "exit": c.returncode, "lines": [l.replace(V, "/verif")[:260] for l in lines][:12]}
    meta["detected"] = c.returncode == 1 and any(l.startswith("VIOLATION") for l in lines)
    meta["ran"] = ["demo on HEAD (expect 0)", "git apply patch.diff", "demo on patched tree (expect 1)",
                   "pytest -x whole suite on patched tree" if run_tests else "tests not re-run here", "./check against patched tree"]
finally:
    subprocess.run(["git", "-C", "/repo", "worktree", "remove", "--force", sc], capture_output=True)
if not run_tests and prev.get("tests_with_patch"):
    meta["tests_with_patch"] = prev["tests_with_patch"]        # the suite was run on this patch in an earlier confirmation
if prev.get("check") and prev.get("detected") is False and meta.get("detected"):
    meta["history"] = prev.get("history", []) + ["initially missed by the check (%s); detected after the contract was strengthened (see DESIGN.md, seeded changes)"
                                                 % "; ".join(prev["check"].get("lines", [])[-2:])[:300]]
elif prev.get("history"):
    meta["history"] = prev["history"]
json.dump(meta, open(os.path.join(dst, "meta.json"), "w"), indent=1)
print(json.dumps({k: meta.get(k) for k in ("demo_without_patch", "demo_with_patch", "tests_with_patch", "check", "detected")}, indent=1)[:1800])
