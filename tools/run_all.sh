#!/bin/sh
# run every claimed quick check, 4 at a time; print one line per property
cd "$(dirname "$0")/.." || exit 3
TIER=${1:-quick}
ids=$(python3 -c "import json;print(' '.join(c['property_id'] for c in json.load(open('MANIFEST.json'))['checks']))")
mkdir -p /tmp/verif_runall
echo $ids | tr ' ' '\n' | xargs -P 4 -I{} sh -c './check {} --tier '$TIER' > /tmp/verif_runall/{}.log 2>&1; echo {} exit=$? $(grep -c VIOLATION /tmp/verif_runall/{}.log) viol'
