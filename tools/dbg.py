#!/usr/bin/env python3-vt
"""tools/dbg.py <prop> <qualname> [substr] : explore one function, solve open obligations in-process, print failures"""
import sys, time, os
sys.path.insert(0, os.path.dirname(os.path.dirname(os.path.abspath(__file__))))
import importlib, z3
from pyvc.engine import Engine
from pyvc import smt, driver
pid, qn = sys.argv[1], sys.argv[2]
sub = sys.argv[3] if len(sys.argv) > 3 else ""
maxp = int(os.environ.get("MAXP", "4000"))
mod = importlib.import_module("props." + pid)
E = Engine(); mod.setup(E)
t = time.time()
res = E.verify_function(qn, max_paths=maxp)
print("paths", res["paths"], "complete", res["complete_paths"], "outcomes", res.get("outcomes"), "%.1fs" % (time.time() - t))
from pyvc import symexec as _sx
if _sx._FORKLOG:
    for k, v in sorted(_sx._FORKLOG.items(), key=lambda kv: -kv[1])[:25]:
        print("FORK x%d  %s" % (v, k))
for u in res["unsupported"]:
    print("UNSUPPORTED", u)
nopen = 0
shown = 0
for ob in res["obligations"]:
    if ob.get("trivial"):
        continue
    if sub and sub not in ob["name"]:
        continue
    nopen += 1
    job = driver.make_job(ob, "quick", getattr(mod, "EXTRA_AXIOMS", ()))
    v, dt, reason, mv = smt.solve_smt2_z3(job["smt2"], int(os.environ.get("MS", "3000")), job["wanted"])
    if v != "unsat":
        shown += 1
        print("----", ob["name"], "path", ob["path"], v, "%.2fs" % dt, reason, "axioms", job["axioms"])
        if shown <= int(os.environ.get("SHOW", "2")):
            for h in ob["hyps"]:
                print("   H:", str(h).replace("\n", " ")[:300])
            print("   G:", str(ob["goal"]).replace("\n", " ")[:600])
            print("   model:", mv)
print("open obligations sent to solver:", nopen, "not discharged:", shown)
