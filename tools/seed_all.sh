#!/bin/sh
# re-run every kept seeded change against the current checks (patch applied to a scratch worktree; tests not re-run)
cd "$(dirname "$0")/.." || exit 3
for d in seeded/*/; do
  sid=$(basename $d)
  pid=$(python3 -c "import json;m=json.load(open('$d/meta.json'));print(m.get('decided_by') or m['property'])")
  needs=$(python3 -c "import json;print(json.load(open('$d/meta.json'))['needs'])")
  echo "$sid $pid"
done > /tmp/seed_list.txt
cat /tmp/seed_list.txt | xargs -P 3 -L 1 sh -c 'python3 tools/seed_recheck.py $0 $1 > /tmp/seedre_$0.log 2>&1; tail -1 /tmp/seedre_$0.log'
