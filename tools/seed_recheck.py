#!/usr/bin/env python3
"""tools/seed_recheck.py <seed-id> <property>: apply seeded/<id>/patch.diff to a scratch worktree, run ./check, update meta.json's check field"""
import json, os, subprocess, sys
sid, pid = sys.argv[1:3]
V = os.path.dirname(os.path.dirname(os.path.abspath(__file__)))
dst = os.path.join(V, "seeded", sid)
sc = "/tmp/sr_" + sid
subprocess.run(["git", "-C", "/repo", "worktree", "remove", "--force", sc], capture_output=True)
subprocess.run(["git", "-C", "/repo", "worktree", "add", "-q", "--detach", sc, "HEAD"], check=True)
try:
    a = subprocess.run(["git", "-C", sc, "apply", os.path.join(dst, "patch.diff")], capture_output=True, text=True)
    if a.returncode != 0:
        print("%s %s PATCH-DOES-NOT-APPLY" % (sid, pid)); sys.exit(0)
    c = subprocess.run(["./check", pid], cwd=V, env=dict(os.environ, VERIF_REPO=sc), capture_output=True, text=True, timeout=3600)
    lines = [l for l in c.stdout.splitlines() if l.startswith(("VIOLATION", "FAILED-OBLIGATION", "UNDECIDED", "CHECKER-FAULT", pid + ":"))]
    meta = json.load(open(os.path.join(dst, "meta.json")))
    meta["check"] = {"cmd": "VERIF_REPO=<patched tree> ./check %s" % pid, "exit": c.returncode, "lines": [l.replace(V, "/verif")[:260] for l in lines][:12]}
    was = meta.get("detected")
    meta["detected"] = c.returncode == 1 and any(l.startswith("VIOLATION") for l in lines)
    json.dump(meta, open(os.path.join(dst, "meta.json"), "w"), indent=1)
    print("%s %s exit=%d detected=%s%s" % (sid, pid, c.returncode, meta["detected"], "" if was == meta["detected"] else "  (was %s)" % was))
finally:
    subprocess.run(["git", "-C", "/repo", "worktree", "remove", "--force", sc], capture_output=True)
