#!/usr/bin/env python3
"""tools/mut.py <property> <file under paramiko/> <old text> <new text> [more old new ...]
apply a textual edit to a scratch copy of /repo (under $TMPDIR), run ./check <property> against it, clean up."""
import os, shutil, subprocess, sys, tempfile
pid, rel = sys.argv[1], sys.argv[2]
pairs = sys.argv[3:]
tmp = tempfile.mkdtemp(prefix="pyvc_mut_")
try:
    shutil.copytree("/repo/paramiko", os.path.join(tmp, "paramiko"))
    p = os.path.join(tmp, "paramiko", rel)
    s = open(p).read()
    for i in range(0, len(pairs), 2):
        old, new = pairs[i], pairs[i + 1]
        if s.count(old) < 1:
            print("MUT: pattern not found: %r" % old); sys.exit(9)
        s = s.replace(old, new, 1)
    open(p, "w").write(s)
    env = dict(os.environ, VERIF_REPO=tmp)
    r = subprocess.run(["./check", pid] + ([] if "TIER" not in os.environ else ["--tier", os.environ["TIER"]]),
                       cwd=os.path.dirname(os.path.dirname(os.path.abspath(__file__))), env=env)
    print("exit=%d" % r.returncode)
    sys.exit(r.returncode)
finally:
    shutil.rmtree(tmp, ignore_errors=True)
