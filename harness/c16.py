"""C16 native replay: username pinning, service check and the ten-failure cap on a real server-side AuthHandler"""
from paramiko.message import Message
from paramiko.common import AUTH_FAILED
from .c14 import server, Refuser


def req(user, service="ssh-connection", method="password", pw="x"):
    m = Message()
    m.add_string(user); m.add_string(service); m.add_string(method)
    if method == "password":
        m.add_boolean(False); m.add_string(pw)
    return Message(m.asbytes())


def replay_pin(inp):
    bad = []
    # username change
    t, a, b = server()
    try:
        seen = []
        t.server_object.check_auth_password = lambda u, p: (seen.append(u), AUTH_FAILED)[1]
        t.auth_handler._parse_userauth_request(req("alice"))
        t.auth_handler._parse_userauth_request(req("bob"))
        if "bob" in seen:
            bad.append({"history": "alice then bob", "why": "application was asked about the second username"})
        elif t.active:
            bad.append({"history": "alice then bob", "why": "connection not ended"})
    finally:
        a.close(); b.close()
    # wrong service
    t, a, b = server()
    try:
        seen = []
        t.server_object.check_auth_password = lambda u, p: (seen.append(u), AUTH_FAILED)[1]
        t.auth_handler._parse_userauth_request(req("alice", service="ssh-userauth"))
        if seen or t.active:
            bad.append({"history": "service ssh-userauth", "why": "not disconnected before consulting the application"})
    finally:
        a.close(); b.close()
    # ten failures
    t, a, b = server()
    try:
        seen = []
        t.server_object.check_auth_password = lambda u, p: (seen.append(u), AUTH_FAILED)[1]
        for i in range(14):
            if not t.active:
                break
            t.auth_handler._parse_userauth_request(req("alice", pw="guess%d" % i))
        if len(seen) > 10:
            bad.append({"history": "14 wrong passwords", "why": "%d credentials evaluated" % len(seen)})
    finally:
        a.close(); b.close()
    return {"violates": bool(bad), "detail": bad}
