"""C43 native replay/search: real ModulusPack.get_modulus against the property statement"""
import itertools
from paramiko.primes import ModulusPack
from paramiko.ssh_exception import SSHException
from .common import ival


def expected_size(keys, mn, prefer, mx):
    in_range = [k for k in keys if mn <= k <= mx]
    if not in_range:
        return None
    cand = [k for k in in_range if k >= prefer]
    return min(cand) if cand else max(in_range)


def run_one(keys, mn, prefer, mx):
    mp = ModulusPack()
    mp.pack = {k: [(2, 1000 + k)] for k in keys}
    try:
        g, p = mp.get_modulus(mn, prefer, mx)
    except SSHException:
        return None if not keys else "raised SSHException with a non-empty pack"
    exp = expected_size(keys, mn, prefer, mx)
    if exp is not None and p != 1000 + exp:
        return "offered size %d, property demands %d" % (p - 1000, exp)
    if (p - 1000) not in keys:
        return "offered a modulus that is not in the pack"
    return None


def search_around(mn, prefer, mx, extra=()):
    universe = sorted(set([mn, prefer, mx, mn - 1, mx + 1, prefer + 1, prefer - 1] + list(extra)))
    for r in (1, 2, 3):
        for keys in itertools.combinations(universe, r):
            why = run_one(list(keys), mn, prefer, mx)
            if why:
                return {"violates": True, "detail": why, "inputs": {"pack_sizes": list(keys), "min": mn, "prefer": prefer, "max": mx}}
    return {"violates": False}


def replay_get_modulus(inp):
    mn, prefer, mx = ival(inp, "min"), ival(inp, "prefer"), ival(inp, "max")
    extra = [ival(inp, k) for k in inp if k in ("good", "b")]
    return search_around(mn, prefer, mx, extra)


def search_get_modulus(inp):
    for mn, prefer, mx in [(1024, 2048, 8192), (2048, 1024, 4096), (1024, 8192, 2048), (2048, 2048, 2048), (3, 1, 5), (1, 5, 3)]:
        r = search_around(mn, prefer, mx, [1024, 2048, 4096])
        if r["violates"]:
            return r
    return {"violates": False}
