"""C08 native replay: real kex engines against a recording transport, with invalid peer values"""
from paramiko.message import Message
from paramiko.ssh_exception import SSHException
from paramiko.kex_group1 import KexGroup1
from paramiko.kex_group14 import KexGroup14
from paramiko.kex_gex import KexGex
from paramiko.kex_curve25519 import KexCurve25519
from paramiko.kex_ecdh_nist import KexNistp256


class FakeKey:
    def asbytes(self):
        return b"fake-host-key"

    def sign_ssh_data(self, data, alg=None):
        return b"sig"


class FakeTransport:
    local_version = "SSH-2.0-a"
    remote_version = "SSH-2.0-b"
    local_kex_init = b"\x14local"
    remote_kex_init = b"\x14remote"
    host_key_type = "ssh-rsa"

    def __init__(self, server_mode):
        self.server_mode = server_mode
        self.activated = False
        self.derived = False
        self.sent = []

    def _send_message(self, m):
        self.sent.append(m.asbytes())

    def _expect_packet(self, *t):
        pass

    def _set_K_H(self, k, h):
        self.derived = True

    def _verify_key(self, k, s):
        pass

    def _activate_outbound(self):
        self.activated = True

    def get_server_key(self):
        return FakeKey()

    def _log(self, *a):
        pass

    def _get_modulus_pack(self):
        return None


def expect_reject(label, t, fn):
    try:
        fn()
    except SSHException:
        return None if not t.activated else "%s: rejected but keys were activated" % label
    except Exception as e:
        return None if not (t.activated or t.derived) else "%s: %r after deriving keys" % (label, e)
    return "%s: accepted" % label


def replay_kex(inp):
    bad = []
    for cls in (KexGroup1, KexGroup14):
        for f in (0, cls.P, cls.P + 5, -1):
            t = FakeTransport(False)
            k = cls(t)
            k.start_kex()
            m = Message()
            m.add_string(b"hostkey"); m.add_mpint(f); m.add_string(b"sig")
            why = expect_reject("%s client, f=%s" % (cls.__name__, "P" if f == cls.P else f), t, lambda: k._parse_kexdh_reply(Message(m.asbytes())))
            if why:
                bad.append(why)
            t = FakeTransport(True)
            k = cls(t)
            k.start_kex()
            m = Message()
            m.add_mpint(f)
            why = expect_reject("%s server, e=%s" % (cls.__name__, "P" if f == cls.P else f), t, lambda: k._parse_kexdh_init(Message(m.asbytes())))
            if why:
                bad.append(why)
    # group exchange: prime too small / too large
    for bits in (512, 1023, 8193):
        t = FakeTransport(False)
        k = KexGex(t)
        m = Message()
        m.add_mpint((1 << (bits - 1)) | 1); m.add_mpint(2)
        why = expect_reject("gex client, %d-bit prime" % bits, t, lambda: k._parse_kexdh_gex_group(Message(m.asbytes())))
        if why:
            bad.append(why)
    # x25519: all-zero peer value yields the all-zero secret
    t = FakeTransport(False)
    k = KexCurve25519(t)
    k.start_kex()
    m = Message()
    m.add_string(b"hostkey"); m.add_string(b"\x00" * 32); m.add_string(b"sig")
    why = expect_reject("curve25519 client, all-zero peer key", t, lambda: k._parse_kexecdh_reply(Message(m.asbytes())))
    if why:
        bad.append(why)
    # nistp256: point not on the curve
    t = FakeTransport(False)
    k = KexNistp256(t)
    k.start_kex()
    m = Message()
    m.add_string(b"hostkey"); m.add_string(b"\x04" + b"\x01" * 64); m.add_string(b"sig")
    why = expect_reject("nistp256 client, off-curve point", t, lambda: k._parse_kexecdh_reply(Message(m.asbytes())))
    if why:
        bad.append(why)
    return {"violates": bool(bad), "detail": bad[:4]}
