"""C06 native replay (clauses under contract): Transport._verify_key over a first exchange and re-keys with the same host
key - a reply whose signature does not verify over the current exchange hash must be refused every time; _set_K_H latches
the session id"""
import os
import socket
from paramiko.transport import Transport
from paramiko.rsakey import RSAKey
from paramiko.ecdsakey import ECDSAKey
from paramiko.ed25519key import Ed25519Key
from paramiko.ssh_exception import SSHException


def replay_hostkey_signature(inp):
    bad = []
    keys = [("rsa-sha2-512", RSAKey.generate(1024)), ("ecdsa-sha2-nistp256", ECDSAKey.generate(bits=256))]
    for alg, key in keys:
        a, b = socket.socketpair()
        t = Transport(a)
        try:
            t.host_key_type = alg
            blob = key.asbytes()
            for round_, good in enumerate((True, True, False, True, False)):
                H = os.urandom(32)
                signed = H if good else os.urandom(32)
                sig = key.sign_ssh_data(signed, alg).asbytes() if alg.startswith("rsa") else key.sign_ssh_data(signed).asbytes()
                t._set_K_H(12345 + round_, H)
                try:
                    t._verify_key(blob, sig)
                    accepted = True
                except SSHException:
                    accepted = False
                if accepted != good:
                    bad.append({"history": "%s host key, exchange #%d (%s) with the same host key as before" % (
                        alg, round_, "first" if round_ == 0 else "re-key"),
                        "why": ["signature over %s exchange hash was %s" % ("this" if good else "ANOTHER", "accepted" if accepted else "refused")]})
            sid = t.session_id
            t._set_K_H(1, b"later-exchange-hash")
            if t.session_id != sid:
                bad.append({"history": "re-key", "why": ["session id changed"]})
        finally:
            t.close(); a.close(); b.close()
    return {"violates": bool(bad), "detail": bad[:3]}
