"""C17 native replay: SSHClient.connect's host-key decision with a recording stand-in transport (no network): credentials
may be offered only after a matching known key or an accepting policy; Transport.auth_* guards"""
import socket
from paramiko import SSHClient, AutoAddPolicy, RejectPolicy, WarningPolicy
from paramiko.ecdsakey import ECDSAKey
from paramiko.rsakey import RSAKey
from paramiko.ssh_exception import SSHException, BadHostKeyException
from paramiko.transport import Transport

KEYS = {}


def key(name):
    if name not in KEYS:
        KEYS[name] = ECDSAKey.generate(bits=256 if "256" in name else 384) if name.startswith("ec") else RSAKey.generate(1024)
    return KEYS[name]


class FakeTransport:
    """just enough of Transport for SSHClient.connect; records every authentication attempt"""
    presented = None
    attempts = []

    def __init__(self, sock, **kw):
        self.gss_kex_used = False
        self.gss_host = None
        self.active = True

    def __getattr__(self, n):
        if n.startswith("auth_"):
            def rec(*a, **k):
                FakeTransport.attempts.append(n)
                return []
            return rec
        if n in ("set_log_channel", "set_gss_host", "use_compression", "start_client", "close", "set_keepalive", "_log"):
            return lambda *a, **k: None
        raise AttributeError(n)

    def get_security_options(self):
        class O:
            key_types = ("ssh-rsa",)
        return O()

    def get_remote_server_key(self):
        return FakeTransport.presented

    def is_authenticated(self):
        return True

    def is_active(self):
        return True


def attempt(known, presented, policy):
    c = SSHClient()
    for name in known:
        c.get_host_keys().add("host.example", key(name).get_name(), key(name))
    c.set_missing_host_key_policy(policy())
    FakeTransport.presented = key(presented)
    FakeTransport.attempts = []
    a, b = socket.socketpair()
    try:
        try:
            c.connect("host.example", username="u", password="pw", sock=a, transport_factory=FakeTransport,
                      allow_agent=False, look_for_keys=False)
            outcome = "connected"
        except BadHostKeyException:
            outcome = "BadHostKeyException"
        except SSHException as e:
            outcome = "SSHException"
    finally:
        a.close(); b.close()
    return outcome, list(FakeTransport.attempts)


def replay_hostkey(inp):
    bad = []
    n = 0
    for policy in (AutoAddPolicy, WarningPolicy, RejectPolicy):
        for known, presented, may_auth in (
                (["ec256-a"], "ec256-a", True),          # the key on file
                (["ec256-a"], "ec256-b", False),         # another key of the same type
                (["ec256-a"], "ec384-c", False),         # host known, but only with another key type
                (["ec256-a", "rsa-d"], "ec384-c", False),
                ([], "ec256-a", policy is not RejectPolicy)):   # unknown host: up to the policy
            n += 1
            outcome, attempts = attempt(known, presented, policy)
            if attempts and not may_auth:
                bad.append({"history": "known keys %s, server presents %s, policy %s" % (known, presented, policy.__name__),
                            "why": ["credentials offered (%s); connect outcome: %s" % (", ".join(attempts), outcome)]})
    # Transport.auth_* guards
    a, b = socket.socketpair()
    try:
        t = Transport(a)
        for active, done in ((False, False), (True, False), (False, True)):
            t.active, t.initial_kex_done = active, done
            for f, args in (("auth_none", ("u",)), ("auth_password", ("u", "pw")), ("auth_publickey", ("u", key("ec256-a"))),
                            ("auth_interactive", ("u", lambda *x: [])), ("auth_gssapi_keyex", ("u",))):
                n += 1
                try:
                    getattr(t, f)(*args)
                    bad.append({"history": "%s with active=%s initial_kex_done=%s" % (f, active, done), "why": ["did not raise"]})
                except SSHException:
                    if t.auth_handler is not None:
                        bad.append({"history": "%s with active=%s initial_kex_done=%s" % (f, active, done), "why": ["auth handler created"]})
                except Exception as e:
                    pass
        t.active = False
    finally:
        a.close(); b.close()
    return {"violates": bool(bad), "evaluations": n, "detail": bad[:3]}
