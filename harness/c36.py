"""C36 native replay (the part under contract): equality / hashing of keys against their public numbers, and the mode of a
newly written private key file"""
import os
import stat
import tempfile
from cryptography.hazmat.primitives.asymmetric import rsa
from paramiko.rsakey import RSAKey

M61 = 2 ** 61 - 1


def replay_keys(inp):
    bad = []
    base = RSAKey.generate(1024)
    n, e = base.public_numbers.n, base.public_numbers.e
    same = RSAKey(key=rsa.RSAPublicNumbers(e, n).public_key())
    if not (same == base and hash(same) == hash(base)):
        bad.append({"history": "public half of a key vs the key", "why": ["not equal / different hash"]})
    for k in (2, 4, 2 ** 20):
        other = RSAKey(key=rsa.RSAPublicNumbers(e, n + k * M61).public_key())
        if other == base or not (other != base) or len({other: 1, base: 2}) != 2:
            bad.append({"history": "two RSA keys whose moduli differ by %d * (2**61 - 1)" % k,
                        "why": ["compare equal although their public numbers differ"]})
    d = tempfile.mkdtemp(prefix="verif_c36_")
    try:
        old = os.umask(0)
        try:
            path = os.path.join(d, "id_rsa")
            base.write_private_key_file(path)
            mode = stat.S_IMODE(os.stat(path).st_mode)
            if mode != 0o600:
                bad.append({"history": "write_private_key_file with umask 0", "why": ["file mode %o" % mode]})
            back = RSAKey.from_private_key_file(path)
            if back != base or not back.can_sign():
                bad.append({"history": "write then load", "why": ["loaded key differs"]})
        finally:
            os.umask(old)
    finally:
        for f in os.listdir(d):
            os.unlink(os.path.join(d, f))
        os.rmdir(d)
    return {"violates": bool(bad), "detail": bad[:3]}


def ecdsa_short_coordinate(inp):
    """ECDSA keys whose public point has a coordinate shorter than the field width (leading zero octets): the public blob
    must keep the fixed width and parse back to an equal key"""
    from cryptography.hazmat.primitives.asymmetric import ec
    from paramiko import ECDSAKey
    bad = []
    for curve, scalars in ((ec.SECP256R1(), (2376, 1, 2, 3)), (ec.SECP521R1(), (73, 1, 2)), (ec.SECP384R1(), (1, 2, 3))):
        size = (curve.key_size + 7) // 8
        for d in scalars:
            priv = ec.derive_private_key(d, curve)
            k = ECDSAKey(vals=(priv, priv.public_key()))
            blob = k.asbytes()
            point_len = int.from_bytes(blob[-(1 + 2 * size) - 4:-(1 + 2 * size)], "big") if len(blob) > 1 + 2 * size + 4 else -1
            try:
                back = ECDSAKey(data=blob)
                ok = back == k and point_len == 1 + 2 * size
            except Exception as e:
                ok = False
                back = repr(e)
            if not ok:
                bad.append({"curve": curve.name, "private_scalar": d, "why": "public blob does not keep the fixed-width point / does not parse back: %s" % (back,)})
    return {"violates": bool(bad), "detail": bad[:3]}
