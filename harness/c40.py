"""C40 native replay: SSHConfig on small configurations with Host and Match blocks"""
from paramiko.config import SSHConfig

TEXT = """
Host alpha beta
    User first
    IdentityFile id_a
    IdentityFile id_b

Match host alpha
    Port 2200

Host *
    User fallback
    IdentityFile id_b
    IdentityFile id_c
"""


def replay_config(inp):
    bad = []
    c = SSHConfig.from_text(TEXT)
    try:
        hosts = c.get_hostnames()
        for h in ("alpha", "beta", "*"):
            if h not in hosts:
                bad.append({"why": "get_hostnames misses %r" % h})
    except Exception as e:
        bad.append({"config": "one Host block, one Match block", "why": "get_hostnames raised %r" % (e,)})
    try:
        r = c.lookup("alpha")
        if r.get("user") != "first":
            bad.append({"why": "user = %r, first applicable value is 'first'" % r.get("user")})
        if r.get("identityfile") != ["id_a", "id_b", "id_c"]:
            bad.append({"why": "identityfile = %r" % (r.get("identityfile"),)})
        if r.get("hostname") != "alpha":
            bad.append({"why": "hostname default wrong"})
        r2 = c.lookup("gamma")
        if r2.get("user") != "fallback" or r2.get("identityfile") != ["id_b", "id_c"]:
            bad.append({"why": "lookup(gamma) = %r" % dict(r2)})
        if c.lookup("alpha").get("identityfile") != ["id_a", "id_b", "id_c"]:
            bad.append({"why": "a lookup modified the stored configuration"})
    except Exception as e:
        bad.append({"why": "lookup raised %r" % (e,)})
    # several lookups on ONE parsed object, values with expansion tokens: each host gets its own expansion, and what one
    # lookup expanded never shows up in another (the stored configuration is not written to)
    text2 = """
Host db web
    IdentityFile keys/%h.pem
    IdentityFile ~/.ssh/%r_%h

Host *
    User admin
"""
    for order in (("db", "web", "db"), ("web", "db"), ("db", "db")):
        c2 = SSHConfig.from_text(text2)
        for h in order:
            fresh = SSHConfig.from_text(text2).lookup(h).get("identityfile")
            got = c2.lookup(h).get("identityfile")
            if got != fresh:
                bad.append({"lookups_on_one_object": order, "host": h, "identityfile": got, "on_a_fresh_parse": fresh})
                break
    return {"violates": bool(bad), "detail": bad[:4]}
