"""C19 native replay: window accounting of a real Channel with a recording transport"""
import threading
from paramiko.channel import Channel
from paramiko.message import Message
from .common import ival, seq_bytes


class Rec:
    def __init__(self):
        self.sent = []
        self.default_max_packet_size = 2 ** 15
        self.default_window_size = 2 ** 21
        self.lock = threading.Lock()
        self.active = True

    def get_log_channel(self):
        return "paramiko.verif"

    def _send_user_message(self, m):
        self.sent.append(m.asbytes())

    def _sanitize_packet_size(self, n):
        from paramiko.transport import Transport
        return Transport._sanitize_packet_size(self, n)


def mk(window, maxpkt):
    c = Channel(3)
    t = Rec()
    c._set_transport(t)
    c._set_window(2 ** 21, 2 ** 15)
    c._set_remote_channel(7, window, maxpkt)
    return c, t


def sender_case(window, maxpkt, n):
    c, t = mk(window, maxpkt)
    c.settimeout(0.0)
    data = bytes(range(256)) * (n // 256 + 1)
    data = data[:n]
    why = []
    try:
        sent = c.send(data)
    except Exception as e:
        if window == 0 or n == 0:
            return why
        return ["send raised %r with window %d" % (e, window)]
    if sent > window:
        why.append("sent %d bytes with a window of %d" % (sent, window))
    eff = maxpkt if maxpkt >= 4096 else 4096
    if sent > eff:
        why.append("data message of %d bytes exceeds peer max packet %d" % (sent, eff))
    if c.out_window_size != window - sent:
        why.append("window %d -> %d after sending %d" % (window, c.out_window_size, sent))
    if sent:
        m = Message(t.sent[-1])
        m.get_byte(); m.get_int()
        body = m.get_binary()
        if body != data[:sent]:
            why.append("message carries %d bytes, %d were debited" % (len(body), sent))
    return why


def receiver_case(consumed_steps):
    c, t = mk(2 ** 20, 2 ** 15)
    total = 0
    credited = 0
    why = []
    for n in consumed_steps:
        total += n
        credited += c._check_add_window(n)
        if credited > total:
            why.append("credited %d after consuming %d" % (credited, total))
            break
    return why


def replay_window(inp):
    size = max(0, min(ival(inp, "size", 5), 10 ** 6))
    window = max(0, min(ival(inp, "self.out_window_size", 10), 10 ** 7))
    maxpkt = max(0, min(ival(inp, "self.out_max_packet_size", 4096), 2 ** 31))
    n = max(0, min(ival(inp, "n", 100), 10 ** 6))
    bad = []
    for (w, mp, k) in [(window, maxpkt, size), (10, 4096, 100), (10 ** 6, 4096, 10 ** 5), (5000, 2 ** 15, 5000),
                       (2 ** 21, 100, 2 ** 16), (1, 4096, 1), (4033, 4096, 4096)]:
        why = sender_case(w, mp, k)
        if why:
            bad.append({"window": w, "max_packet": mp, "len": k, "why": why})
    for steps in ([n], [n, n, n], [2 ** 21 // 10, 1], [1] * 50, [2 ** 21]):
        why = receiver_case(steps)
        if why:
            bad.append({"consumed": steps[:4], "why": why})
    return {"violates": bool(bad), "detail": bad[:3]}


def late_combine(inp):
    """stderr data that arrived earlier is still unread when combining is switched on: moving it to the stdout buffer is
    not consumption, so nothing may be handed back to the peer's window for it"""
    from paramiko.message import Message
    why = []
    for n in (5000, 20000, 300000):
        c, t = mk(2 ** 20, 2 ** 15)
        m = Message()
        m.add_int(1)
        m.add_string(b"e" * n)
        m.rewind()
        c._feed_extended(m)
        before_sent, before_sofar = len(t.sent), c.in_window_sofar
        c.set_combine_stderr(True)
        if len(t.sent) != before_sent or c.in_window_sofar != before_sofar:
            why.append("%d unread stderr bytes moved: %d message(s) sent, in_window_sofar %d -> %d although the application "
                       "has consumed nothing" % (n, len(t.sent) - before_sent, before_sofar, c.in_window_sofar))
    return {"violates": bool(why), "detail": why[:3]}
