"""C10 native replay: real Packetizers with small thresholds - the re-key request is raised at the threshold, and a peer
that keeps sending without re-keying is cut off within the overflow allowance even while our side keeps sending too"""
import random
from paramiko.message import Message
from paramiko.ssh_exception import SSHException
from paramiko.transport import Transport
from . import c01


def replay_rekey(inp):
    rnd = random.Random(3)
    n = 0
    for cipher, mac in ((None, None), ("aes128-ctr", "hmac-sha2-256"), ("aes256-gcm@openssh.com", "hmac-sha2-256"),
                        ("aes128-cbc", "hmac-sha2-256-etm@openssh.com")):
        for limit_pk, limit_by in ((5, 10 ** 9), (10 ** 9, 400)):
            for interleave_sends in (False, True):
                # A sends to B (pipe 1); B sends to A (pipe 2)
                SA, RB, _ = c01.make_pair(rnd, cipher, mac, False)
                SB, RA, _ = c01.make_pair(rnd, cipher, mac, False)
                # B is the transport under test: RB reads, SB writes; they are ONE Packetizer in real life, so use one
                # object for both directions
                B = RB
                B.REKEY_PACKETS, B.REKEY_BYTES = limit_pk, limit_by
                B.REKEY_PACKETS_OVERFLOW_MAX, B.REKEY_BYTES_OVERFLOW_MAX = 6, 10 ** 9
                sock_out = SB._Packetizer__socket
                # outbound half of B: reuse SB's cipher state inside B
                for f in ("block_engine_out", "block_size_out", "mac_engine_out", "mac_size_out", "mac_key_out", "sdctr_out",
                          "etm_out", "aead_out", "iv_out"):
                    setattr(B, "_Packetizer__" + f, getattr(SB, "_Packetizer__" + f))

                class Both:
                    def __init__(s, rd, wr):
                        s.rd, s.wr = rd, wr
                    def recv(s, k): return s.rd.recv(k)
                    def send(s, d): return s.wr.send(d)
                    def settimeout(s, t): pass
                B._Packetizer__socket = Both(B._Packetizer__socket, sock_out)
                got, cut = 0, False
                asked_at = None
                for i in range(60):
                    m = Message(); m.add_bytes(bytes(rnd.getrandbits(8) for _ in range(20)))
                    SA.send_message(m)
                    try:
                        c01.read_one(B)
                    except SSHException:
                        cut = True
                        break
                    got += 1
                    n += 1
                    if B.need_rekey() and asked_at is None:
                        asked_at = got
                    if interleave_sends:
                        r = Message(); r.add_bytes(b"\x52")
                        B.send_message(r)
                if asked_at is None or asked_at > (limit_pk if limit_pk < 100 else 400 // 20 + 1):
                    return dict(violates=True, evaluations=n,
                                detail="%s/%s: re-key not requested when the threshold (%d packets / %d bytes) was reached (asked after %s packets)"
                                % (cipher, mac, limit_pk, limit_by, asked_at))
                if not cut or got - asked_at > 6:
                    return dict(violates=True, evaluations=n,
                                detail="%s/%s: peer ignored the re-key request and got %d more packets through (allowance 6)%s, connection %s"
                                % (cipher, mac, got - asked_at, " while we kept answering" if interleave_sends else "",
                                   "still up" if not cut else "cut late"))
    return dict(violates=False, evaluations=n)
