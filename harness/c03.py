"""C03 native replay: real Packetizer._build_packet / send_message against the property statement"""
import struct
from paramiko.packet import Packetizer
from .common import seq_bytes, ival, bval


class _Sock:
    def __init__(self):
        self.out = b""

    def send(self, b):
        self.out += bytes(b)
        return len(b)

    def settimeout(self, t):
        pass


class _Engine:
    def update(self, b):
        return bytes(b)


def check_packet(packet, payload, bsize, etm_or_aead):
    why = []
    if len(packet) < 5:
        return ["packet shorter than 5 bytes"]
    pad = packet[4]
    if not (4 <= pad <= 255):
        why.append("padding %d not in 4..255" % pad)
    if struct.unpack(">I", packet[:4])[0] != len(packet) - 4:
        why.append("length field %d != %d" % (struct.unpack(">I", packet[:4])[0], len(packet) - 4))
    if len(packet) != 5 + len(payload) + pad:
        why.append("total length inconsistent with padding byte")
    if packet[5:5 + len(payload)] != payload:
        why.append("payload altered")
    enc = len(packet) - (4 if etm_or_aead else 0)
    if enc % bsize != 0:
        why.append("encrypted portion %d not a multiple of block size %d" % (enc, bsize))
    return why


def replay_build_packet(inp):
    payload = seq_bytes(inp.get("payload"))
    bsize = ival(inp, "self._Packetizer__block_size_out", 8)
    etm = bval(inp, "self._Packetizer__etm_out")
    aead = bval(inp, "self._Packetizer__aead_out")
    sdctr = bval(inp, "self._Packetizer__sdctr_out")
    has_engine = inp.get("self._Packetizer__block_engine_out?", "none") != "none"
    p = Packetizer(_Sock())
    p._Packetizer__block_size_out = bsize
    p._Packetizer__etm_out = etm
    p._Packetizer__aead_out = aead
    p._Packetizer__sdctr_out = sdctr
    p._Packetizer__block_engine_out = _Engine() if has_engine else None
    packet = p._build_packet(payload)
    why = check_packet(packet, payload, bsize, etm or aead)
    return {"violates": bool(why), "detail": why, "inputs": {"payload_len": len(payload), "bsize": bsize, "etm": etm,
                                                              "aead": aead}}


def replay_send_message(inp):
    """seeded search: the model's payload length against every real MAC in Transport._mac_info and every
    framing mode, with an identity 'cipher' so that the plaintext framing is visible on the wire"""
    from paramiko.message import Message
    from paramiko.transport import Transport
    n = inp.get("data.packet.buf", {"len": 5}).get("len", 5) if isinstance(inp.get("data.packet.buf"), dict) else 5
    n = max(1, min(int(n), 70000))
    bad = []
    lens = sorted(set([n, 1, 2, 7, 8, 9, 15, 16, 17, 255, 256]))
    for name, info in Transport._mac_info.items():
        for mode in ("classic", "etm"):
            for ln in lens:
                sock = _Sock()
                p = Packetizer(sock)
                p.set_outbound_cipher(_Engine(), 16, info["class"], info["size"], b"k" * 20, sdctr=False,
                                      etm=(mode == "etm"))
                m = Message()
                m.add_bytes(bytes([94]) + b"x" * (ln - 1))
                p.send_message(m)
                w = sock.out
                plain_len = 4 + struct.unpack(">I", w[:4])[0]
                if len(w) != plain_len + info["size"]:
                    bad.append({"mac": name, "mode": mode, "payload": ln, "wire": len(w),
                                "expected": plain_len + info["size"]})
                    break
    return {"violates": bool(bad), "detail": bad[:4]}
