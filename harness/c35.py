"""C35 native replay: verify_ssh_sig of every key kind on malformed signature blobs and on its own signatures"""
from paramiko import RSAKey, ECDSAKey, Ed25519Key
from paramiko.message import Message

_K = {}


def keys():
    if not _K:
        _K["rsa"] = RSAKey.generate(1024)
        _K["ecdsa"] = ECDSAKey.generate()
        k = Ed25519Key.from_private_key_file("/repo/tests/_support/ed25519.key")
        _K["ed25519 (loaded from a private key file)"] = k
        _K["ed25519 (built from public bytes)"] = Ed25519Key(data=k.asbytes())
    return _K


def replay_verify(inp):
    bad = []
    for label, key in keys().items():
        name = key.get_name()
        blobs = [b"", b"\xff\xff", Message().add_string(b"\xff\xfe").add_string(b"x").asbytes(),
                 Message().add_string(name).add_string(b"short").asbytes(),
                 Message().add_string(name).add_string(Message().add_mpint(-5).add_mpint(-7).asbytes()).asbytes(),
                 Message().add_string(name).add_string(b"\x00" * 64).asbytes(), Message().add_string(name).asbytes()]
        for blob in blobs:
            try:
                r = key.verify_ssh_sig(b"data", Message(blob))
                if r is not False:
                    bad.append({"key": label, "blob": blob[:16].hex(), "why": "answered %r" % (r,)})
            except Exception as e:
                bad.append({"key": label, "blob": blob[:16].hex(), "why": "raised %r" % (e,)})
        if key.can_sign():
            try:
                sig = key.sign_ssh_data(b"data")
                if key.verify_ssh_sig(b"data", Message(sig.asbytes())) is not True:
                    bad.append({"key": label, "why": "own signature not accepted"})
                if key.verify_ssh_sig(b"other", Message(sig.asbytes())) is not False:
                    bad.append({"key": label, "why": "signature accepted for other data"})
            except Exception as e:
                bad.append({"key": label, "why": "sign/verify raised %r" % (e,)})
    return {"violates": bool(bad), "detail": bad[:4]}


def rsa_odd_modulus(inp):
    """RSA keys whose modulus length is not a multiple of 8 bits: genuine signatures are ceil(bits/8) bytes long and must
    verify, under the signing key and under its public half, for all three hash algorithms"""
    from cryptography.hazmat.primitives.asymmetric import rsa
    from paramiko import RSAKey
    from paramiko.message import Message
    bad = []
    for bits in (2047, 1027, 2048):
        try:
            k = RSAKey(key=rsa.generate_private_key(public_exponent=65537, key_size=bits))
        except ValueError:
            continue            # this build of the library refuses the size
        pub = RSAKey(data=k.asbytes())
        for alg in ("ssh-rsa", "rsa-sha2-256", "rsa-sha2-512"):
            sig = k.sign_ssh_data(b"payload", alg)
            for who, key in (("signing key", k), ("public key", pub)):
                m = Message(sig.asbytes())
                if key.verify_ssh_sig(b"payload", m) is not True:
                    bad.append("RSA %d-bit, %s: genuine signature rejected by the %s" % (bits, alg, who))
    return {"violates": bool(bad), "detail": bad[:3]}


def ecdsa_unpadded_integers(inp):
    """a genuine ECDSA signature whose r or s has its top bit set, re-encoded without the leading zero byte: on the wire
    that integer is negative, so it is not the signature that was made and must be refused (and nothing may be raised)"""
    from cryptography.hazmat.primitives.asymmetric.utils import decode_dss_signature
    bad = []
    n = 0
    for bits in (256, 384, 521):
        key = ECDSAKey.generate(bits=bits)
        for i in range(40):
            data = b"data-%d" % i
            sig = key.sign_ssh_data(data)
            sig.rewind()
            name = sig.get_text()
            inner = Message(sig.get_binary())
            r, s_ = inner.get_mpint(), inner.get_mpint()

            def raw(v, strip):
                b = v.to_bytes((v.bit_length() + 8) // 8, "big")          # canonical: with sign padding where needed
                return b[1:] if strip and b[0] == 0 and len(b) > 1 and b[1] >= 0x80 else b
            for strip_r, strip_s in ((True, False), (False, True), (True, True)):
                rb, sb = raw(r, strip_r), raw(s_, strip_s)
                if (rb, sb) == (raw(r, False), raw(s_, False)):
                    continue
                n += 1
                blob = Message().add_string(name).add_string(Message().add_string(rb).add_string(sb).asbytes()).asbytes()
                try:
                    ans = key.verify_ssh_sig(data, Message(blob))
                except Exception as e:
                    bad.append({"curve": bits, "why": "raised %r" % (e,)})
                    continue
                if ans is not False:
                    bad.append({"curve": bits, "r_len": len(rb), "s_len": len(sb),
                                "why": "signature with r/s sent without sign padding (negative integer) answered %r" % (ans,)})
    return {"violates": bool(bad), "evaluations": n, "detail": bad[:4]}
