"""C35 native replay: verify_ssh_sig of every key kind on malformed signature blobs and on its own signatures"""
from paramiko import RSAKey, ECDSAKey, Ed25519Key
from paramiko.message import Message

_K = {}


def keys():
    if not _K:
        _K["rsa"] = RSAKey.generate(1024)
        _K["ecdsa"] = ECDSAKey.generate()
        k = Ed25519Key.from_private_key_file("/repo/tests/_support/ed25519.key")
        _K["ed25519 (loaded from a private key file)"] = k
        _K["ed25519 (built from public bytes)"] = Ed25519Key(data=k.asbytes())
    return _K


def replay_verify(inp):
    bad = []
    for label, key in keys().items():
        name = key.get_name()
        blobs = [b"", b"\xff\xff", Message().add_string(b"\xff\xfe").add_string(b"x").asbytes(),
                 Message().add_string(name).add_string(b"short").asbytes(),
                 Message().add_string(name).add_string(Message().add_mpint(-5).add_mpint(-7).asbytes()).asbytes(),
                 Message().add_string(name).add_string(b"\x00" * 64).asbytes(), Message().add_string(name).asbytes()]
        for blob in blobs:
            try:
                r = key.verify_ssh_sig(b"data", Message(blob))
                if r is not False:
                    bad.append({"key": label, "blob": blob[:16].hex(), "why": "answered %r" % (r,)})
            except Exception as e:
                bad.append({"key": label, "blob": blob[:16].hex(), "why": "raised %r" % (e,)})
        if key.can_sign():
            try:
                sig = key.sign_ssh_data(b"data")
                if key.verify_ssh_sig(b"data", Message(sig.asbytes())) is not True:
                    bad.append({"key": label, "why": "own signature not accepted"})
                if key.verify_ssh_sig(b"other", Message(sig.asbytes())) is not False:
                    bad.append({"key": label, "why": "signature accepted for other data"})
            except Exception as e:
                bad.append({"key": label, "why": "sign/verify raised %r" % (e,)})
    return {"violates": bool(bad), "detail": bad[:4]}


def rsa_odd_modulus(inp):
    """RSA keys whose modulus length is not a multiple of 8 bits: genuine signatures are ceil(bits/8) bytes long and must
    verify, under the signing key and under its public half, for all three hash algorithms"""
    from cryptography.hazmat.primitives.asymmetric import rsa
    from paramiko import RSAKey
    from paramiko.message import Message
    bad = []
    for bits in (2047, 1027, 2048):
        try:
            k = RSAKey(key=rsa.generate_private_key(public_exponent=65537, key_size=bits))
        except ValueError:
            continue            # this build of the library refuses the size
        pub = RSAKey(data=k.asbytes())
        for alg in ("ssh-rsa", "rsa-sha2-256", "rsa-sha2-512"):
            sig = k.sign_ssh_data(b"payload", alg)
            for who, key in (("signing key", k), ("public key", pub)):
                m = Message(sig.asbytes())
                if key.verify_ssh_sig(b"payload", m) is not True:
                    bad.append("RSA %d-bit, %s: genuine signature rejected by the %s" % (bits, alg, who))
    return {"violates": bool(bad), "detail": bad[:3]}
