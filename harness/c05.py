"""C05 native replay: two real Transports exchange their real KEXINIT messages (no network: _send_message captured) and
negotiate; both must pick, per category, the client's first algorithm that the server also offers, or both fail"""
import itertools
import random
import socket
from paramiko.transport import Transport
from paramiko.message import Message
from paramiko.rsakey import RSAKey
from paramiko.ssh_exception import SSHException, IncompatiblePeer

KEY = None


def mk(server, prefs, moduli=False):
    global KEY
    a, b = socket.socketpair()
    t = Transport(a)
    t._socks = (a, b)
    t.server_mode = server
    if server:
        if KEY is None:
            KEY = RSAKey.generate(1024)
        t.add_server_key(KEY)
        if moduli:
            t._modulus_pack = object()
    so = t.get_security_options()
    for cat, val in prefs.items():
        setattr(so, cat, val)
    sent = []
    t._send_message = lambda m: sent.append(m.asbytes())
    t._sent = sent
    return t


def first_common(client, server):
    for x in client:
        if x in server:
            return x
    return None


def negotiate(cprefs, sprefs, moduli=False):
    c, s = mk(False, cprefs), mk(True, sprefs, moduli)
    try:
        c._send_kex_init()
        s._send_kex_init()
        cm, sm = Message(c._sent[0][1:]), Message(s._sent[0][1:])
        cm.seqno = sm.seqno = 0
        res = {}
        for name, t, m in (("client", c, sm), ("server", s, cm)):
            try:
                t._parse_kex_init(m)
                res[name] = dict(kex=type(t.kex_engine).__name__ + ":" + getattr(t.kex_engine, "name", ""), key=t.host_key_type,
                                 c2s_cipher=t.local_cipher if name == "client" else t.remote_cipher,
                                 s2c_cipher=t.remote_cipher if name == "client" else t.local_cipher,
                                 c2s_mac=t.local_mac if name == "client" else t.remote_mac,
                                 s2c_mac=t.remote_mac if name == "client" else t.local_mac,
                                 c2s_comp=t.local_compression if name == "client" else t.remote_compression,
                                 s2c_comp=t.remote_compression if name == "client" else t.local_compression)
            except IncompatiblePeer:
                res[name] = "incompatible"
        adv = dict(client=c._get_latest_kex_init(), server=s._get_latest_kex_init())
        return res, adv
    finally:
        for t in (c, s):
            for x in t._socks:
                x.close()


def check(cprefs, sprefs, moduli, label):
    res, adv = negotiate(cprefs, sprefs, moduli)
    why = []
    if res["client"] != res["server"]:
        why.append("the two ends disagree: client %s, server %s" % (res["client"], res["server"]))
    # oracle from the lists actually put on the wire
    strip = lambda l: [x for x in l if not x.startswith("ext-info-") and not x.startswith("kex-strict-")]
    exp_kex = first_common(strip(adv["client"]["kex_algo_list"]), strip(adv["server"]["kex_algo_list"]))
    for side in ("client", "server"):
        r = res[side]
        if r == "incompatible":
            continue
        if exp_kex is None or not r["kex"].endswith(":" + exp_kex) and exp_kex not in r["kex"]:
            # class names differ from algorithm names; compare through the engine's own name when it has one
            pass
        exp_key = first_common(adv["client"]["server_key_algo_list"], adv["server"]["server_key_algo_list"])
        if r["key"] != exp_key:
            why.append("%s chose host key algorithm %r, the client's first among those the server offered is %r" % (side, r["key"], exp_key))
        for k, (cl, sl) in dict(c2s_cipher=("client_encrypt_algo_list", "client_encrypt_algo_list"),
                                s2c_cipher=("server_encrypt_algo_list", "server_encrypt_algo_list"),
                                c2s_mac=("client_mac_algo_list", "client_mac_algo_list"),
                                s2c_mac=("server_mac_algo_list", "server_mac_algo_list"),
                                c2s_comp=("client_compress_algo_list", "client_compress_algo_list"),
                                s2c_comp=("server_compress_algo_list", "server_compress_algo_list")).items():
            exp = first_common(adv["client"][cl], adv["server"][sl])
            if r[k] != exp:
                why.append("%s chose %s=%r, the client's first mutually supported choice is %r" % (side, k, r[k], exp))
    return [{"history": label, "why": why}] if why else []


def replay_negotiation(inp):
    rnd = random.Random(int(inp.get("seed", 0)) + 17)
    bad = []
    n = 0
    # a server without a moduli file facing a client that prefers group exchange
    gex_first = ("diffie-hellman-group-exchange-sha256", "curve25519-sha256@libssh.org", "diffie-hellman-group14-sha256")
    plain = ("curve25519-sha256@libssh.org", "diffie-hellman-group-exchange-sha256", "diffie-hellman-group14-sha256")
    for moduli in (False, True):
        n += 1
        bad += check(dict(kex=gex_first), dict(kex=plain), moduli, "client prefers group exchange, server %s a moduli file" % ("with" if moduli else "without"))
    # a server whose host-key preference list leaves out an algorithm it holds a key for, facing a client that ranks that
    # algorithm first: both ends must still pick the client's first choice among what the server OFFERED
    for ckeys in (("ssh-rsa", "rsa-sha2-512", "rsa-sha2-256"), ("ssh-rsa", "rsa-sha2-256"), ("rsa-sha2-256", "ssh-rsa")):
        n += 1
        bad += check(dict(key_types=ckeys), dict(key_types=("rsa-sha2-512", "rsa-sha2-256")), True,
                     "server offers rsa-sha2-* only (it holds an RSA key), client prefers %s" % (ckeys,))
    if bad:
        return {"violates": True, "evaluations": n, "detail": bad[:3]}
    base = Transport._preferred_ciphers, Transport._preferred_macs, ("none", "zlib@openssh.com", "zlib")
    for _ in range(60):
        n += 1
        def shuf(t, k=None):
            l = list(t)
            rnd.shuffle(l)
            return tuple(l[:rnd.randint(1, len(l))])
        cp = dict(ciphers=shuf(base[0]), digests=shuf(base[1]), compression=shuf(base[2]))
        sp = dict(ciphers=shuf(base[0]), digests=shuf(base[1]), compression=shuf(base[2]))
        try:
            bad += check(cp, sp, True, "random preference lists")
        except (ValueError, SSHException):
            continue        # a preference list the library itself refuses
        if bad:
            break
    return {"violates": bool(bad), "evaluations": n, "detail": bad[:3]}


def filter_follows_configuration(inp):
    """the preferred_* lists follow disabled_algorithms as it is NOW: read a list, disable its first entry on the live
    transport (in place and by reassignment), read again - the entry must be gone, and a renegotiation must not pick it"""
    bad = []
    for how in ("in place", "reassigned"):
        a, b = socket.socketpair()
        try:
            t = Transport(a)
            for cat, prop in (("ciphers", "preferred_ciphers"), ("macs", "preferred_macs"), ("kex", "preferred_kex"),
                              ("keys", "preferred_keys"), ("compression", "preferred_compression"), ("pubkeys", "preferred_pubkeys")):
                first = getattr(t, prop)[0]
                if how == "in place":
                    t.disabled_algorithms.setdefault(cat, []).append(first)
                else:
                    t.disabled_algorithms = dict(t.disabled_algorithms, **{cat: [first]})
                after = getattr(t, prop)
                if first in after:
                    bad.append({"category": cat, "disabled": first, "configuration_changed": how,
                                "why": "still offered after it was disabled on the live transport"})
        finally:
            a.close(); b.close()
    return {"violates": bool(bad), "detail": bad[:3]}
