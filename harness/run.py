"""Native replay entry point (run by /venv/bin/python with PYTHONPATH=<repo>:/verif):
python -m harness.run <module.function>  < payload.json  -> one JSON line {violates: bool, detail: ...}"""
import importlib
import json
import sys
import traceback


def main():
    name = sys.argv[1]
    modn, fn = name.rsplit(".", 1)
    payload = json.load(sys.stdin)
    mod = importlib.import_module("harness." + modn)
    try:
        res = getattr(mod, fn)(payload)
    except Exception:
        res = {"violates": False, "error": traceback.format_exc()[-1500:]}
    print(json.dumps(res, default=repr))


if __name__ == "__main__":
    main()
