"""C27 native replay: a program of file operations on a real SFTPFile (real client, real server, temporary directory) and on
a local binary file opened with the same mode; every return value and the final contents are compared."""
import os
import random
from .sftp_loop import Loop
from .common import ival

INITIAL = bytes((i * 7 + 3) % 251 for i in range(3000)).replace(b"\n", b"x")
INITIAL = INITIAL[:700] + b"\n" + INITIAL[701:1500] + b"\n" + INITIAL[1501:]


def apply(f, op):
    k = op[0]
    if k == "read":
        return f.read(op[1])
    if k == "readline":
        return f.readline() if op[1] is None else f.readline(op[1])
    if k == "write":
        r = f.write(op[1])
        return None            # io returns the count, BufferedFile returns None: not part of the property
    if k == "seek":
        r = f.seek(op[1], op[2])
        return None
    if k == "tell":
        return f.tell()
    if k == "flush":
        f.flush()
        return None
    if k == "truncate":
        f.truncate(op[1])
        return None
    raise ValueError(k)


def run_program(mode, bufsize, ops, initial=INITIAL, loop=None, pipelined=False):
    own = loop is None
    if own:
        loop = Loop()
    diffs = []
    try:
        rp, lp = loop.path("remote.bin"), loop.path("local.bin")
        for p in (rp, lp):
            if "x" in mode:
                if os.path.exists(p):
                    os.remove(p)
            else:
                with open(p, "wb") as f:
                    f.write(initial)
        rf = loop.sftp.open("/remote.bin", mode + "b", bufsize)
        if pipelined:
            rf.set_pipelined(True)
        lf = open(lp, mode + "b") if bufsize != 0 else open(lp, mode + "b", 0)
        for i, op in enumerate(ops):
            try:
                a = ("ok", apply(rf, op))
            except (IOError, OSError, ValueError) as e:
                a = ("raise", None)
            try:
                b = ("ok", apply(lf, op))
            except (IOError, OSError, ValueError) as e:
                b = ("raise", None)
            if a != b:
                diffs.append({"step": i, "op": repr(op)[:80], "sftp": repr(a)[:80], "local": repr(b)[:80]})
                break
        rf.close()
        lf.close()
        ra, la = open(rp, "rb").read(), open(lp, "rb").read()
        if ra != la and not diffs:
            first = next((i for i in range(min(len(ra), len(la))) if ra[i] != la[i]), min(len(ra), len(la)))
            diffs.append({"step": "final contents", "sftp_len": len(ra), "local_len": len(la), "first_difference_at": first})
    finally:
        if own:
            loop.close()
    return diffs


def random_ops(rng, n, mode):
    ops = []
    for _ in range(n):
        k = rng.choice(["read", "read", "readline", "write", "write", "seek", "seek", "tell", "flush"])
        if k == "read":
            ops.append(("read", rng.choice([0, 1, 5, 100, 1000, 5000])))
        elif k == "readline":
            ops.append(("readline", rng.choice([None, None, 10, 2000])))
        elif k == "write":
            ops.append(("write", bytes([65 + rng.randrange(26)]) * rng.choice([1, 3, 50, 900])))
        elif k == "seek":
            wh = rng.choice([0, 0, 1, 2])
            ops.append(("seek", rng.choice([0, 5, 100, 2999, 3500]) if wh == 0 else rng.choice([0, 3, -3, 40, -40]) if wh == 1 else rng.choice([0, -1, -100]), wh))
        else:
            ops.append((k,))
    return ops


def guarded(mode, bufsize, ops, pipelined=False, secs=10):
    """run one program on a fresh client/server pair, giving up (and reporting a hang) after secs seconds"""
    import threading
    res = {}
    loop = Loop()

    def run():
        try:
            res["d"] = run_program(mode, bufsize, ops, loop=loop, pipelined=pipelined)
        except Exception as e:
            res["d"] = [{"step": "harness", "error": repr(e)[:200]}]
    th = threading.Thread(target=run, daemon=True)
    th.start()
    th.join(secs)
    hung = th.is_alive()
    try:
        loop.close()
    except Exception:
        pass
    if hung:
        return [{"step": "hang", "why": "the program did not finish within %d s" % secs}]
    return res.get("d", [])


def fuzz(inp):
    rng = random.Random(ival(inp, "seed", 1))
    n = ival(inp, "programs", 40)
    bad = []
    if True:
        for i in range(n):
            mode = rng.choice(["r", "r+", "w", "w+", "a", "a+"])
            bufsize = rng.choice([-1, 0, 1, 2, 64, 8192, 65536])
            ops = random_ops(rng, rng.randrange(1, 12), mode)
            pipelined = rng.random() < 0.3
            d = guarded(mode, bufsize, ops, pipelined)
            if d:
                bad.append({"mode": mode, "bufsize": bufsize, "pipelined": pipelined, "ops": repr(ops)[:400], "diff": d[0]})
    return {"violates": bool(bad), "evaluations": n, "detail": bad[:40]}
