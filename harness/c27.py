"""C27 native replay: a program of file operations on a real SFTPFile (real client, real server, temporary directory) and on
a local binary file opened with the same mode; every return value and the final contents are compared."""
import os
import random
from .sftp_loop import Loop
from .common import ival

INITIAL = bytes((i * 7 + 3) % 251 for i in range(3000)).replace(b"\n", b"x")
INITIAL = INITIAL[:700] + b"\n" + INITIAL[701:1500] + b"\n" + INITIAL[1501:]


def apply(f, op):
    k = op[0]
    if k == "read":
        return f.read(op[1])
    if k == "readline":
        return f.readline() if op[1] is None else f.readline(op[1])
    if k == "write":
        r = f.write(op[1])
        return None            # io returns the count, BufferedFile returns None: not part of the property
    if k == "seek":
        r = f.seek(op[1], op[2])
        return None
    if k == "tell":
        return f.tell()
    if k == "flush":
        f.flush()
        return None
    if k == "truncate":
        f.truncate(op[1])
        return None
    raise ValueError(k)


def run_program(mode, bufsize, ops, initial=INITIAL, loop=None, pipelined=False):
    own = loop is None
    if own:
        loop = Loop()
    diffs = []
    try:
        rp, lp = loop.path("remote.bin"), loop.path("local.bin")
        for p in (rp, lp):
            if "x" in mode:
                if os.path.exists(p):
                    os.remove(p)
            else:
                with open(p, "wb") as f:
                    f.write(initial)
        rf = loop.sftp.open("/remote.bin", mode + "b", bufsize)
        if pipelined:
            rf.set_pipelined(True)
        lf = open(lp, mode + "b") if bufsize != 0 else open(lp, mode + "b", 0)
        for i, op in enumerate(ops):
            try:
                a = ("ok", apply(rf, op))
            except (IOError, OSError, ValueError) as e:
                a = ("raise", None)
            try:
                b = ("ok", apply(lf, op))
            except (IOError, OSError, ValueError) as e:
                b = ("raise", None)
            if a != b:
                diffs.append({"step": i, "op": repr(op)[:80], "sftp": repr(a)[:80], "local": repr(b)[:80]})
                break
        rf.close()
        lf.close()
        ra, la = open(rp, "rb").read(), open(lp, "rb").read()
        if ra != la and not diffs:
            first = next((i for i in range(min(len(ra), len(la))) if ra[i] != la[i]), min(len(ra), len(la)))
            diffs.append({"step": "final contents", "sftp_len": len(ra), "local_len": len(la), "first_difference_at": first})
    finally:
        if own:
            loop.close()
    return diffs


def random_ops(rng, n, mode):
    ops = []
    for _ in range(n):
        k = rng.choice(["read", "read", "readline", "write", "write", "seek", "seek", "tell", "flush", "truncate"])
        if k == "truncate" and (mode == "r" or "a" in mode):
            # this harness's server changes the size through the path, so it would allow it on a read-only handle (a real
            # server does not); in append mode paramiko's cached end-of-file position is documented as approximate
            k = "tell"
        if k == "read":
            ops.append(("read", rng.choice([0, 1, 5, 100, 1000, 5000])))
        elif k == "readline":
            ops.append(("readline", rng.choice([None, None, 10, 2000])))
        elif k == "write":
            ops.append(("write", bytes([65 + rng.randrange(26)]) * rng.choice([1, 3, 50, 900])))
        elif k == "truncate":
            ops.append(("truncate", rng.choice([0, 5, 700, 2999, 3500])))
        elif k == "seek":
            wh = rng.choice([0, 0, 1, 2])
            ops.append(("seek", rng.choice([0, 5, 100, 2999, 3500]) if wh == 0 else rng.choice([0, 3, -3, 40, -40]) if wh == 1 else rng.choice([0, -1, -100]), wh))
        else:
            ops.append((k,))
    # a read straight after a buffered write is the listed known finding; the programs generated here flush in between
    out = []
    for op in ops:
        # (and in append mode a local file's tell() straight after a buffered write is the pre-append position plus the
        # data length - an artefact of CPython's buffering that no file position ever corresponds to: flush first)
        if (op[0] in ("read", "readline") or (op[0] == "tell" and "a" in mode)) and any(o[0] == "write" for o in out) and \
                next(o for o in reversed(out) if o[0] in ("write", "flush", "seek"))[0] == "write":
            out.append(("flush",))
        out.append(op)
    return out


def guarded(mode, bufsize, ops, pipelined=False, secs=60):
    """run one program on a fresh client/server pair, giving up (and reporting a hang) after secs seconds"""
    import threading
    res = {}
    loop = Loop()

    def run():
        try:
            res["d"] = run_program(mode, bufsize, ops, loop=loop, pipelined=pipelined)
        except Exception as e:
            res["d"] = [{"step": "harness", "error": repr(e)[:200]}]
    th = threading.Thread(target=run, daemon=True)
    th.start()
    th.join(secs)
    hung = th.is_alive()
    try:
        loop.close()
    except Exception:
        pass
    if hung:
        return [{"step": "hang", "why": "the program did not finish within %d s" % secs}]
    return res.get("d", [])


def fuzz(inp):
    rng = random.Random(ival(inp, "seed", 1))
    n = ival(inp, "programs", 40)
    bad = []
    if True:
        for i in range(n):
            mode = rng.choice(["r", "r+", "w", "w+", "a", "a+"])
            bufsize = rng.choice([-1, 0, 1, 2, 64, 8192, 65536])
            ops = random_ops(rng, rng.randrange(1, 12), mode)
            pipelined = rng.random() < 0.3
            d = guarded(mode, bufsize, ops, pipelined)
            if d:
                bad.append({"mode": mode, "bufsize": bufsize, "pipelined": pipelined, "ops": repr(ops)[:400], "diff": d[0]})
    return {"violates": bool(bad), "evaluations": n, "detail": bad[:40]}


BATTERY = [
    # write after a buffered read: the data belongs where read() stopped
    ("r+", 8192, [("read", 10), ("tell",), ("write", b"X"), ("seek", 0, 0), ("read", 20)]),
    ("r+", 0, [("readline", None), ("tell",), ("write", b"F"), ("readline", None)]),
    ("a+", 64, [("seek", 0, 0), ("readline", None), ("write", b"ZZ"), ("flush",), ("tell",), ("read", 5), ("tell",)]),
    # tell() counts data still in the write buffer
    ("r+", 64, [("write", b"T"), ("tell",)]),
    ("a", 64, [("write", b"BBB"), ("tell",)]),
    ("w+", 2, [("seek", 0, 0), ("write", b"W" * 900), ("tell",)]),
    # (a read straight after a buffered write, with no flush or seek in between, is the listed known finding: see
    #  read_after_buffered_write below; programs here flush first)
    ("r+", 8192, [("write", b"QQQ"), ("flush",), ("readline", 2000)]),
    ("r+", 64, [("read", 10), ("write", b"X"), ("flush",), ("read", 5), ("tell",)]),
    # a position before the start of the file is refused
    ("w+", -1, [("seek", -3, 1), ("tell",)]),
    ("r", -1, [("seek", -1, 0), ("tell",)]),
    ("r+", 0, [("seek", 5, 0), ("seek", -40, 1), ("tell",), ("read", 3)]),
    ("w", 1, [("seek", -1, 2), ("tell",)]),
    # truncate acts on the file as the caller sees it: buffered writes first, no read-ahead from before kept
    ("r+", -1, [("readline", 10), ("truncate", 12), ("read", 5), ("tell",)]),
    ("r+", 8192, [("read", 10), ("truncate", 12), ("read", 5)]),
    ("w+", 64, [("write", b"ABCDEF"), ("truncate", 2), ("seek", 0, 0), ("read", 10)]),
    # a file opened for appending writes at the end of the file as it is now, also after its size was changed
    ("a", 0, [("truncate", 10), ("write", b"abc"), ("tell",), ("truncate", 5000), ("write", b"zz"), ("tell",)]),
    ("a+", 64, [("truncate", 10), ("write", b"abc"), ("flush",), ("tell",), ("seek", 0, 0), ("read", 20)]),
    # cutting the file below the current position with data read ahead: nothing stale is served afterwards
    ("r+", 8192, [("readline", None), ("read", 40), ("tell",), ("truncate", 0), ("tell",), ("read", 30)]),
    # plain sequential use
    ("r", -1, [("read", 100), ("readline", None), ("tell",), ("seek", 2999, 0), ("read", 10), ("read", 10)]),
    ("w", -1, [("write", b"abc"), ("write", b"def"), ("tell",), ("seek", 1, 0), ("write", b"Z"), ("tell",)]),
    ("a", 0, [("tell",), ("write", b"R"), ("tell",), ("seek", 0, 0), ("write", b"S"), ("tell",)]),
]


def replay_programs(inp):
    """the fixed battery above plus seeded random programs (modes r, r+, w, w+, a, a+; bufsize -1, 0, 1, 2, 64, 8192, 65536;
    pipelined or not), each on a fresh client / server pair, return values and final contents compared with a local file"""
    rng = random.Random(ival(inp, "seed", 1))
    progs = [(m, b, ops, False) for m, b, ops in BATTERY]
    for _ in range(ival(inp, "programs", 60 if inp.get("tier") == "thorough" else 6)):
        mode = rng.choice(["r", "r+", "w", "w+", "a", "a+"])
        progs.append((mode, rng.choice([-1, 0, 1, 2, 64, 8192, 65536]), random_ops(rng, rng.randrange(1, 12), mode), rng.random() < 0.3))
    bad = []
    for mode, bufsize, ops, pipelined in progs:
        d = guarded(mode, bufsize, ops, pipelined)
        if d:
            bad.append({"mode": mode, "bufsize": bufsize, "pipelined": pipelined, "ops": repr(ops)[:300], "diff": d[0]})
    return {"violates": bool(bad), "evaluations": len(progs), "detail": bad[:6]}


def _finding(mode, bufsize, ops):
    d = guarded(mode, bufsize, ops)
    return {"violates": bool(d), "detail": d}


def read_after_buffered_write(inp):
    """known finding: data written with buffering on is not flushed before a read() that follows"""
    return _finding("r+", 64, [("read", 10), ("write", b"X"), ("read", 5), ("tell",)])


def readline_after_buffered_write(inp):
    """known finding: data written with buffering on is not flushed before a readline() that follows"""
    return _finding("r+", 8192, [("write", b"QQQ"), ("readline", 2000)])


def server_handle_offsets(inp):
    """the server side alone: a real SFTPHandle over a real temporary file, in plain and append mode; sequences of
    read(offset, n) / write(offset, data) compared with the file's actual content"""
    import tempfile
    from paramiko.sftp_handle import SFTPHandle
    bad = []
    rng = random.Random(ival(inp, "seed", 1))
    progs = [("a+", [("r", 0, 10), ("w", 0, b"abc"), ("r", 13, 5)]),
             ("r+", [("r", 0, 10), ("w", 10, b"abc"), ("r", 13, 5), ("w", 0, b"Z"), ("r", 1, 3)]),
             ("a+", [("w", 5, b"xy"), ("r", 0, 4), ("r", 4, 4), ("w", 0, b"q"), ("r", 8, 2)])]
    for _ in range(20):
        mode = rng.choice(["r+", "a+"])
        progs.append((mode, [(("r", rng.randrange(0, 120), rng.randrange(0, 20)) if rng.random() < 0.6 else
                              ("w", rng.randrange(0, 100), bytes([65 + rng.randrange(26)]) * rng.randrange(1, 6)))
                             for _ in range(rng.randrange(2, 8))]))
    d = tempfile.mkdtemp(prefix="c27h_")
    try:
        for mode, ops in progs:
            p = os.path.join(d, "f")
            model = bytearray(bytes(range(100)))
            with open(p, "wb") as f:
                f.write(bytes(model))
            flags = os.O_RDWR | (os.O_APPEND if mode == "a+" else 0)
            f = os.fdopen(os.open(p, flags), mode + "b")
            h = SFTPHandle(flags)
            h.readfile = h.writefile = f
            for op in ops:
                if op[0] == "r":
                    got = h.read(op[1], op[2])
                    want = bytes(model[op[1]:op[1] + op[2]])
                    if got != want:
                        bad.append({"mode": mode, "ops": repr(ops)[:200], "at": repr(op), "got": repr(got)[:40], "want": repr(want)[:40]})
                        break
                else:
                    h.write(op[1], op[2])
                    if mode == "a+":
                        model += op[2]
                    else:
                        model[op[1]:op[1] + len(op[2])] = op[2]
            f.close()
    finally:
        import shutil
        shutil.rmtree(d, ignore_errors=True)
    return {"violates": bool(bad), "evaluations": len(progs), "detail": bad[:3]}
