"""C45 native replay: AgentKey.sign_ssh_data against a scripted agent connection"""
import struct
from paramiko.agent import AgentKey, AgentSSH
from paramiko.message import Message
from paramiko.ssh_exception import SSHException
from .common import seq_bytes, seq_str

WANT = {"rsa-sha2-256": 2, "rsa-sha2-256-cert-v01@openssh.com": 2, "rsa-sha2-512": 4,
        "rsa-sha2-512-cert-v01@openssh.com": 4}


class Conn:
    def __init__(self, reply):
        self.sent = b""
        self.reply = reply

    def send(self, b):
        self.sent += bytes(b)
        return len(b)

    def recv(self, n):
        out, self.reply = self.reply[:max(1, n // 2) if n > 1 else n], self.reply[max(1, n // 2) if n > 1 else n:]
        return out


def one(algorithm, data, reply_type, sig):
    agent = AgentSSH()
    body = bytes([reply_type]) + struct.pack(">I", len(sig)) + sig
    agent._conn = Conn(struct.pack(">I", len(body)) + body)
    blob = Message()
    blob.add_string("x-unknown-key-type")
    blob.add_bytes(b"fake-key-material")
    key = AgentKey(agent, blob.asbytes())
    why = []
    try:
        got = key.sign_ssh_data(data, algorithm)
        if reply_type != 14:
            why.append("reply type %d accepted as a signature" % reply_type)
        elif got != sig:
            why.append("signature altered")
    except SSHException:
        if reply_type == 14:
            why.append("raised on a genuine sign response")
    sent = agent._conn.sent
    want = Message()
    want.add_byte(bytes([13]))
    want.add_string(key.asbytes())
    want.add_string(data)
    want.add_int(WANT.get(algorithm, 0))
    frame = struct.pack(">I", len(want.asbytes())) + want.asbytes()
    if sent != frame:
        why.append("request for algorithm %r: sent %s, expected %s" % (algorithm, sent.hex()[-24:], frame.hex()[-24:]))
    return why


def replay_sign(inp):
    algs = [None, "ssh-rsa", "rsa-sha2-256", "rsa-sha2-512", "rsa-sha2-256-cert-v01@openssh.com",
            "rsa-sha2-512-cert-v01@openssh.com", "ssh-ed25519"]
    a = inp.get("algorithm")
    if isinstance(a, dict):
        algs.insert(0, seq_str(a))
    data = seq_bytes(inp.get("data"), b"hello")
    bad = []
    for alg in algs:
        for rt in (14, 5, 13, 15, 0):
            why = one(alg, data, rt, b"SIGNATURE")
            if why:
                bad.append({"algorithm": alg, "reply_type": rt, "why": why})
    return {"violates": bool(bad), "detail": bad[:3]}


def sign_twice(inp):
    """ONE AgentKey object asked to sign several times in a row (a long-lived agent, a retry): every request on the wire is
    exactly  13 || string(blob) || string(data) || uint32(flags for the algorithm)  and nothing else"""
    agent = AgentSSH()
    blob = Message()
    blob.add_string("x-unknown-key-type")
    blob.add_bytes(b"fake-key-material")
    key = AgentKey(agent, blob.asbytes())
    bad = []
    calls = [("first data", "rsa-sha2-256"), ("second", "rsa-sha2-512"), ("third!", None), ("first data", "rsa-sha2-256")]
    for n, (data, alg) in enumerate(calls):
        sig = b"sig%d" % n
        body = bytes([14]) + struct.pack(">I", len(sig)) + sig
        agent._conn = Conn(struct.pack(">I", len(body)) + body)
        try:
            got = key.sign_ssh_data(data.encode(), alg)
        except SSHException as e:
            bad.append({"call": n, "why": "raised %r" % (e,)})
            continue
        want = Message()
        want.add_byte(bytes([13]))
        want.add_string(key.asbytes())
        want.add_string(data.encode())
        want.add_int(WANT.get(alg, 0))
        frame = struct.pack(">I", len(want.asbytes())) + want.asbytes()
        if agent._conn.sent != frame:
            bad.append({"call": n, "algorithm": alg, "why": "request on the wire is %d bytes, expected %d (tail %s, expected %s)"
                        % (len(agent._conn.sent), len(frame), agent._conn.sent.hex()[-16:], frame.hex()[-16:])})
        if got != sig:
            bad.append({"call": n, "why": "signature altered"})
    return {"violates": bool(bad), "detail": bad[:3]}
