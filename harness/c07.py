"""C07 native replay: a host-key / user-auth signature made with ssh-rsa (SHA-1) while rsa-sha2-512 was negotiated / declared"""
import socket
from paramiko.transport import Transport
from paramiko.rsakey import RSAKey
from paramiko.message import Message
from paramiko.ssh_exception import SSHException
from paramiko.auth_handler import AuthHandler
from paramiko.server import ServerInterface
from paramiko.common import AUTH_SUCCESSFUL
from .c12 import FakePacketizer

_KEY = None


def key():
    global _KEY
    if _KEY is None:
        _KEY = RSAKey.generate(1024)
    return _KEY


class AllowAll(ServerInterface):
    def check_auth_publickey(self, username, k):
        return AUTH_SUCCESSFUL

    def get_allowed_auths(self, username):
        return "publickey"


def replay_sigalg(inp):
    bad = []
    k = key()
    # client: negotiated rsa-sha2-512, server signs H with ssh-rsa
    a, b = socket.socketpair()
    try:
        t = Transport(a)
        t.host_key_type = "rsa-sha2-512"
        t.H = b"exchange-hash"
        sig = k.sign_ssh_data(t.H, "ssh-rsa").asbytes()
        try:
            t._verify_key(k.asbytes(), sig)
            bad.append({"side": "client", "negotiated": "rsa-sha2-512", "signature_algorithm": "ssh-rsa", "why": "accepted"})
        except SSHException:
            pass
        good = k.sign_ssh_data(t.H, "rsa-sha2-512").asbytes()
        try:
            t._verify_key(k.asbytes(), good)
        except SSHException as e:
            bad.append({"side": "client", "why": "genuine rsa-sha2-512 signature rejected: %s" % e})
    finally:
        a.close(); b.close()
    # server: request declares rsa-sha2-256, signature blob says ssh-rsa
    a, b = socket.socketpair()
    try:
        t = Transport(a)
        t.server_mode = True
        t.server_object = AllowAll()
        t.packetizer = FakePacketizer([])
        t.session_id = b"S" * 20
        t.active = True
        h = AuthHandler(t)
        t.auth_handler = h
        blob = h._get_session_blob(k, "ssh-connection", "alice", "rsa-sha2-256")
        sig = k.sign_ssh_data(blob, "ssh-rsa").asbytes()
        m = Message()
        m.add_string("alice"); m.add_string("ssh-connection"); m.add_string("publickey"); m.add_boolean(True)
        m.add_string("rsa-sha2-256"); m.add_string(k.asbytes()); m.add_string(sig)
        h._parse_userauth_request(Message(m.asbytes()))
        if h.authenticated:
            bad.append({"side": "server", "declared": "rsa-sha2-256", "signature_algorithm": "ssh-rsa", "why": "authenticated"})
    finally:
        a.close(); b.close()
    # server with ssh-rsa disabled: an unsigned probe declaring an enabled algorithm, then a signed request for the same
    # key declaring (and signed with) the disabled one - on one connection
    a, b = socket.socketpair()
    try:
        t = Transport(a, disabled_algorithms={"pubkeys": ["ssh-rsa"]})
        t.server_mode = True
        t.server_object = AllowAll()
        t.packetizer = FakePacketizer([])
        t.session_id = b"S" * 20
        t.active = True
        h = AuthHandler(t)
        t.auth_handler = h

        def request(alg, signed):
            m = Message()
            m.add_string("alice"); m.add_string("ssh-connection"); m.add_string("publickey"); m.add_boolean(signed)
            m.add_string(alg); m.add_string(k.asbytes())
            if signed:
                blob = h._get_session_blob(k, "ssh-connection", "alice", alg)
                m.add_string(k.sign_ssh_data(blob, alg).asbytes())
            return Message(m.asbytes())
        for first in (None, "rsa-sha2-256", "rsa-sha2-512"):
            h.authenticated = False
            if first:
                h._parse_userauth_request(request(first, False))
            try:
                h._parse_userauth_request(request("ssh-rsa", True))
            except SSHException:
                pass
            if h.authenticated:
                bad.append({"side": "server", "disabled": "ssh-rsa", "probe": first, "signed_request": "ssh-rsa",
                            "why": "authenticated with a disabled signature algorithm"})
    finally:
        a.close(); b.close()
    return {"violates": bool(bad), "detail": bad[:3]}
