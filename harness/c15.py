"""C15 native replay: server-mode Transport, peer not authenticated, scripted connection-layer messages"""
import socket
import threading
from paramiko.transport import Transport
from paramiko.server import ServerInterface
from paramiko.message import Message
from paramiko.common import OPEN_SUCCEEDED
from .c12 import FakePacketizer
from .common import ival


class Spy(ServerInterface):
    def __init__(self):
        self.calls = []

    def check_channel_request(self, kind, chanid):
        self.calls.append(("check_channel_request", kind))
        return OPEN_SUCCEEDED

    def check_global_request(self, kind, msg):
        self.calls.append(("check_global_request", kind))
        return True

    def check_port_forward_request(self, address, port):
        self.calls.append(("check_port_forward_request", address))
        return port


def mk(ptype):
    m = Message()
    if ptype == 90:
        m.add_string("session"); m.add_int(5); m.add_int(2 ** 20); m.add_int(2 ** 15)
    elif ptype == 80:
        m.add_string("tcpip-forward"); m.add_boolean(True); m.add_string("0.0.0.0"); m.add_int(2222)
    else:
        m.add_int(0); m.add_string(b"data-for-a-channel-never-allocated")
    r = Message(m.asbytes())
    r.seqno = 9
    return r


def run_one(ptype):
    a, b = socket.socketpair()
    try:
        t = Transport(a)
        spy = Spy()
        t.server_mode = True
        t.server_object = spy
        pk = FakePacketizer([(ptype, mk(ptype))])
        t.packetizer = pk
        t._check_banner = lambda: None
        t._send_kex_init = lambda: None
        t._expect_packet = lambda *a, **k: None
        t.initial_kex_done = True
        t.clear_to_send.set()          # the state after the first key exchange: connection-layer messages may go out
        t.active = True
        th = threading.Thread(target=t.run, daemon=True)
        th.start()
        th.join(10)
        why = []
        if spy.calls:
            why.append("application consulted before authentication: %r" % spy.calls)
        if len(t._channels.values()) > 0:
            why.append("a channel was created before authentication")
        if ptype == 90 and not any(s[:1] == bytes([92]) for s in pk.sent):
            why.append("channel open not refused with OPEN_FAILURE (sent %r)" % [s[:1].hex() for s in pk.sent])
        if ptype == 80 and not any(s[:1] == bytes([82]) for s in pk.sent):
            why.append("global request not refused with REQUEST_FAILURE")
        return why
    finally:
        a.close()
        b.close()


def replay_unauth(inp):
    p = ival(inp, "ghost.ptype", ival(inp, "ptype", 90))
    bad = []
    for q in [p] + [x for x in (90, 80, 94, 98, 93, 96, 97) if x != p]:
        if q <= 79 or q > 255:
            continue
        why = run_one(q)
        if why:
            bad.append({"ptype": q, "why": why})
    return {"violates": bool(bad), "detail": bad[:3]}
