"""C18 native replay: client-mode transport receiving server-initiated requests"""
import socket
import threading
from paramiko.transport import Transport
from paramiko.channel import Channel
from paramiko.message import Message
from .c12 import FakePacketizer


def client():
    a, b = socket.socketpair()
    t = Transport(a)
    t.packetizer = FakePacketizer([])
    t.active = True
    t.initial_kex_done = True
    t.clear_to_send.set()          # the state after the first key exchange
    return t, a, b


def replay_client(inp):
    bad = []
    t, a, b = client()
    try:
        for kind in ("tcpip-forward", "keepalive@openssh.com", "anything"):
            m = Message()
            m.add_string(kind); m.add_boolean(True); m.add_string("0.0.0.0"); m.add_int(22)
            before = len(t.packetizer.sent)
            t._parse_global_request(Message(m.asbytes()))
            new = t.packetizer.sent[before:]
            if new != [bytes([82])]:
                bad.append({"global_request": kind, "why": "answered %r, expected REQUEST_FAILURE only" % [x.hex() for x in new]})
        for kind in ("session", "x11", "auth-agent@openssh.com", "forwarded-tcpip", "direct-tcpip"):
            m = Message()
            m.add_string(kind); m.add_int(5); m.add_int(2 ** 20); m.add_int(2 ** 15)
            m.add_string("h"); m.add_int(1); m.add_string("o"); m.add_int(2)
            before = len(t.packetizer.sent)
            nchan = len(t._channels.values())
            t._parse_channel_open(Message(m.asbytes()))
            new = t.packetizer.sent[before:]
            if len(t._channels.values()) != nchan:
                bad.append({"channel_open": kind, "why": "a channel was created although the client enabled nothing"})
            elif not (len(new) == 1 and new[0][:1] == bytes([92])):
                bad.append({"channel_open": kind, "why": "not refused with OPEN_FAILURE"})
        c = Channel(1)
        c._set_transport(t)
        c._set_window(2 ** 20, 2 ** 15)
        c._set_remote_channel(2, 2 ** 20, 2 ** 15)
        sent = []
        t._send_user_message = lambda m: sent.append(m.asbytes())
        for key in ("exec", "shell", "subsystem", "pty-req", "env", "x11-req", "auth-agent-req@openssh.com", "window-change", "bogus"):
            m = Message()
            m.add_string(key); m.add_boolean(True)
            m.add_string("xterm"); m.add_int(80); m.add_int(24); m.add_int(0); m.add_int(0); m.add_string("")
            del sent[:]
            c._handle_request(Message(m.asbytes()))
            if not (len(sent) == 1 and sent[0][:1] == bytes([100])):
                bad.append({"channel_request": key, "why": "client answered %r, expected CHANNEL_FAILURE" % [x[:1].hex() for x in sent]})
    finally:
        a.close(); b.close()
    return {"violates": bool(bad), "detail": bad[:4]}
