"""C02 native replay: record a real encrypted stream, tamper with it (flip / delete / insert / truncate / duplicate /
swap packets, also cutting the stream short), read it back with a receiver keyed like the sender: whatever is delivered
must be an unmodified prefix of what was sent"""
import random
import socket
from cryptography.hazmat.backends import default_backend
from cryptography.hazmat.primitives.ciphers import Cipher
from paramiko.packet import Packetizer, NeedRekeyException
from paramiko.message import Message
from paramiko.transport import Transport


class Wire:
    def __init__(self, data=b""):
        self.buf = bytearray(data)
        self.out = bytearray()

    def send(self, d):
        self.out += d
        return len(d)

    def recv(self, n):
        if not self.buf:
            return b""
        k = min(n, len(self.buf), 1 + (len(self.buf) * 7) % 13)
        o = bytes(self.buf[:k])
        del self.buf[:k]
        return o

    def settimeout(self, t):
        pass

    def close(self):
        pass


def params(rnd, cipher, mac):
    info = Transport._cipher_info[cipher]
    mi = Transport._mac_info[mac]
    return dict(cipher=cipher, mac=mac, key=bytes(rnd.getrandbits(8) for _ in range(info["key-size"])),
                iv=bytes(rnd.getrandbits(8) for _ in range(info.get("iv-size", info["block-size"]))),
                mkey=bytes(rnd.getrandbits(8) for _ in range(mi["class"]().digest_size)))


def build(p, sock, outbound):
    pk = Packetizer(sock)
    info = Transport._cipher_info[p["cipher"]]
    mi = Transport._mac_info[p["mac"]]
    aead = info.get("is_aead", False)
    if aead:
        eng = info["class"](p["key"])
    else:
        c = Cipher(info["class"](p["key"]), info["mode"](p["iv"]), backend=default_backend())
        eng = c.encryptor() if outbound else c.decryptor()
    etm = (not aead) and "etm@openssh.com" in p["mac"]
    args = (eng, info["block-size"], None if aead else mi["class"], 16 if aead else mi["size"], None if aead else p["mkey"])
    if outbound:
        pk.set_outbound_cipher(*args, sdctr=p["cipher"].endswith("-ctr"), etm=etm, aead=aead, iv_out=p["iv"] if aead else None)
    else:
        pk.set_inbound_cipher(*args, etm=etm, aead=aead, iv_in=p["iv"] if aead else None)
    return pk


def deliveries(p, stream):
    R = build(p, Wire(stream), False)
    got = []
    for _ in range(50):
        try:
            cmd, m = R.read_message()
        except NeedRekeyException:
            continue
        except Exception:
            break
        got.append(bytes([cmd]) + m.asbytes())
    return got


def tampered(rnd, stream, bounds):
    n = len(stream)
    for i in list(range(0, min(n, 80))) + [rnd.randrange(n) for _ in range(40)]:
        t = bytearray(stream); t[i] ^= 1 << rnd.randrange(8); yield "flip byte %d" % i, bytes(t)
    for i in [0, 1, 3, 4, 5, n // 2, n - 1] + [rnd.randrange(n) for _ in range(10)]:
        yield "delete byte %d" % i, stream[:i] + stream[i + 1:]
        yield "insert byte at %d" % i, stream[:i] + bytes([rnd.getrandbits(8)]) + stream[i:]
        yield "cut stream at %d" % i, stream[:i]
    for a in range(len(bounds) - 1):
        s, e = bounds[a], bounds[a + 1]
        yield "drop packet %d" % a, stream[:s] + stream[e:]
        yield "duplicate packet %d" % a, stream[:e] + stream[s:e] + stream[e:]
        yield "cut inside packet %d, before its last 1..40 bytes" % a, stream[:max(s, e - rnd.randint(1, 40))]
        if a + 2 < len(bounds):
            e2 = bounds[a + 2]
            yield "swap packets %d,%d" % (a, a + 1), stream[:s] + stream[e:e2] + stream[s:e] + stream[e2:]


def replay_tamper(inp):
    rnd = random.Random(int(inp.get("seed", 0)) + 11)
    n = 0
    combos = [(c, rnd.choice(list(Transport._mac_info))) for c in Transport._cipher_info]
    combos += [(rnd.choice(list(Transport._cipher_info)), m) for m in Transport._mac_info]
    for cipher, mac in combos:
        p = params(rnd, cipher, mac)
        w = Wire()
        S = build(p, w, True)
        sent, bounds = [], [0]
        for ln in (1, 6, 20, 33, 100, 1, 17):
            body = bytes(rnd.getrandbits(8) for _ in range(ln))
            m = Message(); m.add_bytes(body)
            S.send_message(m)
            sent.append(body)
            bounds.append(len(w.out))
        stream = bytes(w.out)
        if deliveries(p, stream) != sent:
            return dict(violates=True, evaluations=n, detail="%s/%s: untampered stream not delivered intact" % (cipher, mac))
        for what, t in tampered(rnd, stream, bounds):
            n += 1
            got = deliveries(p, t)
            if got != sent[:len(got)]:
                k = next(i for i, g in enumerate(got) if i >= len(sent) or g != sent[i])
                return dict(violates=True, evaluations=n,
                            detail="%s / %s, %s: message #%d delivered as %d bytes that differ from what was sent (%d bytes)"
                            % (cipher, mac, what, k, len(got[k]), len(sent[k]) if k < len(sent) else -1),
                            inputs=dict(cipher=cipher, mac=mac, tamper=what))
    return dict(violates=False, evaluations=n)


def nonce_counter(inp):
    """the real Packetizer._inc_iv_counter on invocation counters across the whole 64-bit range, the top included: the
    counter must go up by exactly one (or the function must refuse), the fixed four bytes must stay"""
    from paramiko.packet import Packetizer
    p = Packetizer.__new__(Packetizer)
    bad = []
    for c in [0, 1, 255, 256, 2 ** 32 - 1, 2 ** 32, 2 ** 63, 2 ** 64 - 3, 2 ** 64 - 2, 2 ** 64 - 1]:
        iv = b"\x01\x02\x03\x04" + c.to_bytes(8, "big")
        try:
            out = p._inc_iv_counter(iv)
        except OverflowError:
            if c != 2 ** 64 - 1:
                bad.append({"counter": hex(c), "why": "raised OverflowError below the top of the counter"})
            continue
        if len(out) != 12 or out[:4] != iv[:4] or int.from_bytes(out[4:], "big") != c + 1:
            bad.append({"counter": hex(c), "next_nonce": out.hex(), "why": "the invocation counter did not go up by exactly one (a nonce used twice "
                        "lets whole packets be dropped, swapped or replayed without failing the tag)"})
    return {"violates": bool(bad), "detail": bad[:3]}
