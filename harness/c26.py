"""C26 native replay: BufferedPipe.read with a scheduled 'other thread' (the Condition's wait performs the other
thread's step while the lock is released, which is exactly what Condition.wait permits) and a mocked clock"""
import time as _time
from paramiko import buffered_pipe
from paramiko.buffered_pipe import BufferedPipe, PipeTimeout


class SchedCond:
    """stands in for threading.Condition(self._lock): wait() = 'another thread runs now'"""

    def __init__(self, pipe, steps, clock):
        self.pipe, self.steps, self.clock = pipe, list(steps), clock

    def wait(self, timeout=None):
        if self.steps:
            self.steps.pop(0)(self.pipe)
        self.clock[0] += (timeout if timeout is not None else 1.0) + 0.5   # the full timeout elapses
        return False

    def notify_all(self):
        pass


def scenario_late_data():
    p = BufferedPipe()
    clock = [1000.0]
    real = buffered_pipe.time.time
    buffered_pipe.time.time = lambda: clock[0]
    try:
        p._cv = SchedCond(p, [lambda q: q._buffer_frombytes(b"late-data")], clock)
        try:
            out = p.read(100, timeout=1.0)
            if out != b"late-data":
                return ["read returned %r" % out]
            return []
        except PipeTimeout:
            if len(p._buffer) > 0:
                return ["PipeTimeout raised although %d bytes were buffered when the wait ended" % len(p._buffer)]
            return []
    finally:
        buffered_pipe.time.time = real


def scenario_fifo():
    p = BufferedPipe()
    fed = b""
    got = b""
    for i in range(20):
        chunk = bytes([i]) * (i % 7 + 1)
        p.feed(chunk)
        fed += chunk
        if i % 3 == 0:
            got += p.read(5, 0.0)
        if i % 11 == 10:
            got += p.empty()
    p.close()
    while True:
        x = p.read(4, 0.0)
        if not x:
            break
        got += x
    return [] if got == fed else ["read+emptied != fed"]


def replay_pipe(inp):
    bad = []
    for name, f in (("timed read, data arrives as the timeout expires", scenario_late_data), ("feed/read/empty/close", scenario_fifo)):
        why = f()
        if why:
            bad.append({"history": name, "why": why})
    return {"violates": bool(bad), "detail": bad}
