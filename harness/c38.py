"""C38 native replay: scripted peers that break the protocol; whatever surfaces through start_client / start_server /
get_exception must be SSHException, EOFError or a socket error"""
import os
import socket
import struct
import threading
from paramiko.transport import Transport
from paramiko.message import Message
from paramiko.rsakey import RSAKey
from paramiko.ssh_exception import SSHException
from paramiko.kex_ecdh_nist import KexNistp256
from paramiko.kex_curve25519 import KexCurve25519

OK = (SSHException, EOFError, socket.error)
KEY = None


def packet(payload):
    pad = 8 - (len(payload) + 5) % 8
    if pad < 4:
        pad += 8
    return struct.pack(">IB", len(payload) + pad + 1, pad) + payload + b"\0" * pad


def namelist(b):
    return struct.pack(">I", len(b)) + b


def kexinit(kex=b"curve25519-sha256", bad_field=None):
    fields = [kex, b"ssh-ed25519,rsa-sha2-512", b"aes128-ctr", b"aes128-ctr", b"hmac-sha2-256", b"hmac-sha2-256", b"none", b"none", b"", b""]
    if bad_field is not None:
        fields[bad_field] = b"abc\xff\xfe"
    return b"\x14" + os.urandom(16) + b"".join(namelist(f) for f in fields) + b"\0" + struct.pack(">I", 0)


def run_peer(sock, script):
    try:
        sock.sendall(b"SSH-2.0-evil\r\n")
        for p in script:
            sock.sendall(packet(p))
        sock.settimeout(2)
        try:
            while sock.recv(4096):
                pass
        except Exception:
            pass
    except Exception:
        pass


def surfaced(server, script):
    global KEY
    a, b = socket.socketpair()
    t = Transport(a)
    th = threading.Thread(target=run_peer, args=(b, script), daemon=True)
    th.start()
    exc = None
    try:
        if server:
            if KEY is None:
                KEY = RSAKey.generate(1024)
            t.add_server_key(KEY)
            ev = threading.Event()
            t.start_server(event=ev)
            ev.wait(5)
        else:
            t.start_client(timeout=5)
        t.join(1)
        exc = t.get_exception()
    except Exception as e:
        exc = e
    finally:
        t.close(); a.close(); b.close()
    return exc


def judge(name, exc, bad):
    if exc is not None and not isinstance(exc, OK):
        bad.append({"history": name, "why": ["%s surfaced: %s" % (type(exc).__name__, str(exc)[:80])]})


def replay_peer_garbage(inp):
    bad = []
    n = 0
    for server in (False, True):
        role = "server" if server else "client"
        for ptype in (81, 82, 91, 92):
            n += 1
            judge("%s: peer sends message type %d instead of KEXINIT-following traffic" % (role, ptype),
                  surfaced(server, [kexinit(), bytes([ptype]) + b"\0" * 8]), bad)
        n += 1
        judge("%s: CHANNEL_OPEN with a non-UTF-8 kind before authentication" % role,
              surfaced(server, [kexinit(), b"\x5a" + namelist(b"\xff\xfe") + struct.pack(">III", 1, 1000, 1000)]), bad)
        n += 1
        judge("%s: message type 200" % role, surfaced(server, [kexinit(), b"\xc8abc"]), bad)
    # key exchange handlers with invalid public values (called directly: no handshake needed)
    class T:
        server_mode = True

        def get_server_key(self):
            raise SSHException("not reached")
    for cls, data in ((KexNistp256, b"\x04" + b"\x01" * 64), (KexNistp256, b""), (KexCurve25519, b"short")):
        n += 1
        k = cls(T())
        if cls is KexNistp256:
            k._generate_key_pair()
        m = Message(); m.add_string(data); m.rewind()
        try:
            k._parse_kexecdh_init(m)
        except OK:
            pass
        except Exception as e:
            bad.append({"history": "%s init handler with a %d-byte public value" % (cls.__name__, len(data)),
                        "why": ["%s surfaced: %s" % (type(e).__name__, str(e)[:60])]})
    return {"violates": bool(bad), "evaluations": n, "detail": bad[:4]}


def kexinit_with_bad_utf8(inp):
    """witness of the known finding: a KEXINIT whose name-lists are not UTF-8"""
    bad = []
    for server in (False, True):
        for field in (0, 2, 4):
            judge("%s: KEXINIT name-list %d is not UTF-8" % ("server" if server else "client", field),
                  surfaced(server, [kexinit(bad_field=field)]), bad)
    return {"violates": bool(bad), "detail": bad[:3]}


def auth_reply_garbage(inp):
    """behind the key exchange: a server answers an authentication request (and a channel request) with messages whose
    text fields are not UTF-8; the exception the client's auth call raises, and the one get_exception() returns, must be
    SSHException / EOFError / a socket error"""
    import socket as _s
    import threading
    import paramiko
    from paramiko.message import Message
    from paramiko.common import cMSG_USERAUTH_FAILURE, cMSG_USERAUTH_BANNER, AUTH_FAILED

    bad = []
    key = paramiko.ECDSAKey.generate()
    for what in ("failure-list", "info-request"):
        a, b = _s.socketpair()
        ts = paramiko.Transport(a)
        ts.add_server_key(key)

        class Srv(paramiko.ServerInterface):
            def get_allowed_auths(self, username):
                return "password,keyboard-interactive"

            def check_auth_password(self, username, password):
                m = Message()
                m.add_byte(cMSG_USERAUTH_FAILURE)
                m.add_string(b"pass\xff\xfeword")
                m.add_boolean(False)
                ts._send_message(m)
                return AUTH_FAILED

            def check_auth_interactive(self, username, submethods):
                m = Message()
                m.add_byte(bytes([60]))                 # USERAUTH_INFO_REQUEST
                m.add_string(b"title \xff\xfe")
                m.add_string(b"")
                m.add_string(b"")
                m.add_int(0)
                ts._send_message(m)
                return AUTH_FAILED
        ts.start_server(threading.Event(), Srv())
        tc = paramiko.Transport(b)
        exc = None
        try:
            tc.start_client(timeout=10)
            if what == "failure-list":
                tc.auth_password("u", "p")
            else:
                tc.auth_interactive("u", lambda *a: [])
        except Exception as e:
            exc = e
        got = [exc, tc.get_exception()]
        for e in got:
            if e is not None and not isinstance(e, (paramiko.SSHException, EOFError, OSError)):
                bad.append("%s: %s surfaced through the client API" % (what, type(e).__name__))
        tc.close()
        ts.close()
    return {"violates": bool(bad), "detail": sorted(set(bad))[:4]}


def low_order_curve25519_point(inp):
    """the curve25519 engine given low-order peer points (the library raises ValueError for them): the failure must be an
    SSHException from the handler itself"""
    from cryptography.hazmat.primitives.asymmetric.x25519 import X25519PrivateKey, X25519PublicKey
    from paramiko.kex_curve25519 import KexCurve25519
    from paramiko import SSHException
    bad = []
    for pt in (bytes(32), bytes([1]) + bytes(31),
               bytes.fromhex("e0eb7a7c3b41b8ae1656e3faf19fc46ada098deb9c32b1fd866205165f49b800")):
        k = KexCurve25519(None)
        k.key = X25519PrivateKey.generate()
        try:
            k._perform_exchange(X25519PublicKey.from_public_bytes(pt))
            bad.append({"point": pt.hex()[:16], "why": "a shared secret was derived from a low-order point"})
        except SSHException:
            pass
        except Exception as e:
            bad.append({"point": pt.hex()[:16], "why": "%s escaped from the key-exchange handler" % type(e).__name__})
    return {"violates": bool(bad), "detail": bad[:3]}
