"""C38 native replay: scripted peers that break the protocol; whatever surfaces through start_client / start_server /
get_exception must be SSHException, EOFError or a socket error"""
import os
import socket
import struct
import threading
from paramiko.transport import Transport
from paramiko.message import Message
from paramiko.rsakey import RSAKey
from paramiko.ssh_exception import SSHException
from paramiko.kex_ecdh_nist import KexNistp256
from paramiko.kex_curve25519 import KexCurve25519

OK = (SSHException, EOFError, socket.error)
KEY = None


def packet(payload):
    pad = 8 - (len(payload) + 5) % 8
    if pad < 4:
        pad += 8
    return struct.pack(">IB", len(payload) + pad + 1, pad) + payload + b"\0" * pad


def namelist(b):
    return struct.pack(">I", len(b)) + b


def kexinit(kex=b"curve25519-sha256", bad_field=None):
    fields = [kex, b"ssh-ed25519,rsa-sha2-512", b"aes128-ctr", b"aes128-ctr", b"hmac-sha2-256", b"hmac-sha2-256", b"none", b"none", b"", b""]
    if bad_field is not None:
        fields[bad_field] = b"abc\xff\xfe"
    return b"\x14" + os.urandom(16) + b"".join(namelist(f) for f in fields) + b"\0" + struct.pack(">I", 0)


def run_peer(sock, script):
    try:
        sock.sendall(b"SSH-2.0-evil\r\n")
        for p in script:
            sock.sendall(packet(p))
        sock.settimeout(2)
        try:
            while sock.recv(4096):
                pass
        except Exception:
            pass
    except Exception:
        pass


def surfaced(server, script):
    global KEY
    a, b = socket.socketpair()
    t = Transport(a)
    th = threading.Thread(target=run_peer, args=(b, script), daemon=True)
    th.start()
    exc = None
    try:
        if server:
            if KEY is None:
                KEY = RSAKey.generate(1024)
            t.add_server_key(KEY)
            ev = threading.Event()
            t.start_server(event=ev)
            ev.wait(5)
        else:
            t.start_client(timeout=5)
        t.join(1)
        exc = t.get_exception()
    except Exception as e:
        exc = e
    finally:
        t.close(); a.close(); b.close()
    return exc


def judge(name, exc, bad):
    if exc is not None and not isinstance(exc, OK):
        bad.append({"history": name, "why": ["%s surfaced: %s" % (type(exc).__name__, str(exc)[:80])]})


def replay_peer_garbage(inp):
    bad = []
    n = 0
    for server in (False, True):
        role = "server" if server else "client"
        for ptype in (81, 82, 91, 92):
            n += 1
            judge("%s: peer sends message type %d instead of KEXINIT-following traffic" % (role, ptype),
                  surfaced(server, [kexinit(), bytes([ptype]) + b"\0" * 8]), bad)
        n += 1
        judge("%s: CHANNEL_OPEN with a non-UTF-8 kind before authentication" % role,
              surfaced(server, [kexinit(), b"\x5a" + namelist(b"\xff\xfe") + struct.pack(">III", 1, 1000, 1000)]), bad)
        n += 1
        judge("%s: message type 200" % role, surfaced(server, [kexinit(), b"\xc8abc"]), bad)
    # key exchange handlers with invalid public values (called directly: no handshake needed)
    class T:
        server_mode = True

        def get_server_key(self):
            raise SSHException("not reached")
    for cls, data in ((KexNistp256, b"\x04" + b"\x01" * 64), (KexNistp256, b""), (KexCurve25519, b"short")):
        n += 1
        k = cls(T())
        if cls is KexNistp256:
            k._generate_key_pair()
        m = Message(); m.add_string(data); m.rewind()
        try:
            k._parse_kexecdh_init(m)
        except OK:
            pass
        except Exception as e:
            bad.append({"history": "%s init handler with a %d-byte public value" % (cls.__name__, len(data)),
                        "why": ["%s surfaced: %s" % (type(e).__name__, str(e)[:60])]})
    return {"violates": bool(bad), "evaluations": n, "detail": bad[:4]}


def kexinit_with_bad_utf8(inp):
    """witness of the known finding: a KEXINIT whose name-lists are not UTF-8"""
    bad = []
    for server in (False, True):
        for field in (0, 2, 4):
            judge("%s: KEXINIT name-list %d is not UTF-8" % ("server" if server else "client", field),
                  surfaced(server, [kexinit(bad_field=field)]), bad)
    return {"violates": bool(bad), "detail": bad[:3]}
